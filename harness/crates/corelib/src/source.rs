//! Engine `source`: drives the real `wit_bindgen_core::Source` through its public API.
//! One case per line, ops separated by one space:
//!   p:<enc>        push_str            l:<enc>   push_str_literal
//!   w:<enc>|<enc>  write!(s, "{}{}", ..) (1..=3 parts)      W:<enc>  writeln!(s, "{}", ..)
//!   i:<n> indent   d:<n> deindent      s:<n>     set_indent (its return value is an output)
//!   q:             query: `let o = set_indent(0); set_indent(o);` output o
//!   a:<op>,<op>..  build a fresh Source with the (basic) ops, then append_src it
//! <enc>: `\n` LF, `\r` CR, `\t` TAB, `\s` space, `\\` backslash, `\c` comma, `\p` '|', `\xHH` other; ASCII only.
//! Output: `<enc of as_str()> <outputs joined by ','>` (`-` when there are none); a panic gives `PANIC`.
use std::fmt::Write;
use wit_bindgen_core::Source;

pub fn decode(s: &str) -> String {
    let mut out = String::new();
    let b = s.as_bytes();
    let mut i = 0;
    while i < b.len() {
        if b[i] == b'\\' {
            i += 1;
            match b[i] {
                b'n' => out.push('\n'),
                b'r' => out.push('\r'),
                b't' => out.push('\t'),
                b's' => out.push(' '),
                b'\\' => out.push('\\'),
                b'c' => out.push(','),
                b'p' => out.push('|'),
                b'x' => {
                    let v = u8::from_str_radix(&s[i + 1..i + 3], 16).unwrap();
                    assert!(v < 128);
                    out.push(v as char);
                    i += 2;
                }
                other => panic!("bad escape {other}"),
            }
            i += 1;
        } else {
            out.push(b[i] as char);
            i += 1;
        }
    }
    out
}

pub fn encode(s: &str) -> String {
    let mut out = String::new();
    for c in s.chars() {
        match c {
            '\n' => out.push_str("\\n"),
            '\r' => out.push_str("\\r"),
            '\t' => out.push_str("\\t"),
            ' ' => out.push_str("\\s"),
            '\\' => out.push_str("\\\\"),
            ',' => out.push_str("\\c"),
            '|' => out.push_str("\\p"),
            c if (c as u32) < 0x21 || (c as u32) > 0x7e => out.push_str(&format!("\\x{:02x}", c as u32)),
            c => out.push(c),
        }
    }
    out
}

fn apply(s: &mut Source, op: &str, outs: &mut Vec<String>) {
    let (k, arg) = op.split_once(':').expect("op");
    match k {
        "p" => s.push_str(&decode(arg)),
        "l" => s.push_str_literal(&decode(arg)),
        "w" => {
            let parts: Vec<String> = arg.split('|').map(decode).collect();
            match parts.as_slice() {
                [a] => write!(s, "{}", a).unwrap(),
                [a, b] => write!(s, "{}{}", a, b).unwrap(),
                [a, b, c] => write!(s, "{}{}{}", a, b, c).unwrap(),
                _ => panic!("w: 1..=3 parts"),
            }
        }
        "W" => writeln!(s, "{}", decode(arg)).unwrap(),
        "i" => s.indent(arg.parse().unwrap()),
        "d" => s.deindent(arg.parse().unwrap()),
        "s" => outs.push(s.set_indent(arg.parse().unwrap()).to_string()),
        "q" => {
            let o = s.set_indent(0);
            s.set_indent(o);
            outs.push(o.to_string());
        }
        _ => panic!("bad op {k}"),
    }
}

pub fn run_case(line: &str) -> String {
    let mut s = Source::default();
    let mut outs = Vec::new();
    for op in line.split(' ').filter(|s| !s.is_empty()) {
        if let Some(sub) = op.strip_prefix("a:") {
            let mut t = Source::default();
            for o in sub.split(',').filter(|s| !s.is_empty()) {
                apply(&mut t, o, &mut outs);
            }
            s.append_src(&t);
        } else {
            apply(&mut s, op, &mut outs);
        }
    }
    // as_str(), Deref<Target=str> and From<Source> for String must agree
    let a = s.as_str().to_string();
    let d: &str = &s;
    assert_eq!(a, d);
    let o: String = s.into();
    assert_eq!(a, o);
    format!("{} {}", encode(&a), if outs.is_empty() { "-".to_string() } else { outs.join(",") })
}
