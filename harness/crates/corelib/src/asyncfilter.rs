//! `asyncfilter`: drives the real `wit_bindgen_core::AsyncFilterSet` (public API only).
//! Line: `<directives>\x1e<wit text, newlines as \x1f>\x1e<world or empty>\x1e<queries>`
//!   directives: each written `=<text>`, separated by \x1d (none: empty field); pushed with `AsyncFilterSet::push`
//!   queries:    space separated indices into the function table of the world, in the order to ask
//! The function table lists, in world order (imports then exports), every function the generators bind:
//! world-level functions (interface key None) and the functions of every imported/exported interface.
//! Answer: `ok T=<key|name|i/e|a/s;...> A=<0/1 per query> U=<ok|err:message> D=<=text\x1d=text... from debug_opts> E=<any_enabled>`
//!      or `err <first line of the parser's error>`.
use wit_bindgen_core::AsyncFilterSet;
use wit_parser::{Function, Resolve, WorldItem, WorldKey};

pub struct Entry<'a> {
    pub key: Option<&'a WorldKey>,
    pub func: &'a Function,
    pub import: bool,
}

pub fn table<'a>(resolve: &'a Resolve, world: wit_parser::WorldId) -> Vec<Entry<'a>> {
    let w = &resolve.worlds[world];
    let mut out = Vec::new();
    for (import, items) in [(true, &w.imports), (false, &w.exports)] {
        for (key, item) in items.iter() {
            match item {
                WorldItem::Function(f) => out.push(Entry { key: None, func: f, import }),
                WorldItem::Interface { id, .. } => {
                    for f in resolve.interfaces[*id].functions.values() {
                        out.push(Entry { key: Some(key), func: f, import });
                    }
                }
                WorldItem::Type { .. } => {}
            }
        }
    }
    out
}

pub fn run_case(line: &str) -> String {
    let fields: Vec<&str> = line.split('\x1e').collect();
    if fields.len() != 4 {
        return "err bad line".to_string();
    }
    let (resolve, pkg) = match crate::parse::load(fields[1]) {
        Ok(x) => x,
        Err(e) => return format!("err {}", format!("{e:#}").lines().next().unwrap_or("")),
    };
    let world = if fields[2].is_empty() { None } else { Some(fields[2]) };
    let world = match resolve.select_world(&[pkg], world) {
        Ok(w) => w,
        Err(e) => return format!("err {}", format!("{e:#}").lines().next().unwrap_or("")),
    };
    let mut set = AsyncFilterSet::default();
    if !fields[0].is_empty() {
        for d in fields[0].split('\x1d') {
            set.push(d.strip_prefix('=').expect("directive must be written =text"));
        }
    }
    let tab = table(&resolve, world);
    let t: Vec<String> = tab
        .iter()
        .map(|e| {
            format!(
                "{}|{}|{}|{}",
                e.key.map(|k| resolve.name_world_key(k)).unwrap_or_else(|| "-".to_string()),
                e.func.name,
                if e.import { "i" } else { "e" },
                if e.func.kind.is_async() { "a" } else { "s" }
            )
        })
        .collect();
    let mut answers = String::new();
    for q in fields[3].split(' ').filter(|s| !s.is_empty()) {
        let e = &tab[q.parse::<usize>().expect("query index")];
        let b = set.is_async(&resolve, e.key, e.func, e.import);
        answers.push(if b { '1' } else { '0' });
    }
    let verdict = match set.ensure_all_used() {
        Ok(()) => "ok".to_string(),
        Err(e) => format!("err:{e}"),
    };
    let shown: Vec<String> = set.debug_opts().map(|s| format!("={s}")).collect();
    format!(
        "ok T={} A={} U={} D={} E={}",
        t.join(";"),
        answers,
        verdict,
        shown.join("\x1d"),
        set.any_enabled()
    )
}
