//! `cast`: input `<from> <to>` over {i32,i64,f32,f64,ptr,ptr64,len}; prints the real `abi::cast` result
//! (Debug of the Bitcast, `(Seq a b)` for sequences) or `PANIC`.
use wit_bindgen_core::abi::{cast, Bitcast, WasmType};

fn wt(s: &str) -> WasmType {
    match s {
        "i32" => WasmType::I32,
        "i64" => WasmType::I64,
        "f32" => WasmType::F32,
        "f64" => WasmType::F64,
        "ptr" => WasmType::Pointer,
        "ptr64" => WasmType::PointerOrI64,
        "len" => WasmType::Length,
        _ => panic!("bad wasm type"),
    }
}
fn show(c: &Bitcast) -> String {
    match c {
        Bitcast::Sequence(b) => format!("(Seq {} {})", show(&b[0]), show(&b[1])),
        other => format!("{other:?}"),
    }
}
pub fn run_case(line: &str) -> String {
    let mut it = line.split(' ');
    let a = wt(it.next().unwrap());
    let b = wt(it.next().unwrap());
    show(&cast(a, b))
}
