//! `pkgname`: one package set per line: space separated `ns:name` / `ns:name@version` ids.
//! A `Resolve` is built by the real wit-parser from generated WIT text (one root package plus one nested
//! `package <id> { }` block per id), then the real `wit_bindgen_core::name_package_module` is asked for
//! every package of the line, in input order.
//! Answer: `ok <module> <module> ...` or `err <first line of the parser's error>`.
use wit_bindgen_core::name_package_module;
use wit_parser::Resolve;

pub const ROOT: &str = "zzroot:zzroot";

pub fn wit_text(ids: &[&str]) -> String {
    let mut text = format!("package {ROOT};\n");
    for id in ids {
        text.push_str(&format!("package {id} {{\n}}\n"));
    }
    text
}

pub fn run_case(line: &str) -> String {
    let ids: Vec<&str> = line.split(' ').filter(|s| !s.is_empty()).collect();
    let text = wit_text(&ids);
    let mut resolve = Resolve::default();
    if let Err(e) = resolve.push_str("case.wit", &text) {
        let msg = format!("{e:#}");
        return format!("err {}", msg.lines().next().unwrap_or(""));
    }
    let mut out = vec!["ok".to_string()];
    for id in &ids {
        let found = resolve
            .packages
            .iter()
            .find(|(_, p)| p.name.to_string() == *id)
            .map(|(pid, _)| pid);
        match found {
            Some(pid) => out.push(name_package_module(&resolve, pid)),
            // the parser accepted the text but stores the id under another spelling
            None => out.push(format!("?{id}")),
        }
    }
    out.join(" ")
}
