//! absdump: a recording `Bindgen` that dumps the instruction stream (with operand data-flow) the REAL
//! shared ABI generator (wit_bindgen_core::abi) produces through its public entry points.
//!
//! Input line : WIT package text (newlines as \x1f) holding exactly one interface; every function of it is dumped.
//! Output line: records separated by \x1e; each record is `<label>\x1d<payload>`:
//!   func <name> :: (sig (params T..) (result T|_) (method 0|1))
//!   <entry label> :: events separated by " ; "   or   PANIC <message>
//! Entry labels: call.<variant>.<liftlower>.<async>.<canon>, lower_flat.<k>.<canon>, lower_to_memory.<k>.<canon>,
//!   lift_from_memory.<k>.<canon>, post_return.<canon>, dealloc.<what>.<direct|indirect>.<canon>, facts
//! where <k> indexes the function's types (params then result) and <canon> is the is_list_canonical rule.
use std::io::{self, BufRead, Write};
use wit_bindgen_core::abi::{self, AbiVariant, Bindgen, Bitcast, Instruction, LiftLower, WasmType};
use wit_parser::*;

struct Rec<'a> {
    resolve: &'a Resolve,
    next: usize,
    out: Vec<String>,
    sizes: SizeAlign,
    canon: u8,
}

fn fmt_ty(r: &Resolve, t: &Type) -> String {
    match t {
        Type::Bool => "bool".into(),
        Type::U8 => "u8".into(),
        Type::S8 => "s8".into(),
        Type::U16 => "u16".into(),
        Type::S16 => "s16".into(),
        Type::U32 => "u32".into(),
        Type::S32 => "s32".into(),
        Type::U64 => "u64".into(),
        Type::S64 => "s64".into(),
        Type::F32 => "f32".into(),
        Type::F64 => "f64".into(),
        Type::Char => "char".into(),
        Type::String => "string".into(),
        Type::ErrorContext => "errctx".into(),
        Type::Id(id) => match &r.types[*id].kind {
            TypeDefKind::Type(t) => fmt_ty(r, t),
            TypeDefKind::List(t) => format!("(list {})", fmt_ty(r, t)),
            TypeDefKind::FixedLengthList(t, n) => format!("(fixed {} {})", fmt_ty(r, t), n),
            TypeDefKind::Map(k, v) => format!("(map {} {})", fmt_ty(r, k), fmt_ty(r, v)),
            TypeDefKind::Record(rec) => format!("(record{})", fmt_tys(r, rec.fields.iter().map(|f| &f.ty))),
            TypeDefKind::Tuple(t) => format!("(tuple{})", fmt_tys(r, t.types.iter())),
            TypeDefKind::Variant(v) => format!("(variant{})", fmt_cases(r, v.cases.iter().map(|c| c.ty.as_ref()))),
            TypeDefKind::Enum(e) => format!("(enum {})", e.cases.len()),
            TypeDefKind::Option(t) => format!("(option {})", fmt_ty(r, t)),
            TypeDefKind::Result(res) => format!("(result {} {})", fmt_opt(r, res.ok.as_ref()), fmt_opt(r, res.err.as_ref())),
            TypeDefKind::Flags(f) => format!("(flags {})", f.flags.len()),
            TypeDefKind::Handle(Handle::Own(_)) => "own".into(),
            TypeDefKind::Handle(Handle::Borrow(_)) => "borrow".into(),
            TypeDefKind::Future(p) => format!("(future {})", fmt_opt(r, p.as_ref())),
            TypeDefKind::Stream(p) => format!("(stream {})", fmt_opt(r, p.as_ref())),
            TypeDefKind::Resource => "resource".into(),
            TypeDefKind::Unknown => "unknown".into(),
        },
    }
}
fn fmt_opt(r: &Resolve, t: Option<&Type>) -> String {
    match t {
        Some(t) => fmt_ty(r, t),
        None => "_".into(),
    }
}
fn fmt_tys<'b>(r: &Resolve, ts: impl Iterator<Item = &'b Type>) -> String {
    ts.map(|t| format!(" {}", fmt_ty(r, t))).collect()
}
fn fmt_cases<'b>(r: &Resolve, ts: impl Iterator<Item = Option<&'b Type>>) -> String {
    ts.map(|t| format!(" {}", fmt_opt(r, t))).collect()
}
fn fmt_off(o: &ArchitectureSize) -> String {
    format!("{}+{}", o.bytes, o.pointers)
}
fn fmt_align(a: &Alignment) -> String {
    match a {
        Alignment::Pointer => "ptr".into(),
        Alignment::Bytes(b) => format!("{}", b.get()),
    }
}
fn fmt_wt(t: &WasmType) -> &'static str {
    match t {
        WasmType::I32 => "i32",
        WasmType::I64 => "i64",
        WasmType::F32 => "f32",
        WasmType::F64 => "f64",
        WasmType::Pointer => "ptr",
        WasmType::PointerOrI64 => "ptr64",
        WasmType::Length => "len",
    }
}
fn fmt_wts(ts: &[WasmType]) -> String {
    format!("[{}]", ts.iter().map(fmt_wt).collect::<Vec<_>>().join(" "))
}
fn fmt_cast(c: &Bitcast) -> String {
    match c {
        Bitcast::Sequence(b) => format!("(Seq {} {})", fmt_cast(&b[0]), fmt_cast(&b[1])),
        other => format!("{other:?}"),
    }
}
fn b01(b: bool) -> u8 {
    b as u8
}

fn fmt_inst(r: &Resolve, i: &Instruction<'_>) -> String {
    use Instruction::*;
    match i {
        GetArg { nth } => format!("GetArg {nth}"),
        I32Const { val } => format!("I32Const {val}"),
        Bitcasts { casts } => format!("Bitcasts [{}]", casts.iter().map(fmt_cast).collect::<Vec<_>>().join(" ")),
        ConstZero { tys } => format!("ConstZero {}", fmt_wts(tys)),
        I32Load { offset } => format!("I32Load {}", fmt_off(offset)),
        I32Load8U { offset } => format!("I32Load8U {}", fmt_off(offset)),
        I32Load8S { offset } => format!("I32Load8S {}", fmt_off(offset)),
        I32Load16U { offset } => format!("I32Load16U {}", fmt_off(offset)),
        I32Load16S { offset } => format!("I32Load16S {}", fmt_off(offset)),
        I64Load { offset } => format!("I64Load {}", fmt_off(offset)),
        F32Load { offset } => format!("F32Load {}", fmt_off(offset)),
        F64Load { offset } => format!("F64Load {}", fmt_off(offset)),
        PointerLoad { offset } => format!("PointerLoad {}", fmt_off(offset)),
        LengthLoad { offset } => format!("LengthLoad {}", fmt_off(offset)),
        I32Store { offset } => format!("I32Store {}", fmt_off(offset)),
        I32Store8 { offset } => format!("I32Store8 {}", fmt_off(offset)),
        I32Store16 { offset } => format!("I32Store16 {}", fmt_off(offset)),
        I64Store { offset } => format!("I64Store {}", fmt_off(offset)),
        F32Store { offset } => format!("F32Store {}", fmt_off(offset)),
        F64Store { offset } => format!("F64Store {}", fmt_off(offset)),
        PointerStore { offset } => format!("PointerStore {}", fmt_off(offset)),
        LengthStore { offset } => format!("LengthStore {}", fmt_off(offset)),
        I32FromChar | I64FromU64 | I64FromS64 | I32FromU32 | I32FromS32 | I32FromU16 | I32FromS16
        | I32FromU8 | I32FromS8 | CoreF32FromF32 | CoreF64FromF64 | S8FromI32 | U8FromI32 | S16FromI32
        | U16FromI32 | S32FromI32 | U32FromI32 | S64FromI64 | U64FromI64 | CharFromI32 | F32FromCoreF32
        | F64FromCoreF64 | BoolFromI32 | I32FromBool | StringLift | IterBasePointer | ErrorContextLower
        | ErrorContextLift | VariantPayloadName | GuestDeallocateString => format!("{i:?}"),
        ListCanonLower { element, realloc } => format!("ListCanonLower {} {}", fmt_ty(r, element), b01(realloc.is_some())),
        StringLower { realloc } => format!("StringLower {}", b01(realloc.is_some())),
        ListLower { element, realloc } => format!("ListLower {} {}", fmt_ty(r, element), b01(realloc.is_some())),
        ListCanonLift { element, .. } => format!("ListCanonLift {}", fmt_ty(r, element)),
        ListLift { element, .. } => format!("ListLift {}", fmt_ty(r, element)),
        MapLower { key, value, realloc } => format!("MapLower {} {} {}", fmt_ty(r, key), fmt_ty(r, value), b01(realloc.is_some())),
        MapLift { key, value, .. } => format!("MapLift {} {}", fmt_ty(r, key), fmt_ty(r, value)),
        FixedLengthListLift { element, size, .. } => format!("FixedLengthListLift {} {}", fmt_ty(r, element), size),
        FixedLengthListLower { element, size, .. } => format!("FixedLengthListLower {} {}", fmt_ty(r, element), size),
        FixedLengthListLowerToMemory { element, size, .. } => format!("FixedLengthListLowerToMemory {} {}", fmt_ty(r, element), size),
        FixedLengthListLiftFromMemory { element, size, .. } => format!("FixedLengthListLiftFromMemory {} {}", fmt_ty(r, element), size),
        IterElem { element } => format!("IterElem {}", fmt_ty(r, element)),
        IterMapKey { key } => format!("IterMapKey {}", fmt_ty(r, key)),
        IterMapValue { value } => format!("IterMapValue {}", fmt_ty(r, value)),
        RecordLower { record, .. } => format!("RecordLower [{}]", fmt_tys(r, record.fields.iter().map(|f| &f.ty)).trim_start()),
        RecordLift { record, .. } => format!("RecordLift [{}]", fmt_tys(r, record.fields.iter().map(|f| &f.ty)).trim_start()),
        HandleLower { handle, .. } => format!("HandleLower {}", if matches!(handle, Handle::Own(_)) { "own" } else { "borrow" }),
        HandleLift { handle, .. } => format!("HandleLift {}", if matches!(handle, Handle::Own(_)) { "own" } else { "borrow" }),
        FutureLower { payload, .. } => format!("FutureLower {}", fmt_opt(r, payload.as_ref())),
        FutureLift { payload, .. } => format!("FutureLift {}", fmt_opt(r, payload.as_ref())),
        StreamLower { payload, .. } => format!("StreamLower {}", fmt_opt(r, payload.as_ref())),
        StreamLift { payload, .. } => format!("StreamLift {}", fmt_opt(r, payload.as_ref())),
        TupleLower { tuple, .. } => format!("TupleLower [{}]", fmt_tys(r, tuple.types.iter()).trim_start()),
        TupleLift { tuple, .. } => format!("TupleLift [{}]", fmt_tys(r, tuple.types.iter()).trim_start()),
        FlagsLower { flags, .. } => format!("FlagsLower {}", flags.flags.len()),
        FlagsLift { flags, .. } => format!("FlagsLift {}", flags.flags.len()),
        VariantLower { variant, results, .. } => format!(
            "VariantLower [{}] {}",
            fmt_cases(r, variant.cases.iter().map(|c| c.ty.as_ref())).trim_start(),
            fmt_wts(results)
        ),
        VariantLift { variant, .. } => format!("VariantLift [{}]", fmt_cases(r, variant.cases.iter().map(|c| c.ty.as_ref())).trim_start()),
        EnumLower { enum_, .. } => format!("EnumLower {}", enum_.cases.len()),
        EnumLift { enum_, .. } => format!("EnumLift {}", enum_.cases.len()),
        OptionLower { payload, results, .. } => format!("OptionLower {} {}", fmt_ty(r, payload), fmt_wts(results)),
        OptionLift { payload, .. } => format!("OptionLift {}", fmt_ty(r, payload)),
        ResultLower { result, results, .. } => format!(
            "ResultLower {} {} {}",
            fmt_opt(r, result.ok.as_ref()),
            fmt_opt(r, result.err.as_ref()),
            fmt_wts(results)
        ),
        ResultLift { result, .. } => format!("ResultLift {} {}", fmt_opt(r, result.ok.as_ref()), fmt_opt(r, result.err.as_ref())),
        CallWasm { sig, .. } => format!(
            "CallWasm {} {} {} {}",
            fmt_wts(&sig.params),
            fmt_wts(&sig.results),
            b01(sig.indirect_params),
            b01(sig.retptr)
        ),
        CallInterface { func, async_ } => format!("CallInterface {} {} {}", func.params.len(), b01(func.result.is_some()), b01(*async_)),
        Return { amt, .. } => format!("Return {amt}"),
        Malloc { size, align, .. } => format!("Malloc {} {}", fmt_off(size), fmt_align(align)),
        GuestDeallocate { size, align } => format!("GuestDeallocate {} {}", fmt_off(size), fmt_align(align)),
        GuestDeallocateList { element } => format!("GuestDeallocateList {}", fmt_ty(r, element)),
        GuestDeallocateMap { key, value } => format!("GuestDeallocateMap {} {}", fmt_ty(r, key), fmt_ty(r, value)),
        GuestDeallocateVariant { blocks } => format!("GuestDeallocateVariant {blocks}"),
        DropHandle { ty } => format!("DropHandle {}", fmt_ty(r, ty)),
        AsyncTaskReturn { params, .. } => format!("AsyncTaskReturn {}", fmt_wts(params)),
        Flush { amt } => format!("Flush {amt}"),
    }
}

fn ids(v: &[usize]) -> String {
    v.iter().map(|x| x.to_string()).collect::<Vec<_>>().join(" ")
}

impl<'a> Bindgen for Rec<'a> {
    type Operand = usize;
    fn emit(&mut self, resolve: &Resolve, inst: &Instruction<'_>, operands: &mut Vec<usize>, results: &mut Vec<usize>) {
        for _ in 0..inst.results_len() {
            results.push(self.next);
            self.next += 1;
        }
        self.out.push(format!("e {} : {} -> {}", fmt_inst(resolve, inst), ids(operands), ids(results)));
    }
    fn return_pointer(&mut self, size: ArchitectureSize, align: Alignment) -> usize {
        let id = self.next;
        self.next += 1;
        self.out.push(format!("rp {} {} {}", fmt_off(&size), fmt_align(&align), id));
        id
    }
    fn push_block(&mut self) {
        self.out.push("pb".into());
    }
    fn finish_block(&mut self, operand: &mut Vec<usize>) {
        self.out.push(format!("fb {}", ids(operand)));
    }
    fn sizes(&self) -> &SizeAlign {
        &self.sizes
    }
    fn is_list_canonical(&self, resolve: &Resolve, element: &Type) -> bool {
        let _ = resolve;
        match self.canon {
            0 => false,
            _ => matches!(
                element,
                Type::U8 | Type::S8 | Type::U16 | Type::S16 | Type::U32 | Type::S32 | Type::U64 | Type::S64 | Type::F32 | Type::F64
            ),
        }
    }
}

fn panic_msg(p: Box<dyn std::any::Any + Send>) -> String {
    let s = if let Some(s) = p.downcast_ref::<String>() {
        s.clone()
    } else if let Some(s) = p.downcast_ref::<&str>() {
        s.to_string()
    } else {
        "?".into()
    };
    s.lines().next().unwrap_or("").chars().take(120).collect()
}

fn run<'a>(resolve: &'a Resolve, canon: u8, pre: usize, f: impl FnOnce(&mut Rec<'a>) -> Vec<usize> + std::panic::UnwindSafe) -> String {
    let mut sizes = SizeAlign::default();
    sizes.fill(resolve);
    let r = std::panic::catch_unwind(move || {
        let mut rec = Rec { resolve, next: pre, out: Vec::new(), sizes, canon };
        let fin = f(&mut rec);
        let _ = rec.resolve;
        rec.out.push(format!("ret {}", ids(&fin)));
        rec.out.join(" ; ")
    });
    match r {
        Ok(s) => s,
        Err(p) => format!("PANIC {}", panic_msg(p)),
    }
}

fn main() {
    std::panic::set_hook(Box::new(|_| {}));
    let stdin = io::stdin();
    let stdout = io::stdout();
    let mut out = io::BufWriter::new(stdout.lock());
    for line in stdin.lock().lines() {
        let line = line.unwrap();
        let text = line.replace('\x1f', "\n");
        let mut resolve = Resolve::default();
        resolve.all_features = true;
        let mut recs: Vec<String> = Vec::new();
        match resolve.push_str("case.wit", &text) {
            Err(e) => recs.push(format!("parse-error\x1d{}", format!("{e:#}").replace('\n', " | "))),
            Ok(_) => {
                let resolve = &resolve;
                for (_, iface) in resolve.interfaces.iter() {
                    for (_, func) in iface.functions.iter() {
                        let is_method = matches!(func.kind, FunctionKind::Method(_) | FunctionKind::AsyncMethod(_));
                        let mut tys: Vec<Type> = func.params.iter().map(|p| p.ty).collect();
                        recs.push(format!(
                            "func {}\x1d(sig (params{}) (result {}) (method {}))",
                            func.name,
                            fmt_tys(resolve, tys.iter()),
                            fmt_opt(resolve, func.result.as_ref()),
                            b01(is_method)
                        ));
                        let param_tys = tys.clone();
                        tys.extend(func.result);
                        for canon in [0u8, 1u8] {
                            for (vn, v) in [
                                ("GuestImport", AbiVariant::GuestImport),
                                ("GuestExport", AbiVariant::GuestExport),
                                ("GuestImportAsync", AbiVariant::GuestImportAsync),
                                ("GuestExportAsync", AbiVariant::GuestExportAsync),
                                ("GuestExportAsyncStackful", AbiVariant::GuestExportAsyncStackful),
                            ] {
                                for (ln, l) in [("LiftLower", LiftLower::LiftArgsLowerResults), ("LowerLift", LiftLower::LowerArgsLiftResults)] {
                                    for a in [false, true] {
                                        let d = run(resolve, canon, 0, move |rec| {
                                            abi::call(resolve, v, l, func, rec, a);
                                            vec![]
                                        });
                                        recs.push(format!("call.{vn}.{ln}.{}.{canon}\x1d{d}", b01(a)));
                                    }
                                }
                            }
                            for (k, t) in tys.iter().enumerate() {
                                let t = *t;
                                let d = run(resolve, canon, 1, move |rec| abi::lower_flat(resolve, rec, 0usize, &t));
                                recs.push(format!("lower_flat.{k}.{canon}\x1d{d}"));
                                let d = run(resolve, canon, 2, move |rec| {
                                    abi::lower_to_memory(resolve, rec, 0usize, 1usize, &t);
                                    vec![]
                                });
                                recs.push(format!("lower_to_memory.{k}.{canon}\x1d{d}"));
                                let d = run(resolve, canon, 1, move |rec| vec![abi::lift_from_memory(resolve, rec, 0usize, &t)]);
                                recs.push(format!("lift_from_memory.{k}.{canon}\x1d{d}"));
                            }
                            let d = run(resolve, canon, 0, move |rec| {
                                abi::post_return(resolve, func, rec);
                                vec![]
                            });
                            recs.push(format!("post_return.{canon}\x1d{d}"));
                            for (wn, own) in [("lists", false), ("own", true)] {
                                for indirect in [false, true] {
                                    let pt = param_tys.clone();
                                    let d = run(resolve, canon, 0, move |rec| {
                                        let n = if indirect {
                                            1
                                        } else {
                                            pt.iter().map(|t| abi::flat_types(resolve, t, None).map(|v| v.len()).unwrap_or(0)).sum()
                                        };
                                        let ops: Vec<usize> = (0..n).collect();
                                        rec.next = n;
                                        if own {
                                            abi::deallocate_lists_and_own_in_types(resolve, &pt, &ops, indirect, rec);
                                        } else {
                                            abi::deallocate_lists_in_types(resolve, &pt, &ops, indirect, rec);
                                        }
                                        vec![]
                                    });
                                    recs.push(format!("dealloc.{wn}.{}.{canon}\x1d{d}", if indirect { "indirect" } else { "direct" }));
                                }
                            }
                        }
                        recs.push(format!(
                            "facts\x1dpost_return={} params_alloc={}",
                            b01(abi::guest_export_needs_post_return(resolve, func)),
                            b01(abi::guest_export_params_have_allocations(resolve, func))
                        ));
                    }
                }
            }
        }
        writeln!(out, "{}", recs.join("\x1e")).unwrap();
    }
}
