//! Runs any wit-bindgen generator as a library on WIT text, with the generator's own clap options.
//! Shared by the checks that need real generator output (C13, C14, C15, C16, C17, C29, C30, …).
use anyhow::{anyhow, Result};
use clap::Parser;
use std::collections::BTreeMap;
use wit_bindgen_core::{Files, WorldGenerator};
use wit_parser::Resolve;

macro_rules! wrap {
    ($name:ident, $t:ty) => {
        #[derive(Debug, Parser)]
        struct $name {
            #[clap(flatten)]
            opts: $t,
        }
    };
}
wrap!(RustW, wit_bindgen_rust::Opts);
wrap!(CW, wit_bindgen_c::Opts);
wrap!(CppW, wit_bindgen_cpp::Opts);
wrap!(MdW, wit_bindgen_markdown::Opts);
wrap!(MbtW, wit_bindgen_moonbit::Opts);
wrap!(CsW, wit_bindgen_csharp::Opts);
wrap!(GoW, wit_bindgen_go::Opts);
wrap!(DW, wit_bindgen_d::Opts);

pub const LANGS: &[&str] = &["rust", "c", "cpp", "markdown", "moonbit", "csharp", "go", "d"];

/// Build a generator for `lang` from CLI-style option words (e.g. ["--async", "all"]).
pub fn build(lang: &str, args: &[String]) -> Result<Box<dyn WorldGenerator>> {
    let argv = std::iter::once("x".to_string()).chain(args.iter().cloned());
    Ok(match lang {
        "rust" => Box::new(RustW::try_parse_from(argv)?.opts.build()) as Box<dyn WorldGenerator>,
        "c" => CW::try_parse_from(argv)?.opts.build(),
        "cpp" => CppW::try_parse_from(argv)?.opts.build(None),
        "markdown" => MdW::try_parse_from(argv)?.opts.build(),
        "moonbit" => MbtW::try_parse_from(argv)?.opts.build(),
        "csharp" => CsW::try_parse_from(argv)?.opts.build(),
        "go" => GoW::try_parse_from(argv)?.opts.build(),
        "d" => DW::try_parse_from(argv)?.opts.build(None),
        _ => return Err(anyhow!("unknown language {lang}")),
    })
}

pub fn parse_wit(text: &str) -> Result<(Resolve, wit_parser::PackageId)> {
    let mut resolve = Resolve::default();
    resolve.all_features = true;
    let pkg = resolve.push_str("case.wit", text)?;
    Ok((resolve, pkg))
}

pub enum Outcome {
    Files(BTreeMap<String, Vec<u8>>),
    Error(String),
    Panic(String),
}

/// Generate bindings for `world` (None = the only world) of the WIT text.
pub fn generate(lang: &str, args: &[String], wit: &str, world: Option<&str>) -> Outcome {
    let lang = lang.to_string();
    let args = args.to_vec();
    let wit = wit.to_string();
    let world = world.map(|s| s.to_string());
    let r = std::panic::catch_unwind(move || -> Result<BTreeMap<String, Vec<u8>>> {
        let (mut resolve, pkg) = parse_wit(&wit)?;
        let w = resolve.select_world(&[pkg], world.as_deref())?;
        let mut generator = build(&lang, &args)?;
        let mut files = Files::default();
        generator.generate(&mut resolve, w, &mut files)?;
        Ok(files.iter().map(|(n, c)| (n.to_string(), c.to_vec())).collect())
    });
    match r {
        Ok(Ok(f)) => Outcome::Files(f),
        Ok(Err(e)) => Outcome::Error(format!("{e:#}")),
        Err(p) => {
            let msg = if let Some(s) = p.downcast_ref::<String>() {
                s.clone()
            } else if let Some(s) = p.downcast_ref::<&str>() {
                s.to_string()
            } else {
                "non-string panic".to_string()
            };
            Outcome::Panic(msg)
        }
    }
}
