//! Line protocol.  Input line:  <lang> \x1e <opt words separated by spaces> \x1e <world or empty> \x1e <WIT text, newlines as \x1f>
//! Output line: `ok` then per file  \x1e<name>\x1d<content, '\n' as \x1f, '\r' as \x1c, binary files as \x02HEX<hex>>
//!          or  `err <message on one line>`  or  `panic <message on one line>`
use std::io::{self, BufRead, Write};

fn one_line(s: &str) -> String {
    s.replace('\n', " | ").replace('\r', "")
}

fn main() {
    std::panic::set_hook(Box::new(|_| {}));
    let stdin = io::stdin();
    let stdout = io::stdout();
    let mut out = io::BufWriter::new(stdout.lock());
    for line in stdin.lock().lines() {
        let line = line.unwrap();
        let parts: Vec<&str> = line.splitn(4, '\x1e').collect();
        if parts.len() != 4 {
            writeln!(out, "err bad protocol line").unwrap();
            continue;
        }
        let args: Vec<String> = parts[1].split(' ').filter(|s| !s.is_empty()).map(|s| s.to_string()).collect();
        let world = if parts[2].is_empty() { None } else { Some(parts[2]) };
        let wit = parts[3].replace('\x1f', "\n");
        match genlib::generate(parts[0].trim(), &args, &wit, world) {
            genlib::Outcome::Files(fs) => {
                let mut s = String::from("ok");
                for (n, c) in fs {
                    s.push('\x1e');
                    s.push_str(&n);
                    s.push('\x1d');
                    match std::str::from_utf8(&c) {
                        Ok(t) if !t.chars().any(|ch| matches!(ch, '\x1c'..='\x1f' | '\x02')) => {
                            s.push_str(&t.replace('\n', "\x1f").replace('\r', "\x1c"))
                        }
                        _ => {
                            // binary file (e.g. the C component-type object): hex with a marker
                            s.push_str("\x02HEX");
                            for b in &c {
                                s.push_str(&format!("{b:02x}"));
                            }
                        }
                    }
                }
                writeln!(out, "{s}").unwrap();
            }
            genlib::Outcome::Error(e) => writeln!(out, "err {}", one_line(&e)).unwrap(),
            genlib::Outcome::Panic(e) => writeln!(out, "panic {}", one_line(&e)).unwrap(),
        }
    }
}
