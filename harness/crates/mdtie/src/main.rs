//! Line-protocol drivers for C29.   Usage: mdtie events | render | worldsrc
//!
//! events:   in  `<hrefs: k\x1dv\x1c k\x1dv ...>\x1e<markdown, newlines as \x1f>`
//!           out `<abstract events: S<hex dst> | E | C<hex code> | O, space separated>\x1e<kind of each Start(Link): inline|autolink|reference>\x1e<html of the REAL finish loop>`
//!           (the real `Markdown::finish` is run with `src` := markdown and `hrefs` := the map)
//! render:   in  `<plan: K | W<hex dst>, one per event>\x1e<markdown>`
//!           out html of pulldown's push_html over the events with the planned wrappers inserted
//! worldsrc: in  `<world or empty>\x1e<WIT, newlines as \x1f>`
//!           out `ok\x1e<hrefs as above>\x1e<markdown source after a REAL generation>\x1e<html>`  | `err ...`
#![allow(dead_code, unused_imports, unexpected_cfgs)]
use std::io::{self, BufRead, Write as _};

mod real {
    include!("/repo/crates/markdown/src/lib.rs");

    fn trivial() -> (Resolve, WorldId) {
        let mut resolve = Resolve::default();
        let pkg = resolve.push_str("t.wit", "package a:b;\nworld w {}\n").unwrap();
        let w = resolve.select_world(&[pkg], None).unwrap();
        (resolve, w)
    }

    /// the REAL finish loop on arbitrary source text and hrefs
    pub fn finish_on(md: &str, hrefs: Vec<(String, String)>) -> String {
        let (resolve, w) = trivial();
        let mut m = Markdown::default();
        *m.src.as_mut_string() = md.to_string();
        m.hrefs = hrefs.into_iter().collect();
        let mut files = Files::default();
        WorldGenerator::finish(&mut m, &resolve, w, &mut files).unwrap();
        let html = files.iter().find(|(n, _)| n.ends_with(".html")).unwrap().1.to_vec();
        String::from_utf8(html).unwrap()
    }

    /// a REAL generation; returns (hrefs sorted, markdown source, html)
    pub fn world_src(wit: &str, world: Option<&str>) -> anyhow::Result<(Vec<(String, String)>, String, String)> {
        let mut resolve = Resolve::default();
        resolve.all_features = true;
        let pkg = resolve.push_str("case.wit", wit)?;
        let w = resolve.select_world(&[pkg], world)?;
        let mut m = Markdown::default();
        let mut files = Files::default();
        WorldGenerator::generate(&mut m, &mut resolve, w, &mut files)?;
        let mut h: Vec<(String, String)> = m.hrefs.iter().map(|(k, v)| (k.clone(), v.clone())).collect();
        h.sort();
        let html = files.iter().find(|(n, _)| n.ends_with(".html")).unwrap().1.to_vec();
        Ok((h, m.src.as_str().to_string(), String::from_utf8(html)?))
    }
}

use pulldown_cmark::{html, Event, LinkType, Parser, Tag, TagEnd};

fn hex(s: &str) -> String {
    s.bytes().map(|b| format!("{b:02x}")).collect()
}
fn unhex(s: &str) -> String {
    let b: Vec<u8> = (0..s.len() / 2).map(|i| u8::from_str_radix(&s[2 * i..2 * i + 2], 16).unwrap()).collect();
    String::from_utf8(b).unwrap()
}
fn enc(s: &str) -> String {
    s.replace('\n', "\x1f").replace('\r', "\x1c")
}
fn dec(s: &str) -> String {
    s.replace('\x1f', "\n")
}
fn parse_hrefs(s: &str) -> Vec<(String, String)> {
    s.split('\x1c')
        .filter(|e| !e.is_empty())
        .map(|e| {
            let (k, v) = e.split_once('\x1d').unwrap();
            (k.to_string(), v.to_string())
        })
        .collect()
}
fn show_hrefs(h: &[(String, String)]) -> String {
    h.iter().map(|(k, v)| format!("{k}\x1d{v}")).collect::<Vec<_>>().join("\x1c")
}

fn events(line: &str) -> String {
    let (h, md) = line.split_once('\x1e').unwrap();
    let md = dec(md);
    let mut toks = Vec::new();
    let mut kinds = Vec::new();
    for ev in Parser::new(&md) {
        if let Event::Start(Tag::Link { link_type, .. }) = &ev {
            kinds.push(match link_type {
                LinkType::Inline => "inline",
                LinkType::Autolink | LinkType::Email => "autolink",
                _ => "reference", // Reference, Collapsed, Shortcut and their *Unknown variants
            });
        }
        toks.push(match &ev {
            Event::Start(Tag::Link { dest_url, .. }) => format!("S{}", hex(dest_url)),
            Event::End(TagEnd::Link) => "E".to_string(),
            Event::Code(c) => format!("C{}", hex(c)),
            _ => "O".to_string(),
        });
    }
    let html = real::finish_on(&md, parse_hrefs(h));
    format!("{}\x1e{}\x1e{}", toks.join(" "), kinds.join(" "), enc(&html))
}

fn render(line: &str) -> String {
    let (plan, md) = line.split_once('\x1e').unwrap();
    let md = dec(md);
    let plan: Vec<&str> = plan.split(' ').filter(|s| !s.is_empty()).collect();
    let evs: Vec<Event> = Parser::new(&md).collect();
    if plan.len() != evs.len() {
        return format!("PLAN-LENGTH {} {}", plan.len(), evs.len());
    }
    let mut out = Vec::new();
    for (p, ev) in plan.iter().zip(evs.into_iter()) {
        if let Some(d) = p.strip_prefix('W') {
            let tag = Tag::Link { link_type: LinkType::Inline, dest_url: unhex(d).into(), title: "".into(), id: "".into() };
            out.push(Event::Start(tag.clone()));
            out.push(ev);
            out.push(Event::End(tag.into()));
        } else {
            out.push(ev);
        }
    }
    let mut s = String::new();
    html::push_html(&mut s, out.into_iter());
    enc(&s)
}

fn worldsrc(line: &str) -> String {
    let (world, wit) = line.split_once('\x1e').unwrap_or(("", line));
    match real::world_src(&dec(wit), if world.is_empty() { None } else { Some(world) }) {
        Ok((h, md, html)) => format!("ok\x1e{}\x1e{}\x1e{}", show_hrefs(&h), enc(&md), enc(&html)),
        Err(e) => format!("err {}", format!("{e:#}").replace('\n', " | ")),
    }
}

fn main() {
    std::panic::set_hook(Box::new(|_| {}));
    let engine = std::env::args().nth(1).expect("engine");
    let f: fn(&str) -> String = match engine.as_str() {
        "events" => events,
        "render" => render,
        "worldsrc" => worldsrc,
        other => panic!("unknown engine {other}"),
    };
    let stdin = io::stdin();
    let stdout = io::stdout();
    let mut out = io::BufWriter::new(stdout.lock());
    for line in stdin.lock().lines() {
        let line = line.unwrap();
        let r = std::panic::catch_unwind(|| f(&line)).unwrap_or_else(|p| {
            let msg = p.downcast_ref::<String>().cloned().or_else(|| p.downcast_ref::<&str>().map(|s| s.to_string())).unwrap_or_default();
            format!("PANIC {}", msg.replace('\n', " | "))
        });
        writeln!(out, "{r}").unwrap();
    }
}
