//! Re-export of the real `toml` crate with one change: `from_str` records its argument (thread-local)
//! before delegating.  An explicit item shadows the glob re-export, so `toml::from_str` resolves here
//! and everything else (`toml::Value`, `toml::de::…`) to the real crate.
pub use real_toml::*;
use std::cell::RefCell;

thread_local! {
    static SEEN: RefCell<Vec<String>> = RefCell::new(Vec::new());
}

/// Texts handed to `from_str` on this thread since the last call (drained).
pub fn shim_take_seen() -> Vec<String> {
    SEEN.with(|s| std::mem::take(&mut *s.borrow_mut()))
}

pub fn from_str<T>(s: &str) -> Result<T, real_toml::de::Error>
where
    T: serde::de::DeserializeOwned,
{
    SEEN.with(|v| v.borrow_mut().push(s.to_string()));
    real_toml::from_str(s)
}

/// The real parser, not recorded (used by the harness to parse the MODEL's text).
pub fn shim_real_from_str<T>(s: &str) -> Result<T, real_toml::de::Error>
where
    T: serde::de::DeserializeOwned,
{
    real_toml::from_str(s)
}
