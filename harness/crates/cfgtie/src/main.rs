//! C34 tie harness: drives the REAL `parse_test_config` / `StringList` of wit-bindgen-test
//! (crates/test/src/config.rs of the working tree, compiled here via #[path]) over a line protocol.
//!
//! Encoding: a string is `-` (empty) or its code points in hex joined by `.`; a list of strings is
//! `~` (empty) or the strings joined by `,`.
//! Usage: cfgtie <engine>; engines:
//!   text   `<marker> <contents>`  -> `seen=<n>:<text> val=<canon>`  (text handed to toml::from_str, parsed value)
//!   val    `<text>`               -> `<canon>`                      (the real toml parser on a given text)
//!   args   `<marker> <contents>`  -> `args=<list> wf=<list>` | `err`
//!   wit    `<marker> <contents>`  -> `deps=<list> runner=<str>` | `err`
//!   direct `s <str>` | `l <list>` -> `<list>`                       (Vec::<String>::from(StringList))
//!   wsset  (any line)             -> code points c with "a{c}b" split in two by StringList::String
use std::io::{self, BufRead, Write};

#[allow(dead_code)]
#[path = "/repo/crates/test/src/config.rs"]
mod config;

fn dec(s: &str) -> String {
    if s == "-" {
        return String::new();
    }
    s.split('.')
        .map(|h| char::from_u32(u32::from_str_radix(h, 16).expect("hex")).expect("scalar value"))
        .collect()
}
fn enc(s: &str) -> String {
    if s.is_empty() {
        return "-".to_string();
    }
    s.chars().map(|c| format!("{:x}", c as u32)).collect::<Vec<_>>().join(".")
}
fn dec_list(s: &str) -> Vec<String> {
    if s == "~" {
        return Vec::new();
    }
    s.split(',').map(dec).collect()
}
fn enc_list(l: &[String]) -> String {
    if l.is_empty() {
        return "~".to_string();
    }
    l.iter().map(|s| enc(s)).collect::<Vec<_>>().join(",")
}

fn canon(r: Result<toml::Value, String>) -> String {
    match r {
        Ok(v) => format!("ok:{}", enc(&format!("{v:?}"))),
        Err(e) => format!("err:{}", enc(&e)),
    }
}

fn two(line: &str) -> (String, String) {
    let (a, b) = line.split_once(' ').expect("two fields");
    (dec(a), dec(b))
}

fn text_case(line: &str) -> String {
    let (marker, contents) = two(line);
    let _ = toml::shim_take_seen();
    let r = config::parse_test_config::<toml::Value>(&contents, &marker);
    let seen = toml::shim_take_seen();
    let text = match seen.len() {
        1 => enc(&seen[0]),
        _ => "?".to_string(),
    };
    format!(
        "seen={}:{} val={}",
        seen.len(),
        text,
        canon(r.map_err(|e| e.root_cause().to_string()))
    )
}

fn val_case(line: &str) -> String {
    let text = dec(line);
    canon(toml::shim_real_from_str::<toml::Value>(&text).map_err(|e| e.to_string()))
}

fn args_case(line: &str) -> String {
    let (marker, contents) = two(line);
    match config::parse_test_config::<config::RuntimeTestConfig>(&contents, &marker) {
        Ok(c) => {
            let a: Vec<String> = c.args.into();
            let w: Vec<String> = c.wasmtime_flags.into();
            format!("args={} wf={}", enc_list(&a), enc_list(&w))
        }
        Err(_) => "err".to_string(),
    }
}

fn wit_case(line: &str) -> String {
    let (marker, contents) = two(line);
    match config::parse_test_config::<config::WitConfig>(&contents, &marker) {
        Ok(c) => format!("deps={} runner={}", enc_list(&c.dependency_worlds()), enc(c.runner_world())),
        Err(_) => "err".to_string(),
    }
}

fn direct_case(line: &str) -> String {
    let (k, v) = line.split_once(' ').expect("two fields");
    let sl = match k {
        "s" => config::StringList::String(dec(v)),
        "l" => config::StringList::List(dec_list(v)),
        _ => panic!("bad kind"),
    };
    let v: Vec<String> = sl.into();
    enc_list(&v)
}

fn wsset_case(_line: &str) -> String {
    let mut out = Vec::new();
    for u in 0..=0x10FFFFu32 {
        if let Some(c) = char::from_u32(u) {
            let v: Vec<String> = config::StringList::String(format!("a{c}b")).into();
            if v.len() != 1 {
                out.push(format!("{u:x}"));
            }
        }
    }
    out.join(".")
}

fn main() {
    let engine = std::env::args().nth(1).expect("engine");
    let f: fn(&str) -> String = match engine.as_str() {
        "text" => text_case,
        "val" => val_case,
        "args" => args_case,
        "wit" => wit_case,
        "direct" => direct_case,
        "wsset" => wsset_case,
        other => panic!("unknown engine {other}"),
    };
    let stdin = io::stdin();
    let stdout = io::stdout();
    let mut out = io::BufWriter::new(stdout.lock());
    std::panic::set_hook(Box::new(|_| {}));
    for line in stdin.lock().lines() {
        let line = line.unwrap();
        let r = std::panic::catch_unwind(|| f(&line)).unwrap_or_else(|_| "PANIC".to_string());
        writeln!(out, "{r}").unwrap();
    }
}
