//! Line-protocol drivers for C30.   Usage: mbtpkg qualify | mbtpkg worldinfo
//!
//! qualify:   input  `this|name this|name ...`  (one history of PkgResolver::qualify_package calls on a
//!            fresh resolver; names over [a-z0-9.-], possibly empty)
//!            output `<answer> <answer> ... # this:name=alias,name=alias this:...`
//!            (empty answer printed as `_`; the final package_import map sorted by key)
//! worldinfo: input  `<world or empty>\x1e<WIT text, newlines as \x1f>`
//!            output `ok <world> <ns:pkg of the world> {I|E}:iface:<ns>:<pkg>:<version or ->:<iface> |
//!                    {I|E}:inline:<name> | {I|E}:func:<name> | I:type:<name> ...`   or `err <msg>`
#![allow(dead_code, unused_imports)]
use std::io::{self, BufRead, Write};

#[path = "/repo/crates/moonbit/src/pkg.rs"]
mod pkg;

fn qualify(line: &str) -> String {
    let mut r = pkg::PkgResolver::default();
    let mut outs = Vec::new();
    for tok in line.split(' ').filter(|s| !s.is_empty()) {
        let (this, name) = tok.split_once('|').expect("this|name");
        let a = r.qualify_package(this, name);
        outs.push(if a.is_empty() { "_".to_string() } else { a });
    }
    let mut keys: Vec<&String> = r.package_import.keys().collect();
    keys.sort();
    let mut dump = Vec::new();
    for k in keys {
        let mut es: Vec<String> = r.package_import[k]
            .packages
            .iter()
            .map(|(n, a)| format!("{n}={a}"))
            .collect();
        es.sort();
        dump.push(format!("{k}:{}", es.join(",")));
    }
    format!("{} # {}", outs.join(" "), dump.join(" "))
}

fn worldinfo(line: &str) -> String {
    use wit_parser::{Resolve, WorldItem, WorldKey};
    let (world, wit) = line.split_once('\x1e').unwrap_or(("", line));
    let wit = wit.replace('\x1f', "\n");
    let run = || -> anyhow::Result<String> {
        let mut resolve = Resolve::default();
        resolve.all_features = true;
        let pkg = resolve.push_str("case.wit", &wit)?;
        let w = resolve.select_world(&[pkg], if world.is_empty() { None } else { Some(world) })?;
        let wd = &resolve.worlds[w];
        let wp = wd
            .package
            .map(|p| {
                let n = &resolve.packages[p].name;
                format!("{}:{}", n.namespace, n.name)
            })
            .unwrap_or("-".into());
        let mut out = format!("ok {} {}", wd.name, wp);
        for (tag, items) in [("I", &wd.imports), ("E", &wd.exports)] {
            for (key, item) in items.iter() {
                match (key, item) {
                    (WorldKey::Interface(id), _) => {
                        let i = &resolve.interfaces[*id];
                        let p = &resolve.packages[i.package.unwrap()].name;
                        out.push_str(&format!(
                            " {tag}:iface:{}:{}:{}:{}",
                            p.namespace,
                            p.name,
                            p.version.as_ref().map(|v| v.to_string()).unwrap_or("-".into()),
                            i.name.as_ref().unwrap()
                        ));
                    }
                    (WorldKey::Name(n), WorldItem::Interface { .. }) => out.push_str(&format!(" {tag}:inline:{n}")),
                    (WorldKey::Name(n), WorldItem::Function(_)) => out.push_str(&format!(" {tag}:func:{n}")),
                    (WorldKey::Name(n), WorldItem::Type { .. }) => out.push_str(&format!(" {tag}:type:{n}")),
                }
            }
        }
        Ok(out)
    };
    match run() {
        Ok(s) => s,
        Err(e) => format!("err {}", format!("{e:#}").replace('\n', " | ")),
    }
}

fn main() {
    std::panic::set_hook(Box::new(|_| {}));
    let engine = std::env::args().nth(1).expect("engine");
    let f: fn(&str) -> String = match engine.as_str() {
        "qualify" => qualify,
        "worldinfo" => worldinfo,
        other => panic!("unknown engine {other}"),
    };
    let stdin = io::stdin();
    let stdout = io::stdout();
    let mut out = io::BufWriter::new(stdout.lock());
    for line in stdin.lock().lines() {
        let line = line.unwrap();
        let r = std::panic::catch_unwind(|| f(&line)).unwrap_or_else(|_| "PANIC".to_string());
        writeln!(out, "{r}").unwrap();
    }
}
