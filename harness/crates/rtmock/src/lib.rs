//! rtmock — a deterministic, scriptable, *native* mock of the component-model async host, linked
//! against wit-bindgen's Rust guest runtime through hook H1 (`--cfg bytecodealliance_wit_bindgen_verif`).
//! See README.md.  `host` = the mock host (state, intrinsics, log); `drive` = utilities shared by the
//! per-property drivers in `src/bin/*` (mock C-ABI tasks, wakers, line protocol); `alloc` = a global
//! allocator that reports allocations/frees of a watched size into the host log.
pub mod alloc;
pub mod drive;
pub mod host;
