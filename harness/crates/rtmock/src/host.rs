//! The mock component-model async host.
//!
//! One host per thread (`thread_local`), reset by `reset()` at the start of every scenario.  The
//! semantics is a transcription of the Component Model's `CanonicalABI.md`/`definitions.py` restricted
//! to what the Rust guest runtime can observe; `coq/theories/Async/Host.v` is the Coq transcription
//! of the same text.  Principles:
//!
//! * **Every host call is logged** (one token without spaces per call, see `README.md`), in call order.
//! * **The host's choices are inputs.**  What an intrinsic answers comes from the `answers` queue
//!   (`push_answer`), which ready event a `waitable-set.wait/poll` returns comes from the `picks`
//!   queue (`push_pick`); host-side progress is made by explicit driver calls (`set_event`,
//!   `peer_*`).  Only when a queue is empty does the mock fall back to the deterministic default
//!   documented at each intrinsic (lowest ready waitable; rendezvous computed from the state).
//! * **Guest protocol violations the CM would trap on are recorded, not raised**: a `TRAP:<rule>`
//!   token is appended to the log and the intrinsic returns a benign value (a panic inside an
//!   `extern "C"` function would abort the process).
//!
//! Handles live in one table (sets, subtasks, stream/future ends) with the CM's LIFO free list, so
//! that a dropped index is reused by the next allocation — stale registrations become visible.
use std::cell::RefCell;
use std::collections::{BTreeMap, VecDeque};
use std::ffi::c_void;

pub const EVENT_NONE: u32 = 0;
pub const EVENT_SUBTASK: u32 = 1;
pub const EVENT_STREAM_READ: u32 = 2;
pub const EVENT_STREAM_WRITE: u32 = 3;
pub const EVENT_FUTURE_READ: u32 = 4;
pub const EVENT_FUTURE_WRITE: u32 = 5;
pub const EVENT_CANCEL: u32 = 6;

pub const STATUS_STARTING: u32 = 0;
pub const STATUS_STARTED: u32 = 1;
pub const STATUS_RETURNED: u32 = 2;
pub const STATUS_STARTED_CANCELLED: u32 = 3;
pub const STATUS_RETURNED_CANCELLED: u32 = 4;

pub const BLOCKED: u32 = 0xffff_ffff;
pub const COMPLETED: u32 = 0;
pub const DROPPED: u32 = 1;
pub const CANCELLED: u32 = 2;

/// `code | n << 4`
pub fn rc(code: u32, n: u32) -> u32 {
    code | (n << 4)
}

#[derive(Clone, Debug, PartialEq)]
pub struct SubtaskSt {
    /// last status reported to the guest (by the call, an event, or `subtask.cancel`)
    pub status: u32,
    /// a resolving status (RETURNED / *_CANCELLED) has been handed to the guest
    pub resolve_delivered: bool,
    pub cancel_requested: bool,
}

#[derive(Clone, Debug, PartialEq)]
pub struct End {
    pub chan: usize,
    pub writer: bool,
    pub future: bool,
    /// `Some((ptr, len))` while a read/write issued by the guest is outstanding (state COPYING)
    pub copying: Option<(usize, usize)>,
    /// a future end that has completed its single transfer (CM state DONE)
    pub done: bool,
}

/// One stream/future shared by two ends.  An end is either in the guest's table or owned by the
/// scripted *peer* (after `peer_take`).
#[derive(Clone, Debug, Default)]
pub struct Chan {
    pub future: bool,
    pub elem_size: usize,
    /// guest handle of the end, `None` once dropped or taken by the peer
    pub r_handle: Option<u32>,
    pub w_handle: Option<u32>,
    pub r_dropped: bool,
    pub w_dropped: bool,
    /// peer-side pending read: remaining capacity (items)
    pub peer_read: Option<usize>,
    /// peer-side pending write: items not yet taken (bytes, `elem_size` each)
    pub peer_write: Option<Vec<u8>>,
    /// everything the peer has received, in order
    pub peer_received: Vec<u8>,
    /// number of items moved writer -> reader so far
    pub transferred: usize,
}

#[derive(Clone, Debug, PartialEq)]
pub enum Entry {
    Set,
    Subtask(SubtaskSt),
    End(End),
    ErrCtx,
}

pub struct Host {
    pub log: Vec<String>,
    pub ntraps: usize,
    pub table: BTreeMap<u32, Entry>,
    pub free: Vec<u32>,
    pub next: u32,
    /// waitable -> set
    pub joined: BTreeMap<u32, u32>,
    /// waitable -> pending event (kind, code)
    pub ready: BTreeMap<u32, (u32, u32)>,
    pub chans: Vec<Chan>,
    pub answers: VecDeque<u32>,
    pub picks: VecDeque<u32>,
    /// context slot 0 of every component task the driver plays (`set_current_task`)
    pub ctx: BTreeMap<u32, usize>,
    pub cur_task: u32,
    /// storage behind `wasip3_task_set`
    pub task_ptr: usize,
    pub backpressure: i64,
    pub task_cancels: u32,
    pub log_ctx: bool,
    pub log_task_set: bool,
}

impl Default for Host {
    fn default() -> Host {
        Host {
            log: Vec::new(), ntraps: 0, table: BTreeMap::new(), free: Vec::new(), next: 1,
            joined: BTreeMap::new(), ready: BTreeMap::new(), chans: Vec::new(),
            answers: VecDeque::new(), picks: VecDeque::new(), ctx: BTreeMap::new(), cur_task: 0,
            task_ptr: 0, backpressure: 0, task_cancels: 0, log_ctx: false, log_task_set: false,
        }
    }
}

thread_local! {
    static HOST: RefCell<Host> = RefCell::new(Host::default());
    static ON_BLOCK: RefCell<Option<Box<dyn FnMut() -> bool>>> = RefCell::new(None);
}

/// Run `f` with the host borrowed.  Never call an intrinsic or runtime function from inside `f`.
pub fn with<R>(f: impl FnOnce(&mut Host) -> R) -> R {
    HOST.with(|h| f(&mut h.borrow_mut()))
}

/// Fresh host (and no `on_block` hook).
pub fn reset() {
    with(|h| *h = Host::default());
    ON_BLOCK.with(|b| *b.borrow_mut() = None);
    crate::alloc::LOGLEN.store(0, std::sync::atomic::Ordering::SeqCst);
}

/// Hook called by `waitable-set.wait` when no event is ready: lets a driver advance its script
/// (make events ready).  Return `false` for "nothing more will happen" (=> `TRAP:deadlock`).
pub fn on_block(f: impl FnMut() -> bool + 'static) {
    ON_BLOCK.with(|b| *b.borrow_mut() = Some(Box::new(f)));
}

/// Append a token to the host log (drivers log their own observations through this too, so that
/// everything is in one total order).
pub fn log(s: impl Into<String>) {
    with(|h| h.log(s.into()));
}
pub fn push_answer(v: u32) {
    with(|h| h.answers.push_back(v));
}
pub fn push_pick(w: u32) {
    with(|h| h.picks.push_back(w));
}
pub fn take_log() -> Vec<String> {
    with(|h| std::mem::take(&mut h.log))
}

/// The log with the watched-allocation events of `alloc::WatchAlloc` merged in at the positions
/// where they happened (`area+<n>` / `area-<n>` / `area-?`).
pub fn take_log_with_allocs() -> Vec<String> {
    let evs = crate::alloc::take_events();
    let log = take_log();
    let mut out = Vec::new();
    let mut live: Vec<(usize, usize)> = Vec::new(); // (addr, n)
    let mut n = 0;
    let mut ei = 0;
    for pos in 0..=log.len() {
        while ei < evs.len() && evs[ei].1 <= pos {
            let (kind, _, addr) = evs[ei];
            if kind == 1 {
                n += 1;
                live.push((addr, n));
                out.push(format!("area+{n}"));
            } else if let Some(i) = live.iter().position(|x| x.0 == addr) {
                out.push(format!("area-{}", live[i].1));
                live.remove(i);
            } else {
                out.push("area-?".to_string());
            }
            ei += 1;
        }
        if pos < log.len() {
            out.push(log[pos].clone());
        }
    }
    out
}

impl Host {
    pub fn log(&mut self, s: String) {
        self.log.push(s);
        crate::alloc::LOGLEN.store(self.log.len(), std::sync::atomic::Ordering::SeqCst);
    }
    pub fn trap(&mut self, what: &str) {
        self.ntraps += 1;
        self.log(format!("TRAP:{what}"));
    }
    /// CM `Table.add`: reuse the most recently freed index, else the next fresh one (from 1).
    pub fn alloc(&mut self, e: Entry) -> u32 {
        let i = match self.free.pop() {
            Some(i) => i,
            None => {
                let i = self.next;
                self.next += 1;
                i
            }
        };
        self.table.insert(i, e);
        i
    }
    pub fn release(&mut self, i: u32) {
        self.table.remove(&i);
        self.free.push(i);
    }
    pub fn is_waitable(&self, w: u32) -> bool {
        matches!(self.table.get(&w), Some(Entry::Subtask(_)) | Some(Entry::End(_)))
    }
    pub fn end_mut(&mut self, h: u32) -> Option<&mut End> {
        match self.table.get_mut(&h) {
            Some(Entry::End(e)) => Some(e),
            _ => None,
        }
    }
    /// The guest has been handed the pending event of `w` (by wait/poll or by a cancel intrinsic).
    fn consume_event(&mut self, w: u32) -> Option<(u32, u32)> {
        let (kind, code) = self.ready.remove(&w)?;
        match self.table.get_mut(&w) {
            Some(Entry::Subtask(st)) => {
                st.status = code;
                if code >= STATUS_RETURNED {
                    st.resolve_delivered = true;
                }
            }
            Some(Entry::End(e)) => {
                if code != BLOCKED {
                    e.copying = None;
                    if e.future && (code & 0xf) == COMPLETED {
                        e.done = true;
                    }
                }
            }
            _ => {}
        }
        Some((kind, code))
    }
    fn event_kind_of(&self, w: u32) -> u32 {
        match self.table.get(&w) {
            Some(Entry::Subtask(_)) => EVENT_SUBTASK,
            Some(Entry::End(e)) => match (e.future, e.writer) {
                (false, false) => EVENT_STREAM_READ,
                (false, true) => EVENT_STREAM_WRITE,
                (true, false) => EVENT_FUTURE_READ,
                (true, true) => EVENT_FUTURE_WRITE,
            },
            _ => EVENT_NONE,
        }
    }
    /// Which ready waitable of `set` is reported: the scripted pick if it is ready in this set,
    /// otherwise the lowest-numbered ready member.
    fn choose_ready(&mut self, set: u32) -> Option<u32> {
        let cands: Vec<u32> = self.ready.keys().copied().filter(|w| self.joined.get(w) == Some(&set)).collect();
        if cands.is_empty() {
            return None;
        }
        if let Some(&p) = self.picks.front() {
            if cands.contains(&p) {
                self.picks.pop_front();
                return Some(p);
            }
        }
        Some(cands[0])
    }
}

// ------------------------------------------------------------------------------------------------
// Driver-side API (host-side progress; never logged as host *calls*, they are inputs)
// ------------------------------------------------------------------------------------------------

/// Host makes an event ready on waitable `w` with payload `code` (kind derived from the entry).
/// Overwrites an undelivered event of the same waitable (the CM coalesces per waitable).
pub fn set_event(w: u32, code: u32) {
    with(|h| {
        let kind = h.event_kind_of(w);
        h.ready.insert(w, (kind, code));
    })
}

/// Create a subtask in `status` (STARTING/STARTED) and return what an `[async-lower]` import
/// returns: `status | handle << 4`.  For an immediately-returned call use plain `STATUS_RETURNED`
/// (no handle is created by the CM in that case); `subtask_new(STATUS_RETURNED)` creates one anyway
/// (the runtime tolerates it) with `resolve_delivered` set.
pub fn subtask_new(status: u32) -> u32 {
    with(|h| {
        let st = SubtaskSt { status, resolve_delivered: status >= STATUS_RETURNED, cancel_requested: false };
        let i = h.alloc(Entry::Subtask(st));
        status | (i << 4)
    })
}

/// The scripted peer takes over a guest end (as if the handle had been passed to another
/// component): the handle leaves the guest's table.
pub fn peer_take(handle: u32) {
    with(|h| {
        if let Some(Entry::End(e)) = h.table.get(&handle).cloned() {
            let c = &mut h.chans[e.chan];
            if e.writer { c.w_handle = None } else { c.r_handle = None }
            h.joined.remove(&handle);
            h.ready.remove(&handle);
            h.release(handle);
        }
    })
}

/// Peer reads up to `cap` items from channel `chan`.  If a guest write is outstanding the
/// rendezvous happens now (`k = min`), the writer's end gets a `COMPLETED(k)` event; else the read
/// stays pending until the guest writes.
pub fn peer_read(chan: usize, cap: usize) {
    with(|h| {
        let (wh, es) = (h.chans[chan].w_handle, h.chans[chan].elem_size);
        let pend = wh.and_then(|w| h.end_mut(w).and_then(|e| e.copying.map(|c| (w, c))));
        match pend {
            Some((w, (ptr, len))) if !h.ready.contains_key(&w) => {
                let k = len.min(cap);
                let bytes = unsafe { std::slice::from_raw_parts(ptr as *const u8, if ptr == 0 { 0 } else { k * es }) }.to_vec();
                h.chans[chan].peer_received.extend(bytes);
                h.chans[chan].transferred += k;
                let kind = h.event_kind_of(w);
                h.ready.insert(w, (kind, rc(COMPLETED, if h.chans[chan].future { 0 } else { k as u32 })));
            }
            _ => h.chans[chan].peer_read = Some(cap),
        }
    })
}

/// Peer writes `items` (bytes, `elem_size` each) into channel `chan`; dual of `peer_read`.
pub fn peer_write(chan: usize, items: Vec<u8>) {
    with(|h| {
        let (rh, es) = (h.chans[chan].r_handle, h.chans[chan].elem_size.max(1));
        let n = if h.chans[chan].elem_size == 0 { items.len() } else { items.len() / es };
        let pend = rh.and_then(|r| h.end_mut(r).and_then(|e| e.copying.map(|c| (r, c))));
        match pend {
            Some((r, (ptr, cap))) if !h.ready.contains_key(&r) => {
                let k = cap.min(n);
                if ptr != 0 && h.chans[chan].elem_size > 0 {
                    unsafe { std::ptr::copy_nonoverlapping(items.as_ptr(), ptr as *mut u8, k * es) };
                }
                h.chans[chan].transferred += k;
                let rest = items[(k * es).min(items.len())..].to_vec();
                if k < n {
                    h.chans[chan].peer_write = Some(rest);
                }
                let kind = h.event_kind_of(r);
                h.ready.insert(r, (kind, rc(COMPLETED, if h.chans[chan].future { 0 } else { k as u32 })));
            }
            _ => h.chans[chan].peer_write = Some(items),
        }
    })
}

/// Peer drops its readable end: an outstanding guest write completes with `DROPPED(0)`.
pub fn peer_drop_reader(chan: usize) {
    with(|h| {
        h.chans[chan].r_dropped = true;
        h.chans[chan].peer_read = None;
        if let Some(w) = h.chans[chan].w_handle {
            if h.end_mut(w).map(|e| e.copying.is_some()).unwrap_or(false) && !h.ready.contains_key(&w) {
                let kind = h.event_kind_of(w);
                h.ready.insert(w, (kind, rc(DROPPED, 0)));
            }
        }
    })
}

/// Peer drops its writable end: an outstanding guest read completes with `DROPPED(0)`.
pub fn peer_drop_writer(chan: usize) {
    with(|h| {
        h.chans[chan].w_dropped = true;
        h.chans[chan].peer_write = None;
        if let Some(r) = h.chans[chan].r_handle {
            if h.end_mut(r).map(|e| e.copying.is_some()).unwrap_or(false) && !h.ready.contains_key(&r) {
                let kind = h.event_kind_of(r);
                h.ready.insert(r, (kind, rc(DROPPED, 0)));
            }
        }
    })
}

/// Channel index of a guest stream/future end.
pub fn chan_of(handle: u32) -> Option<usize> {
    with(|h| h.end_mut(handle).map(|e| e.chan))
}

/// The driver plays component task `id` from now on (selects the context slot).
pub fn set_current_task(id: u32) {
    with(|h| h.cur_task = id);
}

// ------------------------------------------------------------------------------------------------
// Stream / future intrinsics.  These are ordinary Rust functions so that drivers can put them in
// `StreamVtable`/`FutureVtable` (through `extern "C"` wrappers that fix `elem_size`); the unit
// stream of `inter-task-wakeup` reaches them through the `[stream-*-unit]` symbols below.
// ------------------------------------------------------------------------------------------------

/// `stream.new` / `future.new`: returns `writer << 32 | reader` (reader allocated first, as in the CM).
pub fn chan_new(future: bool, elem_size: usize) -> u64 {
    with(|h| {
        let chan = h.chans.len();
        let r = h.alloc(Entry::End(End { chan, writer: false, future, copying: None, done: false }));
        let w = h.alloc(Entry::End(End { chan, writer: true, future, copying: None, done: false }));
        h.chans.push(Chan { future, elem_size, r_handle: Some(r), w_handle: Some(w), ..Chan::default() });
        h.log(format!("{}new={w},{r}", if future { "f" } else { "s" }));
        ((w as u64) << 32) | r as u64
    })
}

/// `stream.write` / `future.write` (`len` = 1 for futures).  Answer: scripted, else
/// DROPPED(0) if the reader is gone, rendezvous with a pending read (peer's, or the guest's own
/// other end: `k = min`), else BLOCKED.
pub fn chan_write(handle: u32, ptr: *const u8, len: usize) -> u32 {
    with(|h| {
        let Some(e) = h.end_mut(handle).cloned() else {
            h.trap("write:bad-handle");
            return rc(DROPPED, 0);
        };
        let p = if e.future { "f" } else { "s" };
        if !e.writer { h.trap("write:not-writable"); }
        if e.copying.is_some() { h.trap("write:busy"); }
        if e.done { h.trap("write:future-done"); }
        let fut = e.future;
        let cnt = |k: usize| if fut { 0 } else { k as u32 };
        let es = h.chans[e.chan].elem_size;
        let code = if let Some(a) = h.answers.pop_front() {
            a
        } else if h.chans[e.chan].r_dropped {
            rc(DROPPED, 0)
        } else if let Some(cap) = h.chans[e.chan].peer_read {
            let k = cap.min(len);
            let bytes = unsafe { std::slice::from_raw_parts(ptr, if ptr.is_null() { 0 } else { k * es }) }.to_vec();
            let c = &mut h.chans[e.chan];
            c.peer_received.extend(bytes);
            c.transferred += k;
            c.peer_read = None;
            rc(COMPLETED, cnt(k))
        } else if let Some((r, (rptr, cap))) = h.chans[e.chan].r_handle.and_then(|r| match h.table.get(&r) {
            Some(Entry::End(re)) if !h.ready.contains_key(&r) => re.copying.map(|c| (r, c)),
            _ => None,
        }) {
            let k = cap.min(len);
            if rptr != 0 && !ptr.is_null() && es > 0 {
                unsafe { std::ptr::copy_nonoverlapping(ptr, rptr as *mut u8, k * es) };
            }
            h.chans[e.chan].transferred += k;
            let kind = h.event_kind_of(r);
            h.ready.insert(r, (kind, rc(COMPLETED, cnt(k))));
            rc(COMPLETED, cnt(k))
        } else {
            BLOCKED
        };
        let en = h.end_mut(handle).unwrap();
        if code == BLOCKED {
            en.copying = Some((ptr as usize, len));
        } else if en.future && (code & 0xf) == COMPLETED {
            en.done = true;
        }
        if fut { h.log(format!("{p}write:{handle}={code}")) } else { h.log(format!("{p}write:{handle}:{len}={code}")) }
        code
    })
}

/// `stream.read` / `future.read`; dual of `chan_write`.
pub fn chan_read(handle: u32, ptr: *mut u8, len: usize) -> u32 {
    with(|h| {
        let Some(e) = h.end_mut(handle).cloned() else {
            h.trap("read:bad-handle");
            return rc(DROPPED, 0);
        };
        let p = if e.future { "f" } else { "s" };
        if e.writer { h.trap("read:not-readable"); }
        if e.copying.is_some() { h.trap("read:busy"); }
        if e.done { h.trap("read:future-done"); }
        let fut = e.future;
        let cnt = |k: usize| if fut { 0 } else { k as u32 };
        let es = h.chans[e.chan].elem_size;
        let code = if let Some(a) = h.answers.pop_front() {
            a
        } else if let Some(items) = h.chans[e.chan].peer_write.take() {
            let n = if es == 0 { items.len() } else { items.len() / es };
            let k = n.min(len);
            if !ptr.is_null() && es > 0 {
                unsafe { std::ptr::copy_nonoverlapping(items.as_ptr(), ptr, k * es) };
            }
            h.chans[e.chan].transferred += k;
            if k < n {
                h.chans[e.chan].peer_write = Some(items[k * es.max(1)..].to_vec());
            }
            rc(COMPLETED, cnt(k))
        } else if h.chans[e.chan].w_dropped {
            rc(DROPPED, 0)
        } else if let Some((w, (wptr, wlen))) = h.chans[e.chan].w_handle.and_then(|w| match h.table.get(&w) {
            Some(Entry::End(we)) if !h.ready.contains_key(&w) => we.copying.map(|c| (w, c)),
            _ => None,
        }) {
            let k = wlen.min(len);
            if wptr != 0 && !ptr.is_null() && es > 0 {
                unsafe { std::ptr::copy_nonoverlapping(wptr as *const u8, ptr, k * es) };
            }
            h.chans[e.chan].transferred += k;
            let kind = h.event_kind_of(w);
            h.ready.insert(w, (kind, rc(COMPLETED, cnt(k))));
            rc(COMPLETED, cnt(k))
        } else {
            BLOCKED
        };
        let en = h.end_mut(handle).unwrap();
        if code == BLOCKED {
            en.copying = Some((ptr as usize, len));
        } else if en.future && (code & 0xf) == COMPLETED {
            en.done = true;
        }
        if fut { h.log(format!("{p}read:{handle}={code}")) } else { h.log(format!("{p}read:{handle}:{len}={code}")) }
        code
    })
}

/// `{stream,future}.cancel-{read,write}` (synchronous).  Traps: not COPYING; still joined to a
/// waitable set (a synchronous cancel may have to wait on the waitable).  Answer: scripted, else
/// the undelivered event's code if there is one, else CANCELLED(0).  Either way the end is idle
/// afterwards and no event stays pending.
pub fn chan_cancel(handle: u32, write: bool) -> u32 {
    with(|h| {
        let Some(e) = h.end_mut(handle).cloned() else {
            h.trap("cancel:bad-handle");
            return rc(CANCELLED, 0);
        };
        if e.writer != write { h.trap("cancel:wrong-direction"); }
        if e.copying.is_none() { h.trap("cancel:not-copying"); }
        if h.joined.contains_key(&handle) { h.trap("cancel:joined"); }
        let pending = h.consume_event(handle);
        let code = match (h.answers.pop_front(), pending) {
            (Some(a), _) => a,
            (None, Some((_, c))) => c,
            (None, None) => rc(CANCELLED, 0),
        };
        let en = h.end_mut(handle).unwrap();
        en.copying = None;
        if en.future && (code & 0xf) == COMPLETED { en.done = true; }
        h.log(format!("{}cancel{}:{handle}={code}", if e.future { "f" } else { "s" }, if write { "w" } else { "r" }));
        code
    })
}

/// `{stream,future}.drop-{readable,writable}`.  Traps: COPYING; (futures) dropping a writable end
/// that never wrote while the reader is alive.  Leaves its set (CM `Waitable.drop`); an outstanding
/// operation of the *other* guest end completes with DROPPED(0).
pub fn chan_drop(handle: u32, write: bool) {
    with(|h| {
        let Some(e) = h.end_mut(handle).cloned() else {
            h.trap("drop:bad-handle");
            return;
        };
        if e.writer != write { h.trap("drop:wrong-direction"); }
        if e.copying.is_some() { h.trap("drop:copying"); }
        if e.future && e.writer && !e.done && !h.chans[e.chan].r_dropped { h.trap("drop:future-writer-unwritten"); }
        h.log(format!("{}drop{}:{handle}", if e.future { "f" } else { "s" }, if write { "w" } else { "r" }));
        h.joined.remove(&handle);
        h.ready.remove(&handle);
        h.release(handle);
        let other = {
            let c = &mut h.chans[e.chan];
            if write { c.w_dropped = true; c.w_handle = None; c.r_handle } else { c.r_dropped = true; c.r_handle = None; c.w_handle }
        };
        if let Some(o) = other {
            if h.end_mut(o).map(|x| x.copying.is_some()).unwrap_or(false) && !h.ready.contains_key(&o) {
                let kind = h.event_kind_of(o);
                h.ready.insert(o, (kind, rc(DROPPED, 0)));
            }
        }
    })
}

// ------------------------------------------------------------------------------------------------
// Intrinsics reached through hook H1 (symbol = wasm import name)
// ------------------------------------------------------------------------------------------------

#[export_name = "[waitable-set-new]"]
pub extern "C" fn waitable_set_new() -> u32 {
    with(|h| {
        let s = h.alloc(Entry::Set);
        h.log(format!("wsnew={s}"));
        s
    })
}

/// Traps if the set still has members (CM `trap_if(len(elems) > 0)`).
#[export_name = "[waitable-set-drop]"]
pub extern "C" fn waitable_set_drop(set: u32) {
    with(|h| {
        h.log(format!("wsdrop:{set}"));
        if h.table.get(&set) != Some(&Entry::Set) {
            h.trap("wsdrop:bad-set");
            return;
        }
        if h.joined.values().any(|s| *s == set) {
            h.trap("wsdrop:nonempty");
        }
        h.release(set);
    })
}

/// `waitable.join(w, set)`; `set = 0` removes `w` from whatever set it is in.
#[export_name = "[waitable-join]"]
pub extern "C" fn waitable_join(w: u32, set: u32) {
    with(|h| {
        h.log(format!("join:{w}:{set}"));
        if !h.is_waitable(w) {
            h.trap("join:bad-waitable");
            return;
        }
        if set == 0 {
            h.joined.remove(&w);
        } else if h.table.get(&set) != Some(&Entry::Set) {
            h.trap("join:bad-set");
        } else {
            h.joined.insert(w, set);
        }
    })
}

fn wait_or_poll(set: u32, payload: *mut [u32; 2], wait: bool) -> u32 {
    loop {
        let r = with(|h| {
            if h.table.get(&set) != Some(&Entry::Set) {
                h.trap("wait:bad-set");
                return Some((EVENT_NONE, 0, 0));
            }
            match h.choose_ready(set) {
                Some(w) => {
                    let (kind, code) = h.consume_event(w).unwrap();
                    Some((kind, w, code))
                }
                None if wait => None,
                None => Some((EVENT_NONE, 0, 0)),
            }
        });
        let r = match r {
            Some(r) => r,
            None => {
                // nothing ready: let the driver make progress on the host side
                let hook = ON_BLOCK.with(|b| b.borrow_mut().take());
                let more = match hook {
                    Some(mut f) => {
                        let m = f();
                        ON_BLOCK.with(|b| {
                            if b.borrow().is_none() {
                                *b.borrow_mut() = Some(f)
                            }
                        });
                        m
                    }
                    None => false,
                };
                if more {
                    continue;
                }
                with(|h| h.trap("wait:deadlock"));
                (EVENT_NONE, 0, 0)
            }
        };
        with(|h| h.log(format!("{}:{set}={},{},{}", if wait { "wswait" } else { "wspoll" }, r.0, r.1, r.2)));
        unsafe {
            (*payload)[0] = r.1;
            (*payload)[1] = r.2;
        }
        return r.0;
    }
}

#[export_name = "[waitable-set-wait]"]
pub extern "C" fn waitable_set_wait(set: u32, payload: *mut [u32; 2]) -> u32 {
    wait_or_poll(set, payload, true)
}

#[export_name = "[waitable-set-poll]"]
pub extern "C" fn waitable_set_poll(set: u32, payload: *mut [u32; 2]) -> u32 {
    wait_or_poll(set, payload, false)
}

/// `subtask.cancel` (synchronous).  Traps: unknown handle; resolution already delivered; cancel
/// requested twice; still joined to a set.  Answer: scripted, else the undelivered event's status,
/// else STARTED_CANCELLED if the callee has not started, RETURNED_CANCELLED otherwise.
#[export_name = "[subtask-cancel]"]
pub extern "C" fn subtask_cancel(handle: u32) -> u32 {
    with(|h| {
        let Some(Entry::Subtask(st)) = h.table.get(&handle).cloned() else {
            h.trap("stcancel:bad-handle");
            let a = h.answers.pop_front().unwrap_or(STATUS_RETURNED_CANCELLED);
            h.log(format!("stcancel:{handle}={a}"));
            return a;
        };
        if st.resolve_delivered { h.trap("stcancel:resolved"); }
        if st.cancel_requested { h.trap("stcancel:twice"); }
        if h.joined.contains_key(&handle) { h.trap("stcancel:joined"); }
        let pending = h.consume_event(handle);
        let code = match (h.answers.pop_front(), pending) {
            (Some(a), _) => a,
            (None, Some((_, c))) if c >= STATUS_RETURNED => c,
            (None, Some((_, _))) => STATUS_RETURNED_CANCELLED,
            (None, None) if st.status == STATUS_STARTING => STATUS_STARTED_CANCELLED,
            (None, None) => STATUS_RETURNED_CANCELLED,
        };
        if let Some(Entry::Subtask(s)) = h.table.get_mut(&handle) {
            s.cancel_requested = true;
            s.status = code;
            if code >= STATUS_RETURNED { s.resolve_delivered = true; }
        }
        h.log(format!("stcancel:{handle}={code}"));
        code
    })
}

/// `subtask.drop`.  Traps: unknown handle; resolution not yet delivered.  Leaves its set.
#[export_name = "[subtask-drop]"]
pub extern "C" fn subtask_drop(handle: u32) {
    with(|h| {
        h.log(format!("stdrop:{handle}"));
        match h.table.get(&handle).cloned() {
            Some(Entry::Subtask(st)) => {
                if !st.resolve_delivered { h.trap("stdrop:unresolved"); }
                h.joined.remove(&handle);
                h.ready.remove(&handle);
                h.release(handle);
            }
            _ => h.trap("stdrop:bad-handle"),
        }
    })
}

#[export_name = "[context-get-0]"]
pub extern "C" fn context_get_0() -> *mut u8 {
    with(|h| {
        let v = *h.ctx.get(&h.cur_task).unwrap_or(&0);
        if h.log_ctx { let t = h.cur_task; h.log(format!("cget:{t}={}", if v == 0 { "null" } else { "ptr" })); }
        v as *mut u8
    })
}

#[export_name = "[context-set-0]"]
pub extern "C" fn context_set_0(v: *mut u8) {
    with(|h| {
        let t = h.cur_task;
        h.ctx.insert(t, v as usize);
        if h.log_ctx { h.log(format!("cset:{t}={}", if v.is_null() { "null" } else { "ptr" })); }
    })
}

/// Returns "was cancelled": scripted answer (non-zero = true), default false.
#[export_name = "[thread-yield]"]
pub extern "C" fn thread_yield() -> bool {
    with(|h| {
        let a = h.answers.pop_front().unwrap_or(0) != 0;
        h.log(format!("yield={}", a as u32));
        a
    })
}

#[export_name = "[backpressure-inc]"]
pub extern "C" fn backpressure_inc() {
    with(|h| { h.backpressure += 1; h.log("bpinc".into()) })
}

#[export_name = "[backpressure-dec]"]
pub extern "C" fn backpressure_dec() {
    with(|h| {
        if h.backpressure == 0 { h.trap("bpdec:underflow"); }
        h.backpressure -= 1;
        h.log("bpdec".into())
    })
}

#[export_name = "[task-cancel]"]
pub extern "C" fn task_cancel() {
    with(|h| { h.task_cancels += 1; h.log("taskcancel".into()) })
}

#[repr(C)]
pub struct RetPtr {
    pub ptr: *mut u8,
    pub len: usize,
}

#[export_name = "[error-context-new-utf8]"]
pub extern "C" fn error_context_new(_p: *const u8, len: usize) -> u32 {
    with(|h| {
        let i = h.alloc(Entry::ErrCtx);
        h.log(format!("ecnew:{len}={i}"));
        i
    })
}

#[export_name = "[error-context-drop]"]
pub extern "C" fn error_context_drop(i: u32) {
    with(|h| {
        h.log(format!("ecdrop:{i}"));
        if h.table.get(&i) == Some(&Entry::ErrCtx) { h.release(i) } else { h.trap("ecdrop:bad-handle") }
    })
}

#[export_name = "[error-context-debug-message-utf8]"]
pub extern "C" fn error_context_debug_message(i: u32, ret: &mut RetPtr) {
    with(|h| h.log(format!("ecmsg:{i}")));
    let s = String::from("mock").into_bytes().into_boxed_slice();
    ret.len = s.len();
    ret.ptr = Box::into_raw(s) as *mut u8;
}

/// `wasip3_task_set`: under H1 the harness owns the global task pointer (in a wasm build this is the
/// weak C symbol of `wit_bindgen_cabi.c`).  Swaps and returns the previous value.
#[no_mangle]
pub extern "C" fn wasip3_task_set(ptr: *mut c_void) -> *mut c_void {
    with(|h| {
        let prev = h.task_ptr;
        h.task_ptr = ptr as usize;
        if h.log_task_set { h.log(format!("taskset:{}", if ptr.is_null() { "null" } else { "ptr" })); }
        prev as *mut c_void
    })
}

// the unit stream of feature `inter-task-wakeup`
#[export_name = "[stream-new-unit]"]
pub extern "C" fn unit_new() -> u64 { chan_new(false, 0) }
#[export_name = "[async-lower][stream-write-unit]"]
pub extern "C" fn unit_write(s: u32, p: *const u8, n: usize) -> u32 { chan_write(s, p, n) }
#[export_name = "[async-lower][stream-read-unit]"]
pub extern "C" fn unit_read(s: u32, p: *mut u8, n: usize) -> u32 { chan_read(s, p, n) }
#[export_name = "[stream-cancel-read-unit]"]
pub extern "C" fn unit_cancel_read(s: u32) -> u32 { chan_cancel(s, false) }
#[export_name = "[stream-cancel-write-unit]"]
pub extern "C" fn unit_cancel_write(s: u32) -> u32 { chan_cancel(s, true) }
#[export_name = "[stream-drop-readable-unit]"]
pub extern "C" fn unit_drop_readable(s: u32) { chan_drop(s, false) }
#[export_name = "[stream-drop-writable-unit]"]
pub extern "C" fn unit_drop_writable(s: u32) { chan_drop(s, true) }

/// Ready-made intrinsic wrappers for vtables of a payload with `ELEM`-byte canonical elements:
/// `StreamVtable { new: stream_fns::<1>::new, start_write: stream_fns::<1>::write, … }`.
pub struct StreamFns<const ELEM: usize>;
impl<const ELEM: usize> StreamFns<ELEM> {
    pub unsafe extern "C" fn new() -> u64 { chan_new(false, ELEM) }
    pub unsafe extern "C" fn write(s: u32, p: *const u8, n: usize) -> u32 { chan_write(s, p, n) }
    pub unsafe extern "C" fn read(s: u32, p: *mut u8, n: usize) -> u32 { chan_read(s, p, n) }
    pub unsafe extern "C" fn cancel_write(s: u32) -> u32 { chan_cancel(s, true) }
    pub unsafe extern "C" fn cancel_read(s: u32) -> u32 { chan_cancel(s, false) }
    pub unsafe extern "C" fn drop_writable(s: u32) { chan_drop(s, true) }
    pub unsafe extern "C" fn drop_readable(s: u32) { chan_drop(s, false) }
}
pub struct FutureFns<const ELEM: usize>;
impl<const ELEM: usize> FutureFns<ELEM> {
    pub unsafe extern "C" fn new() -> u64 { chan_new(true, ELEM) }
    pub unsafe extern "C" fn write(s: u32, p: *const u8) -> u32 { chan_write(s, p, 1) }
    pub unsafe extern "C" fn read(s: u32, p: *mut u8) -> u32 { chan_read(s, p, 1) }
    pub unsafe extern "C" fn cancel_write(s: u32) -> u32 { chan_cancel(s, true) }
    pub unsafe extern "C" fn cancel_read(s: u32) -> u32 { chan_cancel(s, false) }
    pub unsafe extern "C" fn drop_writable(s: u32) { chan_drop(s, true) }
    pub unsafe extern "C" fn drop_readable(s: u32) { chan_drop(s, false) }
}
