//! Watching allocator.  A driver installs it with
//! `#[global_allocator] static A: rtmock::alloc::WatchAlloc = rtmock::alloc::WatchAlloc;`
//! and calls `watch(size)`: from then on every `alloc`/`dealloc` whose layout size equals `size`
//! is recorded as an event (kind, position of the host log at that moment, address id).  The driver
//! merges the events into the host log with `host::take_log_with_allocs()` as tokens
//! `area+<n>` / `area-<n>` (n = index of the allocation among the watched ones, 1-based; `area-?`
//! for a free of an address that is not a live watched allocation = double free / foreign free).
//! Nothing here allocates.
use std::alloc::{GlobalAlloc, Layout, System};
use std::sync::atomic::{AtomicUsize, Ordering::SeqCst};

pub struct WatchAlloc;

const CAP: usize = 4096;
static WATCH: AtomicUsize = AtomicUsize::new(usize::MAX);
static NEV: AtomicUsize = AtomicUsize::new(0);
/// current length of the host log (maintained by `host::log`)
pub static LOGLEN: AtomicUsize = AtomicUsize::new(0);
static EV_KIND: [AtomicUsize; CAP] = [const { AtomicUsize::new(0) }; CAP];
static EV_POS: [AtomicUsize; CAP] = [const { AtomicUsize::new(0) }; CAP];
static EV_ADDR: [AtomicUsize; CAP] = [const { AtomicUsize::new(0) }; CAP];

fn record(kind: usize, addr: usize) {
    let i = NEV.fetch_add(1, SeqCst);
    if i < CAP {
        EV_KIND[i].store(kind, SeqCst);
        EV_POS[i].store(LOGLEN.load(SeqCst), SeqCst);
        EV_ADDR[i].store(addr, SeqCst);
    }
}

unsafe impl GlobalAlloc for WatchAlloc {
    unsafe fn alloc(&self, l: Layout) -> *mut u8 {
        let p = System.alloc(l);
        if l.size() == WATCH.load(SeqCst) {
            record(1, p as usize);
        }
        p
    }
    unsafe fn dealloc(&self, p: *mut u8, l: Layout) {
        if l.size() == WATCH.load(SeqCst) {
            record(2, p as usize);
        }
        System.dealloc(p, l)
    }
    unsafe fn realloc(&self, p: *mut u8, l: Layout, n: usize) -> *mut u8 {
        // keep it simple: a watched block that is realloc'ed is reported as free + alloc
        let w = WATCH.load(SeqCst);
        if l.size() == w {
            record(2, p as usize);
        }
        let q = System.realloc(p, l, n);
        if n == w {
            record(1, q as usize);
        }
        q
    }
}

/// Start watching layouts of exactly `size` bytes (usize::MAX = nothing) and forget old events.
pub fn watch(size: usize) {
    WATCH.store(usize::MAX, SeqCst);
    NEV.store(0, SeqCst);
    WATCH.store(size, SeqCst);
}

/// Stop watching and return the events as (kind 1=alloc 2=free, host-log position, address).
pub fn take_events() -> Vec<(usize, usize, usize)> {
    WATCH.store(usize::MAX, SeqCst);
    let n = NEV.swap(0, SeqCst).min(CAP);
    (0..n)
        .map(|i| (EV_KIND[i].load(SeqCst), EV_POS[i].load(SeqCst), EV_ADDR[i].load(SeqCst)))
        .collect()
}
