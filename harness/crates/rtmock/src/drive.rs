//! Utilities shared by the per-property drivers (`src/bin/*.rs`).
//!
//! * `run_lines` — the line protocol: one scenario per stdin line, one result line per scenario,
//!   host reset before each, Rust panics caught and reported as `PANIC:<message>`.
//! * `CountWaker` — a `Waker` that counts wake-ups.
//! * `MockTask` — a harness-owned `wasip3_task` (task C ABI **v1** or **v2**) with an observable
//!   registration map, mirroring what `SharedTaskState` does on the real side (join on register,
//!   `join(w,0)` on unregister/deliver).  Under H1 the harness owns `wasip3_task_set`, so
//!   `MockTask::enter` makes it the current task for the duration of a closure.
//! * `real_task` helpers are in the drivers that need them (`start_task`/`callback` are public).
use crate::host;
use std::cell::RefCell;
use std::collections::BTreeMap;
use std::ffi::c_void;
use std::io::{BufRead, Write};
use std::panic::{catch_unwind, AssertUnwindSafe};
use std::rc::Rc;
use std::sync::atomic::{AtomicUsize, Ordering::SeqCst};
use std::sync::Arc;
use std::task::{Wake, Waker};

/// Read scenarios from stdin, one per line; print `f(line)` (or `PANIC:<msg>`) per line.
pub fn run_lines(mut f: impl FnMut(&str) -> String) {
    if std::env::var_os("RTMOCK_DEBUG").is_none() {
        std::panic::set_hook(Box::new(|_| {}));
    }
    let stdin = std::io::stdin();
    let stdout = std::io::stdout();
    let mut out = stdout.lock();
    for line in stdin.lock().lines() {
        let line = line.unwrap();
        host::reset();
        let r = catch_unwind(AssertUnwindSafe(|| f(line.trim())));
        let s = match r {
            Ok(s) => s,
            Err(e) => format!("PANIC:{}", panic_message(&e)),
        };
        writeln!(out, "{}", s.replace('\n', " ")).unwrap();
        out.flush().unwrap();
    }
}

pub fn panic_message(e: &Box<dyn std::any::Any + Send>) -> String {
    let m = if let Some(s) = e.downcast_ref::<&str>() {
        s.to_string()
    } else if let Some(s) = e.downcast_ref::<String>() {
        s.clone()
    } else {
        "?".to_string()
    };
    m.trim().lines().next().unwrap_or("").to_string()
}

/// Run `f`, turning a panic into `Err(first line of the message)`.
pub fn catch<R>(f: impl FnOnce() -> R) -> Result<R, String> {
    catch_unwind(AssertUnwindSafe(f)).map_err(|e| panic_message(&e))
}

pub fn parse_u32(s: &str) -> u32 {
    if let Some(h) = s.strip_prefix("0x") {
        u32::from_str_radix(h, 16).unwrap()
    } else if s == "B" {
        host::BLOCKED
    } else {
        s.parse().unwrap_or_else(|_| panic!("bad number {s:?}"))
    }
}

/// A waker that counts how often it was woken.
pub struct CountWaker(pub AtomicUsize);
impl Wake for CountWaker {
    fn wake(self: Arc<Self>) {
        self.0.fetch_add(1, SeqCst);
    }
    fn wake_by_ref(self: &Arc<Self>) {
        self.0.fetch_add(1, SeqCst);
    }
}
impl CountWaker {
    pub fn new() -> (Arc<CountWaker>, Waker) {
        let a = Arc::new(CountWaker(AtomicUsize::new(0)));
        (a.clone(), Waker::from(a))
    }
    pub fn count(&self) -> usize {
        self.0.load(SeqCst)
    }
}

// ---------------------------------------------------------------------------------------------
// The task C ABI (crates/guest-rust/src/rt/async_support/cabi.rs is a private module; the layout
// is the documented, versioned interface, re-declared here).
// ---------------------------------------------------------------------------------------------
pub type WakeCb = unsafe extern "C" fn(*mut c_void, u32);

#[repr(C)]
pub struct Wasip3Task {
    pub version: u32,
    pub ptr: *mut c_void,
    pub waitable_register: unsafe extern "C" fn(*mut c_void, u32, WakeCb, *mut c_void) -> *mut c_void,
    pub waitable_unregister: unsafe extern "C" fn(*mut c_void, u32) -> *mut c_void,
}

#[repr(C)]
pub struct Wasip3TaskV2 {
    pub v1: Wasip3Task,
    pub vtable: &'static Wasip3TaskVtable,
}

#[repr(C)]
pub struct Wasip3TaskVtable {
    pub waitable_register: unsafe extern "C" fn(*mut c_void, u32, WakeCb, *mut c_void) -> *mut c_void,
    pub waitable_unregister: unsafe extern "C" fn(*mut c_void, u32) -> *mut c_void,
    pub clone: unsafe extern "C" fn(*mut c_void) -> *mut c_void,
    pub drop: unsafe extern "C" fn(*mut c_void),
}

/// State of a harness-owned task.  `Rc<RefCell<…>>`; the C ABI `ptr` is `Rc::as_ptr`, `clone`/`drop`
/// maintain `clones` (outstanding v2 strong references) instead of touching the `Rc` count, so a
/// leak or double drop is observable rather than undefined behaviour.
pub struct MockTaskState {
    pub id: u32,
    pub version: u32,
    /// waitable -> (callback, callback_ptr): the registration map (what `SharedTaskState::waitables` is)
    pub map: BTreeMap<u32, (WakeCb, usize)>,
    /// the task's waitable set, created on first registration
    pub set: Option<u32>,
    pub clones: i64,
    pub alive: bool,
}

#[derive(Clone)]
pub struct MockTask(pub Rc<RefCell<MockTaskState>>);

static MOCK_VTABLE: Wasip3TaskVtable = Wasip3TaskVtable {
    waitable_register: mock_register,
    waitable_unregister: mock_unregister,
    clone: mock_clone,
    drop: mock_drop,
};

unsafe fn st<'a>(p: *mut c_void) -> &'a RefCell<MockTaskState> {
    &*(p as *const RefCell<MockTaskState>)
}

unsafe extern "C" fn mock_register(p: *mut c_void, w: u32, cb: WakeCb, cbp: *mut c_void) -> *mut c_void {
    let t = st(p);
    let (id, set) = { let t = t.borrow(); (t.id, t.set) };
    host::log(format!("treg:{id}:{w}"));
    let set = match set {
        Some(s) => s,
        None => {
            let s = host::waitable_set_new();
            t.borrow_mut().set = Some(s);
            s
        }
    };
    host::waitable_join(w, set);
    match t.borrow_mut().map.insert(w, (cb, cbp as usize)) {
        Some((_, prev)) => prev as *mut c_void,
        None => std::ptr::null_mut(),
    }
}

unsafe extern "C" fn mock_unregister(p: *mut c_void, w: u32) -> *mut c_void {
    let t = st(p);
    let id = t.borrow().id;
    host::log(format!("tunreg:{id}:{w}"));
    host::waitable_join(w, 0);
    match t.borrow_mut().map.remove(&w) {
        Some((_, prev)) => prev as *mut c_void,
        None => std::ptr::null_mut(),
    }
}

unsafe extern "C" fn mock_clone(p: *mut c_void) -> *mut c_void {
    let t = st(p);
    let id = t.borrow().id;
    t.borrow_mut().clones += 1;
    host::log(format!("tclone:{id}"));
    p
}

unsafe extern "C" fn mock_drop(p: *mut c_void) {
    let t = st(p);
    let id = t.borrow().id;
    t.borrow_mut().clones -= 1;
    host::log(format!("tdrop:{id}"));
}

impl MockTask {
    /// `version` 1 or 2.
    pub fn new(id: u32, version: u32) -> MockTask {
        MockTask(Rc::new(RefCell::new(MockTaskState { id, version, map: BTreeMap::new(), set: None, clones: 0, alive: true })))
    }
    fn raw(&self) -> *mut c_void {
        Rc::as_ptr(&self.0) as *mut c_void
    }
    /// Make this task the current `wasip3_task` while `f` runs (what an export's executor does).
    pub fn enter<R>(&self, f: impl FnOnce() -> R) -> R {
        let version = self.0.borrow().version;
        let mut t = Wasip3TaskV2 {
            v1: Wasip3Task {
                version,
                ptr: self.raw(),
                waitable_register: mock_register,
                waitable_unregister: mock_unregister,
            },
            vtable: &MOCK_VTABLE,
        };
        let p: *mut Wasip3TaskV2 = &mut t;
        let prev = host::wasip3_task_set(p.cast());
        struct Reset(*mut c_void);
        impl Drop for Reset {
            fn drop(&mut self) {
                host::wasip3_task_set(self.0);
            }
        }
        let _r = Reset(prev);
        f()
    }
    /// Deliver event `(w, code)` the way `TaskState::deliver_waitable_event` does: `join(w, 0)`,
    /// remove the map entry, call its callback.  Returns false if `w` is not registered here.
    pub fn deliver(&self, w: u32, code: u32) -> bool {
        let id = self.0.borrow().id;
        host::log(format!("tdeliver:{id}:{w}:{code}"));
        host::waitable_join(w, 0);
        let e = self.0.borrow_mut().map.remove(&w);
        match e {
            Some((cb, p)) => {
                unsafe { cb(p as *mut c_void, code) };
                true
            }
            None => false,
        }
    }
    pub fn registered(&self) -> Vec<u32> {
        self.0.borrow().map.keys().copied().collect()
    }
    pub fn set(&self) -> Option<u32> {
        self.0.borrow().set
    }
    pub fn clones(&self) -> i64 {
        self.0.borrow().clones
    }
}
