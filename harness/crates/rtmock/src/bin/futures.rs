//! C20 driver: the REAL `FutureWriter` / `FutureWrite` / `FutureReader` / `FutureRead` of
//! `wit_bindgen::rt::async_support` (future_support.rs + waitable.rs) against the mock host.
//!
//! One scenario per stdin line: `v1|v2` (task C-ABI version of the harness-owned `MockTask`) followed by
//! action tokens; one output line: for every action `>ACTION`, the host calls / ledger events it caused
//! (handles symbolised as `<future index><w|r>`), `=OUTCOME`; then `| summary`.
//!
//! Actions (F = future index in creation order; an action whose slot is missing is `=skip`):
//!   N:u N:h        future_new::<u32 | Heap>()             (both ends in the guest)
//!   I:u I:h        imported future: future.new, the peer keeps the writable end, guest gets FutureReader::new
//!   W:F:V          writer.write(V)  -> FutureWrite (not polled yet)
//!   Wp:F Wc:F Wd:F poll / cancel / drop the FutureWrite
//!   Dw:F           drop the FutureWriter (default-value path, write_and_forget)
//!   R:F            reader.into_future() -> FutureRead ;  Rp:F Rc:F Rd:F poll / cancel / drop it
//!   Dr:F           drop the FutureReader
//!   T:F            transfer the readable end to the peer (take_handle + host peer_take)
//!   Pr:F Pd:F      peer reads / peer drops its readable end      Pw:F:V  peer writes V (imported future)
//!   E:Fw E:Fr      the task polls its waitable set, the host hands it the pending event of that end,
//!                  the task delivers it (what `TaskState::deliver_waitable_event` does)
//! Payload instrumentation: `lower:V` / `dealloc:V` / `relift:V` (lift of a buffer this side lowered) /
//! `lift:V` (lift of a received value) / `vdrop:V` (Rust value of the heap kind dropped) / `default`
//! (default closure called) / `area+` `area-` (the `Cleanup` allocation) / `wake` (user waker woken).
use rtmock::{alloc, drive, host};
use std::alloc::Layout;
use std::cell::{Cell, RefCell};
use std::collections::BTreeMap;
use std::future::{Future, IntoFuture};
use std::pin::Pin;
use std::sync::Arc;
use std::task::{Context, Poll, Wake, Waker};
use wit_bindgen::rt::async_support as rt;

#[global_allocator]
static A: alloc::WatchAlloc = alloc::WatchAlloc;

const AREA: usize = 1232;
const DEFAULT_VAL: u32 = 777;

thread_local! {
    static LIVE: Cell<i64> = Cell::new(0);                 // live Rust values of the heap kind
    static LOWERED: RefCell<Vec<usize>> = RefCell::new(Vec::new()); // buffers holding a lowered value (this side owns its lists)
    static DEFAULTS: Cell<u32> = Cell::new(0);
}

struct Heap {
    val: u32,
}
impl Drop for Heap {
    fn drop(&mut self) {
        LIVE.with(|l| l.set(l.get() - 1));
        host::log(format!("vdrop:{}", self.val));
    }
}

trait Pay: Sized + 'static {
    fn mk(v: u32) -> Self;
    fn val(&self) -> u32;
    /// consume without running the destructor (ownership moves into the canonical representation)
    fn into_lowered(self) -> u32;
    fn vt() -> &'static rt::FutureVtable<Self>;
    fn dflt() -> Self {
        DEFAULTS.with(|d| d.set(d.get() + 1));
        host::log("default");
        Self::mk(DEFAULT_VAL)
    }
}
impl Pay for u32 {
    fn mk(v: u32) -> u32 { v }
    fn val(&self) -> u32 { *self }
    fn into_lowered(self) -> u32 { self }
    fn vt() -> &'static rt::FutureVtable<u32> { &VT_U }
}
impl Pay for Heap {
    fn mk(v: u32) -> Heap {
        LIVE.with(|l| l.set(l.get() + 1));
        Heap { val: v }
    }
    fn val(&self) -> u32 { self.val }
    fn into_lowered(self) -> u32 {
        let v = self.val;
        LIVE.with(|l| l.set(l.get() - 1));
        std::mem::forget(self);
        v
    }
    fn vt() -> &'static rt::FutureVtable<Heap> { &VT_H }
}

unsafe fn lower<T: Pay>(value: T, dst: *mut u8) {
    let v = value.into_lowered();
    std::ptr::copy_nonoverlapping(v.to_le_bytes().as_ptr(), dst, 4);
    LOWERED.with(|l| l.borrow_mut().push(dst as usize));
    host::log(format!("lower:{v}"));
}
unsafe fn read_val(p: *mut u8) -> u32 {
    let mut b = [0u8; 4];
    std::ptr::copy_nonoverlapping(p as *const u8, b.as_mut_ptr(), 4);
    u32::from_le_bytes(b)
}
unsafe fn dealloc_lists(p: *mut u8) {
    let v = read_val(p);
    let owned = LOWERED.with(|l| {
        let mut l = l.borrow_mut();
        match l.iter().position(|a| *a == p as usize) {
            Some(i) => { l.remove(i); true }
            None => false,
        }
    });
    host::log(if owned { format!("dealloc:{v}") } else { format!("dealloc-bad:{v}") });
}
unsafe fn lift<T: Pay>(p: *mut u8) -> T {
    let v = read_val(p);
    let owned = LOWERED.with(|l| {
        let mut l = l.borrow_mut();
        match l.iter().position(|a| *a == p as usize) {
            Some(i) => { l.remove(i); true }
            None => false,
        }
    });
    host::log(if owned { format!("relift:{v}") } else { format!("lift:{v}") });
    T::mk(v)
}

macro_rules! vtable {
    ($t:ty) => {
        rt::FutureVtable {
            layout: unsafe { Layout::from_size_align_unchecked(AREA, 8) },
            lower: lower::<$t>,
            dealloc_lists,
            lift: lift::<$t>,
            start_write: host::FutureFns::<4>::write,
            start_read: host::FutureFns::<4>::read,
            cancel_write: host::FutureFns::<4>::cancel_write,
            cancel_read: host::FutureFns::<4>::cancel_read,
            drop_writable: host::FutureFns::<4>::drop_writable,
            drop_readable: host::FutureFns::<4>::drop_readable,
            new: host::FutureFns::<4>::new,
        }
    };
}
static VT_U: rt::FutureVtable<u32> = vtable!(u32);
static VT_H: rt::FutureVtable<Heap> = vtable!(Heap);

struct LogWaker;
impl Wake for LogWaker {
    fn wake(self: Arc<Self>) { host::log("wake") }
    fn wake_by_ref(self: &Arc<Self>) { host::log("wake") }
}

struct Fut<T: Pay> {
    writer: Option<rt::FutureWriter<T>>,
    write: Option<Pin<Box<rt::FutureWrite<T>>>>,
    write_fin: bool,
    reader: Option<rt::FutureReader<T>>,
    read: Option<Pin<Box<rt::FutureRead<T>>>>,
    read_fin: bool,
}

enum Out {
    Skip,
    Done(String),
}

impl<T: Pay> Fut<T> {
    fn empty() -> Fut<T> {
        Fut { writer: None, write: None, write_fin: false, reader: None, read: None, read_fin: false }
    }
    fn forget(self) {
        std::mem::forget(self.writer);
        std::mem::forget(self.write);
        std::mem::forget(self.reader);
        std::mem::forget(self.read);
    }
    /// `op` is the action word, `arg` its value argument (if any), `chan` the channel index.
    fn act(&mut self, op: &str, arg: u32, chan: usize, waker: &Waker) -> Out {
        let ok = || Out::Done("ok".into());
        match op {
            "W" => {
                if self.writer.is_none() || self.write.is_some() { return Out::Skip; }
                let w = self.writer.take().unwrap();
                self.write = Some(Box::pin(w.write(T::mk(arg))));
                self.write_fin = false;
                ok()
            }
            "Wp" => {
                let Some(wr) = self.write.as_mut() else { return Out::Skip };
                let mut cx = Context::from_waker(waker);
                match wr.as_mut().poll(&mut cx) {
                    Poll::Pending => Out::Done("Pending".into()),
                    Poll::Ready(Ok(())) => { self.write_fin = true; Out::Done("Ok".into()) }
                    Poll::Ready(Err(e)) => {
                        self.write_fin = true;
                        host::log(format!("=Err:{}", e.value.val()));
                        drop(e);
                        Out::Done(String::new())
                    }
                }
            }
            "Wc" => {
                let Some(wr) = self.write.as_mut() else { return Out::Skip };
                let r = wr.as_mut().cancel();
                self.write_fin = true;
                match r {
                    rt::FutureWriteCancel::AlreadySent => Out::Done("AlreadySent".into()),
                    rt::FutureWriteCancel::Dropped(v) => {
                        host::log(format!("=Dropped:{}", v.val()));
                        drop(v);
                        Out::Done(String::new())
                    }
                    rt::FutureWriteCancel::Cancelled(v, w) => {
                        host::log(format!("=Cancelled:{}", v.val()));
                        // the FutureWriter comes back: it must be usable again
                        if self.writer.is_some() { host::log("BUG:two-writers"); }
                        self.writer = Some(w);
                        drop(v);
                        Out::Done(String::new())
                    }
                }
            }
            "Wd" => {
                if self.write.is_none() { return Out::Skip; }
                drop(self.write.take());
                self.write_fin = false;
                ok()
            }
            "Dw" => {
                if self.writer.is_none() { return Out::Skip; }
                drop(self.writer.take());
                ok()
            }
            "R" => {
                if self.reader.is_none() || self.read.is_some() { return Out::Skip; }
                let r = self.reader.take().unwrap();
                self.read = Some(Box::pin(r.into_future()));
                self.read_fin = false;
                ok()
            }
            "Rp" => {
                let Some(rd) = self.read.as_mut() else { return Out::Skip };
                let mut cx = Context::from_waker(waker);
                match rd.as_mut().poll(&mut cx) {
                    Poll::Pending => Out::Done("Pending".into()),
                    Poll::Ready(v) => {
                        self.read_fin = true;
                        host::log(format!("=Val:{}", v.val()));
                        drop(v);
                        Out::Done(String::new())
                    }
                }
            }
            "Rc" => {
                let Some(rd) = self.read.as_mut() else { return Out::Skip };
                let r = rd.as_mut().cancel();
                self.read_fin = true;
                match r {
                    Ok(v) => {
                        host::log(format!("=ROk:{}", v.val()));
                        drop(v);
                        Out::Done(String::new())
                    }
                    Err(reader) => {
                        if self.reader.is_some() { host::log("BUG:two-readers"); }
                        self.reader = Some(reader);
                        Out::Done("RErr".into())
                    }
                }
            }
            "Rd" => {
                if self.read.is_none() { return Out::Skip; }
                drop(self.read.take());
                self.read_fin = false;
                ok()
            }
            "Dr" => {
                if self.reader.is_none() { return Out::Skip; }
                drop(self.reader.take());
                ok()
            }
            "T" => {
                let Some(r) = self.reader.take() else { return Out::Skip };
                let h = r.take_handle();
                host::log(format!("take:{h}"));
                host::peer_take(h);
                drop(r);
                let _ = chan;
                ok()
            }
            _ => Out::Skip,
        }
    }
}

enum AnyFut {
    U(Fut<u32>),
    H(Fut<Heap>),
}

fn new_fut<T: Pay>(imported: bool) -> Fut<T> {
    let mut f = Fut::<T>::empty();
    if imported {
        let hs = unsafe { (T::vt().new)() };
        let (w, r) = ((hs >> 32) as u32, hs as u32);
        host::log(format!("take:{w}"));
        host::peer_take(w);
        f.reader = Some(unsafe { rt::FutureReader::new(r, T::vt()) });
    } else {
        let (w, r) = unsafe { rt::future_new::<T>(T::dflt, T::vt()) };
        f.writer = Some(w);
        f.reader = Some(r);
    }
    f
}

/// What the driver needs to know about the host side of channel `c` to decide preconditions.
#[derive(Clone, Copy)]
struct ChanView {
    w_handle: Option<u32>,
    r_handle: Option<u32>,
    r_dropped: bool,
    w_dropped: bool,
    peer_read: bool,
    peer_write: bool,
    transferred: usize,
}
fn view(c: usize) -> ChanView {
    host::with(|h| {
        let ch = &h.chans[c];
        ChanView {
            w_handle: ch.w_handle, r_handle: ch.r_handle, r_dropped: ch.r_dropped, w_dropped: ch.w_dropped,
            peer_read: ch.peer_read.is_some(), peer_write: ch.peer_write.is_some(), transferred: ch.transferred,
        }
    })
}

fn symbolise(raw: Vec<String>) -> Vec<String> {
    let mut map: BTreeMap<String, String> = BTreeMap::new();
    let mut nfut = 0usize;
    let sym = |map: &BTreeMap<String, String>, h: &str| map.get(h).cloned().unwrap_or_else(|| format!("?{h}"));
    let mut out = Vec::new();
    for t in raw {
        if let Some(rest) = t.strip_prefix("fnew=") {
            let (w, r) = rest.split_once(',').unwrap();
            map.insert(w.to_string(), format!("{nfut}w"));
            map.insert(r.to_string(), format!("{nfut}r"));
            out.push(format!("fnew:{nfut}"));
            nfut += 1;
        } else if let Some(h) = t.strip_prefix("take:") {
            out.push(format!("take:{}", sym(&map, h)));
            map.remove(h);
        } else if t.starts_with("fwrite:") || t.starts_with("fread:") || t.starts_with("fcancelw:") || t.starts_with("fcancelr:") {
            let (name, rest) = t.split_once(':').unwrap();
            let (h, c) = rest.split_once('=').unwrap();
            out.push(format!("{name}:{}={c}", sym(&map, h)));
        } else if t.starts_with("fdropw:") || t.starts_with("fdropr:") {
            let (name, h) = t.split_once(':').unwrap();
            out.push(format!("{name}:{}", sym(&map, h)));
            map.remove(h);
        } else if let Some(rest) = t.strip_prefix("join:") {
            let (w, s) = rest.split_once(':').unwrap();
            out.push(format!("join:{}:{}", sym(&map, w), if s == "0" { 0 } else { 1 }));
        } else if t.starts_with("wsnew=") {
            out.push("wsnew".into());
        } else if let Some(rest) = t.strip_prefix("wspoll:") {
            let (_, r) = rest.split_once('=').unwrap();
            let p: Vec<&str> = r.split(',').collect();
            out.push(format!("wspoll={},{},{}", p[0], if p[0] == "0" { "-".to_string() } else { sym(&map, p[1]) }, p[2]));
        } else if t.starts_with("treg:") || t.starts_with("tunreg:") {
            let p: Vec<&str> = t.split(':').collect();
            out.push(format!("{}:{}", p[0], sym(&map, p[2])));
        } else if t.starts_with("tclone:") {
            out.push("tclone".into());
        } else if t.starts_with("tdrop:") {
            out.push("tdrop".into());
        } else if t.starts_with("tdeliver:") {
            let p: Vec<&str> = t.split(':').collect();
            out.push(format!("tdeliver:{}:{}", sym(&map, p[2]), p[3]));
        } else if t.starts_with("area+") {
            out.push("area+".into());
        } else if t.starts_with("area-") && t != "area-?" {
            out.push("area-".into());
        } else {
            out.push(t);
        }
    }
    out
}

fn scenario(line: &str) -> String {
    alloc::watch(AREA);
    LIVE.with(|l| l.set(0));
    LOWERED.with(|l| l.borrow_mut().clear());
    DEFAULTS.with(|d| d.set(0));
    let mut toks = line.split_whitespace();
    // `v0` (probe only, not part of the model): the API calls are made with NO current task
    let (version, in_task) = match toks.next() {
        Some("v0") => (2, false),
        Some("v1") => (1, true),
        Some("v2") => (2, true),
        _ => return "BAD-INPUT".into(),
    };
    let task = drive::MockTask::new(1, version);
    let waker = Waker::from(Arc::new(LogWaker));
    let mut futs: Vec<AnyFut> = Vec::new();
    let mut panicked = false;
    for a in toks {
        host::log(format!(">{a}"));
        let parts: Vec<&str> = a.split(':').collect();
        let op = parts[0];
        let r = drive::catch(|| -> Out {
            match op {
                "N" | "I" => {
                    let imported = op == "I";
                    let f = task.enter(|| match parts.get(1).copied() {
                        Some("h") => AnyFut::H(new_fut::<Heap>(imported)),
                        _ => AnyFut::U(new_fut::<u32>(imported)),
                    });
                    futs.push(f);
                    Out::Done("ok".into())
                }
                "E" => {
                    let Some(spec) = parts.get(1) else { return Out::Skip };
                    let (fi, end) = spec.split_at(spec.len() - 1);
                    let Ok(fi) = fi.parse::<usize>() else { return Out::Skip };
                    if fi >= futs.len() { return Out::Skip; }
                    let v = view(fi);
                    let h = if end == "w" { v.w_handle } else { v.r_handle };
                    let (Some(h), Some(set)) = (h, task.set()) else { return Out::Skip };
                    let okk = host::with(|hh| hh.joined.get(&h) == Some(&set) && hh.ready.contains_key(&h));
                    if !okk { return Out::Skip; }
                    host::push_pick(h);
                    task.enter(|| {
                        let mut payload = [0u32; 2];
                        let ev = host::waitable_set_poll(set, &mut payload);
                        if ev != host::EVENT_NONE {
                            task.deliver(payload[0], payload[1]);
                        }
                    });
                    Out::Done("ok".into())
                }
                "Pr" | "Pd" | "Pw" => {
                    let Some(Ok(fi)) = parts.get(1).map(|s| s.parse::<usize>()) else { return Out::Skip };
                    if fi >= futs.len() { return Out::Skip; }
                    let v = view(fi);
                    let r_at_peer = v.r_handle.is_none() && !v.r_dropped;
                    let w_at_peer = v.w_handle.is_none() && !v.w_dropped;
                    match op {
                        "Pr" => {
                            if !r_at_peer || v.peer_read || v.transferred > 0 { return Out::Skip; }
                            host::peer_read(fi, 1);
                        }
                        "Pd" => {
                            if !r_at_peer { return Out::Skip; }
                            host::peer_drop_reader(fi);
                        }
                        _ => {
                            if !w_at_peer || v.peer_write || v.transferred > 0 { return Out::Skip; }
                            let val: u32 = parts.get(2).and_then(|s| s.parse().ok()).unwrap_or(0);
                            host::peer_write(fi, val.to_le_bytes().to_vec());
                        }
                    }
                    Out::Done("ok".into())
                }
                _ => {
                    let Some(Ok(fi)) = parts.get(1).map(|s| s.parse::<usize>()) else { return Out::Skip };
                    if fi >= futs.len() { return Out::Skip; }
                    let arg: u32 = parts.get(2).and_then(|s| s.parse().ok()).unwrap_or(0);
                    let mut go = || match &mut futs[fi] {
                        AnyFut::U(f) => f.act(op, arg, fi, &waker),
                        AnyFut::H(f) => f.act(op, arg, fi, &waker),
                    };
                    if in_task { task.enter(go) } else { go() }
                }
            }
        });
        match r {
            Ok(Out::Skip) => host::log("=skip"),
            Ok(Out::Done(s)) => {
                if !s.is_empty() {
                    host::log(format!("={s}"));
                }
            }
            Err(msg) => {
                host::log(format!("=PANIC:{}", msg.replace(' ', "_")));
                panicked = true;
                break;
            }
        }
    }
    // summary (everything measured on the real side)
    let nf = futs.len();
    let mut s = Vec::new();
    if panicked {
        // objects may be half-way through a transition: leak them rather than run more destructors
        for f in futs {
            match f {
                AnyFut::U(f) => f.forget(),
                AnyFut::H(f) => f.forget(),
            }
        }
        s.push("panicked".to_string());
    } else {
        let slots: usize = futs.iter().map(|f| match f {
            AnyFut::U(f) => f.writer.is_some() as usize + f.write.is_some() as usize + f.reader.is_some() as usize + f.read.is_some() as usize,
            AnyFut::H(f) => f.writer.is_some() as usize + f.write.is_some() as usize + f.reader.is_some() as usize + f.read.is_some() as usize,
        }).sum();
        s.push(format!("slots={slots}"));
        // whatever is still held is leaked here; a complete scenario ends with the clean-up actions
        for f in futs {
            match f {
                AnyFut::U(f) => f.forget(),
                AnyFut::H(f) => f.forget(),
            }
        }
    }
    let raw = host::take_log_with_allocs();
    let mut area: i64 = 0;
    for t in &raw {
        if t.starts_with("area+") { area += 1 } else if t.starts_with("area-") { area -= 1 }
    }
    let ends = host::with(|h| h.table.values().filter(|e| matches!(e, host::Entry::End(_))).count());
    s.push(format!("live={}", LIVE.with(|l| l.get())));
    s.push(format!("low={}", LOWERED.with(|l| l.borrow().len())));
    s.push(format!("area={area}"));
    s.push(format!("ends={ends}"));
    s.push(format!("map={}", task.registered().len()));
    s.push(format!("clones={}", task.clones()));
    s.push(format!("defaults={}", DEFAULTS.with(|d| d.get())));
    for c in 0..nf {
        let recv = host::with(|h| h.chans[c].peer_received.clone());
        let vals: Vec<String> = recv.chunks(4).map(|b| {
            let mut a = [0u8; 4];
            a[..b.len()].copy_from_slice(b);
            u32::from_le_bytes(a).to_string()
        }).collect();
        s.push(format!("peer:{c}={}", vals.join(",")));
    }
    format!("{} | {}", symbolise(raw).join(" "), s.join(" "))
}

fn main() {
    drive::run_lines(scenario);
}
