//! MockTask == SharedTaskState: the same sequence of task-C-ABI operations is applied to the REAL task
//! (`SharedTaskState::{cabi_waitable_register, cabi_waitable_unregister}` reached through the `wasip3_task`
//! the runtime installs while a `start_task` body runs, and `TaskState::deliver_waitable_event` reached
//! through `callback(event, w, code)`) and to the harness's `MockTask` (v2), and both traces are printed.
//! C18's model and tie use MockTask as the task; this driver justifies that substitution.
//!
//! Input line: operations `r<w>.<p>` register waitable index w with callback pointer id p, `u<w>` unregister,
//! `e<w>=<code>` the host delivers an event of waitable w.  Waitable index i is the i-th subtask created up
//! front (8 of them).  Index 0 is a sentinel that stays registered until the end (the default feature set
//! asserts that a sleeping task has a registered waitable).
//! Output: `real: <trace> ## mock: <trace>` where a trace lists host calls (`wsnew`, `join:..`), the
//! previous-pointer results (`prev=<p|null>`) and the callbacks invoked (`cb:<p>:<code>`).
use rtmock::drive::{self, MockTask, Wasip3Task, WakeCb};
use rtmock::host;
use std::cell::RefCell;
use std::collections::VecDeque;
use std::ffi::c_void;
use std::future::Future;
use std::pin::Pin;
use std::rc::Rc;
use std::task::{Context, Poll};
use wit_bindgen::rt::async_support as rt;

#[derive(Clone, Debug)]
enum Op {
    Reg(u32, usize),
    Unreg(u32),
    Event(u32, u32),
}

unsafe extern "C" fn cb(ptr: *mut c_void, code: u32) {
    host::log(format!("cb:{}:{code}", ptr as usize));
}

fn show_prev(p: *mut c_void) {
    host::log(if p.is_null() { "prev=null".to_string() } else { format!("prev={}", p as usize) });
}

/// Apply one register/unregister through a `wasip3_task` structure (real or mock).
unsafe fn apply(task: *mut Wasip3Task, op: &Op, handles: &[u32]) {
    match op {
        Op::Reg(w, p) => show_prev(((*task).waitable_register)((*task).ptr, handles[*w as usize], cb as WakeCb, *p as *mut c_void)),
        Op::Unreg(w) => show_prev(((*task).waitable_unregister)((*task).ptr, handles[*w as usize])),
        Op::Event(..) => unreachable!(),
    }
}

/// The body of the real task: each poll executes the queued register/unregister operations under the
/// task the runtime installed; finishes when told to.
struct Body {
    queue: Rc<RefCell<VecDeque<Op>>>,
    finish: Rc<RefCell<bool>>,
    handles: Vec<u32>,
}
impl Future for Body {
    type Output = ();
    fn poll(self: Pin<&mut Self>, _cx: &mut Context<'_>) -> Poll<()> {
        let task = host::wasip3_task_set(std::ptr::null_mut());
        host::wasip3_task_set(task);
        let ops: Vec<Op> = self.queue.borrow_mut().drain(..).collect();
        for op in ops {
            unsafe { apply(task.cast(), &op, &self.handles) };
        }
        if *self.finish.borrow() { Poll::Ready(()) } else { Poll::Pending }
    }
}

fn parse(line: &str) -> Vec<Op> {
    line.split_whitespace()
        .map(|t| {
            let b = &t[1..];
            match t.as_bytes()[0] {
                b'r' => { let (w, p) = b.split_once('.').unwrap(); Op::Reg(w.parse().unwrap(), p.parse().unwrap()) }
                b'u' => Op::Unreg(b.parse().unwrap()),
                b'e' => { let (w, c) = b.split_once('=').unwrap(); Op::Event(w.parse().unwrap(), c.parse().unwrap()) }
                _ => panic!("bad op {t}"),
            }
        })
        .collect()
}

fn keep(tok: &str) -> bool {
    tok.starts_with("wsnew") || tok.starts_with("join:") || tok.starts_with("prev=") || tok.starts_with("cb:") || tok.starts_with("TRAP")
}

fn run_real(ops: &[Op]) -> String {
    host::reset();
    let handles: Vec<u32> = (0..8).map(|_| host::subtask_new(host::STATUS_STARTING) >> 4).collect();
    let queue = Rc::new(RefCell::new(VecDeque::new()));
    let finish = Rc::new(RefCell::new(false));
    let mut started = false;
    let mut invoke = |event: Option<(u32, u32)>| {
        if !started {
            started = true;
            rt::start_task(Body { queue: queue.clone(), finish: finish.clone(), handles: handles.clone() });
        } else {
            match event {
                Some((w, c)) => unsafe { rt::callback(host::EVENT_SUBTASK, w, c) },
                None => unsafe { rt::callback(host::EVENT_NONE, 0, 0) },
            };
        }
    };
    queue.borrow_mut().push_back(Op::Reg(0, 1000));
    for op in ops {
        match op {
            Op::Event(w, c) => {
                invoke(None);                         // flush the queued register/unregister operations
                invoke(Some((handles[*w as usize], *c)));
            }
            _ => queue.borrow_mut().push_back(op.clone()),
        }
    }
    // tidy up: unregister everything and let the task exit
    for w in 0..8 {
        queue.borrow_mut().push_back(Op::Unreg(w));
    }
    *finish.borrow_mut() = true;
    invoke(None);
    host::take_log().into_iter().filter(|t| keep(t)).collect::<Vec<_>>().join(" ")
}

fn run_mock(ops: &[Op]) -> String {
    host::reset();
    let handles: Vec<u32> = (0..8).map(|_| host::subtask_new(host::STATUS_STARTING) >> 4).collect();
    let task = MockTask::new(0, 2);
    let with = |f: &dyn Fn(*mut Wasip3Task)| {
        task.enter(|| {
            let t = host::wasip3_task_set(std::ptr::null_mut());
            host::wasip3_task_set(t);
            f(t.cast())
        })
    };
    with(&|t| unsafe { apply(t, &Op::Reg(0, 1000), &handles) });
    for op in ops {
        match op {
            Op::Event(w, c) => {
                // deliver_waitable_event: join(w, 0), remove the entry (the real one unwraps it), call back
                let hw = handles[*w as usize];
                host::waitable_join(hw, 0);
                let e = task.0.borrow_mut().map.remove(&hw);
                let (f, p) = e.expect("event for an unregistered waitable");
                unsafe { f(p as *mut c_void, *c) };
            }
            _ => with(&|t| unsafe { apply(t, op, &handles) }),
        }
    }
    for w in 0..8 {
        with(&|t| unsafe { apply(t, &Op::Unreg(w), &handles) });
    }
    host::take_log().into_iter().filter(|t| keep(t)).collect::<Vec<_>>().join(" ")
}

fn main() {
    drive::run_lines(|line| {
        let ops = parse(line);
        let r = run_real(&ops);
        let m = run_mock(&ops);
        format!("real: {r} ## mock: {m}")
    });
}
