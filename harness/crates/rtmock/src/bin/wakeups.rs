//! C23 driver: cross-task wakeups of the REAL runtime (`SharedTaskState::wake_by_ref`,
//! `inter_task_wakeup::{read_inter_task_stream, cancel_inter_task_stream_read, consume_waitable_event,
//! WakerState::wake}`, the unit stream) under the mock host.  It is the scenario engine of `tasks.rs`
//! (same line grammar, same log; see there) restricted to builds with the `inter-task-wakeup` feature:
//! two tasks, bodies sleeping on Rust-only events, wakes from a body of the same task (`w<j>` step), from a
//! body of the other task, from outside every task (`w<j>` action), from inside a C-ABI waitable callback
//! (`k<j>` action), during polling and after exit/cancellation; the mock host logs every unit-stream call
//! (`snew=W,R sread:R:1=C swrite:W:1=C scancelr:R=C sdropr:R sdropw:W join:R:S`).
#[path = "tasks.rs"]
#[allow(dead_code)]
mod engine;

fn main() {
    if !cfg!(feature = "inter-task-wakeup") {
        eprintln!("wakeups: build with --features inter-task-wakeup");
        std::process::exit(2);
    }
    engine::main()
}
