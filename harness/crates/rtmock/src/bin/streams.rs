//! C19 driver: runs the REAL `StreamWriter` / `StreamReader` (+ `write_all`, `write_one`, `next`,
//! `collect`, the futures-stream adapter, `AbiBuffer`) of wit-bindgen's guest runtime against a
//! scripted stream host and prints everything observable, in order.
//!
//! Line in : `<s|m><c|l|h> act act …`  (grammar: ocaml/stream_driver.ml, model: coq/theories/Async/StreamOp.v)
//! Line out: one group of tokens per action, groups separated by ` | `, then
//!           `END lw=… lr=… areas=N err=B` | `INVALID@i` | `PANIC`.
//!
//! The stream host is local to this file (the rtmock library host carries no item values): the
//! vtable entry points below wrap `host::chan_*` (which keeps the handle table, the COPYING state,
//! the pending events and the traps), take the answer from this driver's script, and MOVE THE DATA
//! themselves: what they read at the pointer the runtime passed goes into a FIFO (`tw:`), what a
//! read is granted is taken from the FIFO and stored at the reader's pointer (`tr:`).
//!
//! Payloads: `c` = `u8` (lower/lift/dealloc_lists = None), `l` = `L` (lower+lift, no lists),
//! `h` = `H` (owns a heap list; lower moves it into a registry entry = "the lowered heap buffer",
//! dealloc_lists / lift remove the entry; a second release is logged as `de!:`/`li!:`, never UB).
//! Cleanup areas are recognised by the alignment (64) of the element layout of `L`/`H`.
use futures::stream::Stream;
use rtmock::{drive, host};
use std::alloc::{GlobalAlloc, Layout, System};
use std::cell::{Cell, RefCell};
use std::collections::{BTreeMap, VecDeque};
use std::future::Future;
use std::pin::Pin;
use std::sync::atomic::{AtomicUsize, Ordering::SeqCst};
use std::task::{Context, Poll};
use wit_bindgen::rt::async_support as rt;
use wit_bindgen::rt::async_support::{AbiBuffer, StreamReader, StreamResult, StreamVtable, StreamWriter};

// ------------------------------------------------------------------------------------------------
// allocator: records alloc/free of 64-aligned blocks (= Cleanup areas) with the host-log position
// ------------------------------------------------------------------------------------------------
struct AreaAlloc;
const CAP: usize = 8192;
const AREA_ALIGN: usize = 64;
static NEV: AtomicUsize = AtomicUsize::new(0);
static EV_KIND: [AtomicUsize; CAP] = [const { AtomicUsize::new(0) }; CAP];
static EV_POS: [AtomicUsize; CAP] = [const { AtomicUsize::new(0) }; CAP];
fn record(kind: usize) {
    let i = NEV.fetch_add(1, SeqCst);
    if i < CAP {
        EV_KIND[i].store(kind, SeqCst);
        EV_POS[i].store(rtmock::alloc::LOGLEN.load(SeqCst), SeqCst);
    }
}
unsafe impl GlobalAlloc for AreaAlloc {
    unsafe fn alloc(&self, l: Layout) -> *mut u8 {
        if l.align() == AREA_ALIGN { record(1); }
        System.alloc(l)
    }
    unsafe fn dealloc(&self, p: *mut u8, l: Layout) {
        if l.align() == AREA_ALIGN { record(2); }
        System.dealloc(p, l)
    }
}
#[global_allocator]
static A: AreaAlloc = AreaAlloc;
static PANIC_POS: AtomicUsize = AtomicUsize::new(usize::MAX);
static PANIC_NEV: AtomicUsize = AtomicUsize::new(usize::MAX);

// ------------------------------------------------------------------------------------------------
// scenario-global state of the local stream host and of the payload instrumentation
// ------------------------------------------------------------------------------------------------
#[derive(Clone)]
struct Item { id: u32, data: Vec<u8> }
struct RegEntry { id: u32, data: Vec<u8>, by_host: bool }
thread_local! {
    static PIPE: RefCell<VecDeque<Item>> = RefCell::new(VecDeque::new());
    static ANS: RefCell<VecDeque<u32>> = RefCell::new(VecDeque::new());
    static REG: RefCell<BTreeMap<u32, RegEntry>> = RefCell::new(BTreeMap::new());
    static NEXT_TOK: Cell<u32> = Cell::new(1);
    static QUIET: Cell<bool> = Cell::new(false);
    static ERR: Cell<bool> = Cell::new(false);
    static KIND: Cell<u8> = Cell::new(b'c');
}
fn note(s: String) {
    if !std::thread::panicking() { host::log(format!("@{s}")); }
}
fn quiet<R>(f: impl FnOnce() -> R) -> R {
    let p = QUIET.with(|q| q.replace(true));
    let r = f();
    QUIET.with(|q| q.set(p));
    r
}
fn expected_data(id: u32) -> Vec<u8> { vec![id as u8; (id % 4 + 1) as usize] }
fn ids(v: &[u32]) -> String { v.iter().map(|x| x.to_string()).collect::<Vec<_>>().join(",") }

trait Pay: Sized + 'static {
    const ELEM: usize;
    fn make(id: u32) -> Self;
    fn id(&self) -> u32;
    fn vtable() -> &'static StreamVtable<Self>;
}

// --- c: u8 ---------------------------------------------------------------------------------------
impl Pay for u8 {
    const ELEM: usize = 1;
    fn make(id: u32) -> u8 { id as u8 }
    fn id(&self) -> u32 { *self as u32 }
    fn vtable() -> &'static StreamVtable<u8> { &VT_C }
}
// --- l: lower/lift, no lists ---------------------------------------------------------------------
struct L(u32);
impl Drop for L {
    fn drop(&mut self) { if !QUIET.with(|q| q.get()) { note(format!("dv:{}", self.0)); } }
}
impl Pay for L {
    const ELEM: usize = 8;
    fn make(id: u32) -> L { L(id) }
    fn id(&self) -> u32 { self.0 }
    fn vtable() -> &'static StreamVtable<L> { &VT_L }
}
unsafe fn l_lower(v: L, dst: *mut u8) {
    let id = v.0;
    std::mem::forget(v);
    note(format!("lo:{id}"));
    (dst as *mut u32).write_unaligned(id);
    (dst as *mut u32).add(1).write_unaligned(0);
}
unsafe fn l_lift(src: *mut u8) -> L {
    let id = (src as *mut u32).read_unaligned();
    let tag = (src as *mut u32).add(1).read_unaligned();
    match tag {
        0 => note(format!("li:{id}")),
        1 => note(format!("lr:{id}")),
        _ => { ERR.with(|e| e.set(true)); note(format!("li!:{id}")) }
    }
    L(id)
}
// --- h: owns a heap list ---------------------------------------------------------------------------
struct H { id: u32, data: Vec<u8> }
impl Drop for H {
    fn drop(&mut self) {
        if !QUIET.with(|q| q.get()) {
            let ok = self.data == expected_data(self.id);
            note(format!("dv{}:{}", if ok { "" } else { "!" }, self.id));
        }
    }
}
impl Pay for H {
    const ELEM: usize = 8;
    fn make(id: u32) -> H { H { id, data: expected_data(id) } }
    fn id(&self) -> u32 { self.id }
    fn vtable() -> &'static StreamVtable<H> { &VT_H }
}
fn reg_insert(id: u32, data: Vec<u8>, by_host: bool) -> u32 {
    let t = NEXT_TOK.with(|n| { let t = n.get(); n.set(t + 1); t });
    REG.with(|r| r.borrow_mut().insert(t, RegEntry { id, data, by_host }));
    t
}
unsafe fn h_lower(v: H, dst: *mut u8) {
    let mut v = std::mem::ManuallyDrop::new(v);
    let id = v.id;
    let data = std::mem::take(&mut v.data);
    note(format!("lo:{id}"));
    let tok = reg_insert(id, data, false);
    (dst as *mut u32).write_unaligned(id);
    (dst as *mut u32).add(1).write_unaligned(tok);
}
unsafe fn h_dealloc(dst: *mut u8) {
    let id = (dst as *mut u32).read_unaligned();
    let tok = (dst as *mut u32).add(1).read_unaligned();
    match REG.with(|r| r.borrow_mut().remove(&tok)) {
        Some(e) if e.id == id && !e.by_host => note(format!("de:{id}")),
        _ => { ERR.with(|e| e.set(true)); note(format!("de!:{id}")) }
    }
}
unsafe fn h_lift(src: *mut u8) -> H {
    let id = (src as *mut u32).read_unaligned();
    let tok = (src as *mut u32).add(1).read_unaligned();
    match REG.with(|r| r.borrow_mut().remove(&tok)) {
        Some(e) if e.id == id => {
            note(format!("{}:{id}", if e.by_host { "lr" } else { "li" }));
            H { id, data: e.data }
        }
        _ => {
            ERR.with(|e| e.set(true));
            note(format!("li!:{id}"));
            H { id, data: expected_data(id) }
        }
    }
}

// ------------------------------------------------------------------------------------------------
// the local stream host: vtable entry points
// ------------------------------------------------------------------------------------------------
fn count_of(code: u32, limit: usize) -> usize {
    if code == host::BLOCKED || (code & 0xf) > 2 { 0 } else { ((code >> 4) as usize).min(limit) }
}
/// Read `k` items at `ptr` (canonical representation of the current payload kind) into the FIFO.
unsafe fn take_from_writer(ptr: *const u8, k: usize) {
    let kind = KIND.with(|c| c.get());
    let mut seen = Vec::new();
    for i in 0..k {
        let it = match kind {
            b'c' => { let b = *ptr.add(i); Item { id: b as u32, data: vec![] } }
            b'l' => { let id = (ptr.add(8 * i) as *const u32).read_unaligned(); Item { id, data: vec![] } }
            _ => {
                let id = (ptr.add(8 * i) as *const u32).read_unaligned();
                let tok = (ptr.add(8 * i) as *const u32).add(1).read_unaligned();
                let data = REG.with(|r| r.borrow().get(&tok).filter(|e| e.id == id).map(|e| e.data.clone()));
                match data {
                    Some(d) if d == expected_data(id) => Item { id, data: d },
                    _ => { ERR.with(|e| e.set(true)); note(format!("tw!:{id}")); Item { id, data: expected_data(id) } }
                }
            }
        };
        seen.push(it.id);
        PIPE.with(|p| p.borrow_mut().push_back(it));
    }
    if k > 0 { note(format!("tw:{}", ids(&seen))); }
}
/// Store up to `k` items from the FIFO at `ptr`; returns nothing (the count is the script's).
unsafe fn give_to_reader(ptr: *mut u8, k: usize) {
    let kind = KIND.with(|c| c.get());
    let mut given = Vec::new();
    for i in 0..k {
        let Some(it) = PIPE.with(|p| p.borrow_mut().pop_front()) else { break };
        given.push(it.id);
        match kind {
            b'c' => *ptr.add(i) = it.id as u8,
            b'l' => {
                (ptr.add(8 * i) as *mut u32).write_unaligned(it.id);
                (ptr.add(8 * i) as *mut u32).add(1).write_unaligned(1);
            }
            _ => {
                let tok = reg_insert(it.id, it.data, true);
                (ptr.add(8 * i) as *mut u32).write_unaligned(it.id);
                (ptr.add(8 * i) as *mut u32).add(1).write_unaligned(tok);
            }
        }
    }
    if !given.is_empty() { note(format!("tr:{}", ids(&given))); }
}
fn pop_ans(default: u32) -> u32 { ANS.with(|a| a.borrow_mut().pop_front()).unwrap_or(default) }
fn copying(handle: u32) -> Option<(usize, usize)> { host::with(|h| h.end_mut(handle).and_then(|e| e.copying)) }
fn event_pending(handle: u32) -> bool { host::with(|h| h.ready.contains_key(&handle)) }

unsafe extern "C" fn s_new() -> u64 { host::chan_new(false, 1) }
unsafe extern "C" fn s_write(s: u32, p: *const u8, n: usize) -> u32 {
    let a = pop_ans(host::BLOCKED);
    take_from_writer(p, count_of(a, n));
    host::push_answer(a);
    host::chan_write(s, p, n)
}
unsafe extern "C" fn s_read(s: u32, p: *mut u8, n: usize) -> u32 {
    let a = pop_ans(host::BLOCKED);
    give_to_reader(p, count_of(a, n));
    host::push_answer(a);
    host::chan_read(s, p, n)
}
unsafe extern "C" fn s_cancel_write(s: u32) -> u32 {
    if !event_pending(s) {
        let a = pop_ans(host::CANCELLED);
        if let Some((p, n)) = copying(s) { take_from_writer(p as *const u8, count_of(a, n)); }
        host::push_answer(a);
    }
    host::chan_cancel(s, true)
}
unsafe extern "C" fn s_cancel_read(s: u32) -> u32 {
    if !event_pending(s) {
        let a = pop_ans(host::CANCELLED);
        if let Some((p, n)) = copying(s) { give_to_reader(p as *mut u8, count_of(a, n)); }
        host::push_answer(a);
    }
    host::chan_cancel(s, false)
}
/// The two ends are decoupled here (what the other end sees is scripted): undo the DROPPED(0) event
/// the library host would put on an outstanding operation of the other end.
fn drop_end(s: u32, write: bool) {
    let before: Vec<u32> = host::with(|h| h.ready.keys().copied().collect());
    host::chan_drop(s, write);
    host::with(|h| h.ready.retain(|w, _| before.contains(w)));
}
unsafe extern "C" fn s_drop_w(s: u32) { drop_end(s, true) }
unsafe extern "C" fn s_drop_r(s: u32) { drop_end(s, false) }

static VT_C: StreamVtable<u8> = StreamVtable {
    layout: Layout::new::<u8>(), lower: None, dealloc_lists: None, lift: None,
    start_write: s_write, start_read: s_read, cancel_write: s_cancel_write, cancel_read: s_cancel_read,
    drop_writable: s_drop_w, drop_readable: s_drop_r, new: s_new,
};
static VT_L: StreamVtable<L> = StreamVtable {
    layout: unsafe { Layout::from_size_align_unchecked(8, AREA_ALIGN) },
    lower: Some(l_lower), dealloc_lists: None, lift: Some(l_lift),
    start_write: s_write, start_read: s_read, cancel_write: s_cancel_write, cancel_read: s_cancel_read,
    drop_writable: s_drop_w, drop_readable: s_drop_r, new: s_new,
};
static VT_H: StreamVtable<H> = StreamVtable {
    layout: unsafe { Layout::from_size_align_unchecked(8, AREA_ALIGN) },
    lower: Some(h_lower), dealloc_lists: Some(h_dealloc), lift: Some(h_lift),
    start_write: s_write, start_read: s_read, cancel_write: s_cancel_write, cancel_read: s_cancel_read,
    drop_writable: s_drop_w, drop_readable: s_drop_r, new: s_new,
};

// ------------------------------------------------------------------------------------------------
// scenario interpreter
// ------------------------------------------------------------------------------------------------
type BoxFut<O> = Pin<Box<dyn Future<Output = O>>>;
enum WFut<T: Pay> {
    Op(Pin<Box<rt::StreamWrite<'static, T>>>),
    All(BoxFut<Vec<T>>),
    One(BoxFut<Option<T>>),
}
enum RFut<T: Pay> {
    Op(Pin<Box<rt::StreamRead<'static, T>>>),
    Next(BoxFut<Option<T>>),
    Coll(BoxFut<Vec<T>>),
}
struct Sc<T: Pay> {
    task: drive::MockTask,
    tx: Option<*mut StreamWriter<T>>,
    wfut: Option<WFut<T>>,
    wbuf: Option<AbiBuffer<&'static StreamVtable<T>>>,
    rx: Option<*mut StreamReader<T>>,
    rfut: Option<RFut<T>>,
    rfut_owns_reader: bool,
    ad: Option<rt::StreamReaderStream<T>>,
    ad_gone: bool,
    rvec: Option<Vec<T>>,
    wh: u32,
    rh: u32,
    next: u32,
}

fn parse_ans(s: &str) -> u32 {
    let num = |k: u32| s[1..].parse::<u32>().unwrap().wrapping_mul(16).wrapping_add(k);
    match s.as_bytes()[0] {
        b'B' => host::BLOCKED,
        b'C' => num(0),
        b'D' => num(1),
        b'X' => num(2),
        b'#' => s[1..].parse::<u64>().unwrap() as u32,
        _ => panic!("bad answer {s}"),
    }
}
fn res_str(r: StreamResult) -> String {
    match r {
        StreamResult::Complete(n) => format!("C{n}"),
        StreamResult::Dropped => "D".into(),
        StreamResult::Cancelled => "X".into(),
    }
}
fn vec_ids<T: Pay>(v: &[T]) -> String { ids(&v.iter().map(|x| x.id()).collect::<Vec<_>>()) }
fn opt_id<T: Pay>(o: &Option<T>) -> String { o.as_ref().map(|x| x.id().to_string()).unwrap_or("-".into()) }

impl<T: Pay> Sc<T> {
    fn fresh(&mut self, n: usize) -> Vec<T> {
        let v: Vec<T> = (0..n).map(|i| T::make(self.next + i as u32)).collect();
        self.next += n as u32;
        v
    }
    fn writer(&self) -> Option<&'static mut StreamWriter<T>> { self.tx.map(|p| unsafe { &mut *p }) }
    fn reader(&self) -> Option<&'static mut StreamReader<T>> { self.rx.map(|p| unsafe { &mut *p }) }
    fn ad_live(&self) -> bool { self.ad.is_some() }
    fn plain_reader(&self) -> bool { self.rx.is_some() && self.rfut.is_none() }

    /// One action; `Err(())` = the action is not applicable in this state.
    fn act(&mut self, tok: &str) -> Result<(), ()> {
        let (head, ans) = match tok.split_once('=') {
            Some((h, a)) => (h, a.split(',').filter(|x| !x.is_empty()).map(parse_ans).collect::<Vec<_>>()),
            None => (tok, vec![]),
        };
        ANS.with(|q| { let mut q = q.borrow_mut(); q.clear(); q.extend(ans.iter().copied()); });
        let (_cw, waker) = drive::CountWaker::new();
        let task = self.task.clone();
        let w_idle = self.wfut.is_none() && self.wbuf.is_none();
        let r = task.enter(|| -> Result<(), ()> {
            let mut cx = Context::from_waker(&waker);
            match head {
                "wb" => {
                    let (Some(w), Some(b), true) = (self.writer(), self.wbuf.take(), self.wfut.is_none()) else { return Err(()) };
                    self.wfut = Some(WFut::Op(Box::pin(w.write_buf(b))));
                }
                "wo" => {
                    let (Some(w), true) = (self.writer(), w_idle) else { return Err(()) };
                    let v = self.fresh(1).pop().unwrap();
                    self.wfut = Some(WFut::One(Box::pin(w.write_one(v))));
                }
                "pw" => {
                    match self.wfut.take() {
                        None => return Err(()),
                        Some(WFut::Op(mut f)) => match f.as_mut().poll(&mut cx) {
                            Poll::Pending => self.wfut = Some(WFut::Op(f)),
                            Poll::Ready((r, b)) => {
                                drop(f);
                                note(format!("W:{}:{}", res_str(r), b.remaining()));
                                self.wbuf = Some(b);
                            }
                        },
                        Some(WFut::All(mut f)) => match f.as_mut().poll(&mut cx) {
                            Poll::Pending => self.wfut = Some(WFut::All(f)),
                            Poll::Ready(v) => { drop(f); note(format!("all:{}", vec_ids(&v))); quiet(|| drop(v)); }
                        },
                        Some(WFut::One(mut f)) => match f.as_mut().poll(&mut cx) {
                            Poll::Pending => self.wfut = Some(WFut::One(f)),
                            Poll::Ready(v) => { drop(f); note(format!("one:{}", opt_id(&v))); quiet(|| drop(v)); }
                        },
                    }
                }
                "ew" => {
                    let (Some((p, n)), false, 1) = (copying(self.wh), event_pending(self.wh), ans.len()) else { return Err(()) };
                    unsafe { take_from_writer(p as *const u8, count_of(ans[0], n)) };
                    host::set_event(self.wh, ans[0]);
                }
                "vw" | "vr" => {
                    let h = if head == "vw" { self.wh } else { self.rh };
                    let (true, Some(set)) = (event_pending(h), task.set()) else { return Err(()) };
                    host::push_pick(h);
                    let mut payload = [0u32; 2];
                    host::waitable_set_poll(set, &mut payload);
                    if payload[0] != h || !task.deliver(payload[0], payload[1]) { note("undelivered!".into()); }
                }
                "cw" => {
                    let Some(WFut::Op(mut f)) = self.wfut.take() else { return Err(()) };
                    let (r, b) = f.as_mut().cancel();
                    drop(f);
                    note(format!("W:{}:{}", res_str(r), b.remaining()));
                    self.wbuf = Some(b);
                }
                "xw" => {
                    let Some(f) = self.wfut.take() else { return Err(()) };
                    drop(f);
                }
                "bv" => {
                    let Some(b) = self.wbuf.take() else { return Err(()) };
                    let v = b.into_vec();
                    note(format!("ret:{}", vec_ids(&v)));
                    quiet(|| drop(v));
                }
                "bd" => {
                    let Some(b) = self.wbuf.take() else { return Err(()) };
                    drop(b);
                }
                "dw" => {
                    let (Some(p), true) = (self.tx, self.wfut.is_none()) else { return Err(()) };
                    self.tx = None;
                    drop(unsafe { Box::from_raw(p) });
                }
                "nx" => {
                    let (Some(r), true) = (self.reader(), self.plain_reader()) else { return Err(()) };
                    self.rfut = Some(RFut::Next(Box::pin(r.next())));
                }
                "col" => {
                    let (Some(p), true) = (self.rx, self.plain_reader()) else { return Err(()) };
                    let r = unsafe { *Box::from_raw(p) };
                    self.rx = None;
                    self.rfut_owns_reader = true;
                    self.rfut = Some(RFut::Coll(Box::pin(r.collect())));
                }
                "ad" => {
                    let (Some(p), true) = (self.rx, self.plain_reader()) else { return Err(()) };
                    let r = unsafe { *Box::from_raw(p) };
                    self.rx = None;
                    self.ad = Some(r.into_stream());
                }
                "pr" => {
                    match self.rfut.take() {
                        Some(RFut::Op(mut f)) => match f.as_mut().poll(&mut cx) {
                            Poll::Pending => self.rfut = Some(RFut::Op(f)),
                            Poll::Ready((r, v)) => {
                                drop(f);
                                note(format!("R:{}:{}", res_str(r), vec_ids(&v)));
                                self.rvec = Some(v);
                            }
                        },
                        Some(RFut::Next(mut f)) => match f.as_mut().poll(&mut cx) {
                            Poll::Pending => self.rfut = Some(RFut::Next(f)),
                            Poll::Ready(v) => { drop(f); note(format!("nx:{}", opt_id(&v))); quiet(|| drop(v)); }
                        },
                        Some(RFut::Coll(mut f)) => match f.as_mut().poll(&mut cx) {
                            Poll::Pending => self.rfut = Some(RFut::Coll(f)),
                            Poll::Ready(v) => {
                                drop(f);
                                self.rfut_owns_reader = false;
                                note(format!("col:{}", vec_ids(&v)));
                                quiet(|| drop(v));
                            }
                        },
                        None => {
                            let Some(ad) = self.ad.as_mut() else { return Err(()) };
                            match Pin::new(ad).poll_next(&mut cx) {
                                Poll::Pending => {}
                                Poll::Ready(v) => { note(format!("sn:{}", opt_id(&v))); quiet(|| drop(v)); }
                            }
                        }
                    }
                }
                "er" => {
                    let (Some((p, n)), false, 1) = (copying(self.rh), event_pending(self.rh), ans.len()) else { return Err(()) };
                    unsafe { give_to_reader(p as *mut u8, count_of(ans[0], n)) };
                    host::set_event(self.rh, ans[0]);
                }
                "cr" => {
                    let Some(RFut::Op(mut f)) = self.rfut.take() else { return Err(()) };
                    let (r, v) = f.as_mut().cancel();
                    drop(f);
                    note(format!("R:{}:{}", res_str(r), vec_ids(&v)));
                    self.rvec = Some(v);
                }
                "xr" => {
                    if let Some(f) = self.rfut.take() {
                        drop(f);
                        self.rfut_owns_reader = false;
                    } else if let Some(ad) = self.ad.take() {
                        drop(ad);
                        self.ad_gone = true;
                    } else {
                        return Err(());
                    }
                }
                "rv" => {
                    let Some(v) = self.rvec.take() else { return Err(()) };
                    note(format!("got:{}", vec_ids(&v)));
                    quiet(|| drop(v));
                }
                "dr" => {
                    let (Some(p), true) = (self.rx, self.plain_reader()) else { return Err(()) };
                    self.rx = None;
                    drop(unsafe { Box::from_raw(p) });
                }
                _ => {
                    if let Some(n) = head.strip_prefix("wa") {
                        let (Some(w), true) = (self.writer(), w_idle) else { return Err(()) };
                        let v = self.fresh(n.parse().map_err(|_| ())?);
                        self.wfut = Some(WFut::All(Box::pin(w.write_all(v))));
                    } else if let Some(n) = head.strip_prefix('w') {
                        let (Some(w), true) = (self.writer(), w_idle) else { return Err(()) };
                        let v = self.fresh(n.parse().map_err(|_| ())?);
                        self.wfut = Some(WFut::Op(Box::pin(w.write(v))));
                    } else if let Some(n) = head.strip_prefix('r') {
                        let (Some(r), true) = (self.reader(), self.plain_reader()) else { return Err(()) };
                        let cap: usize = n.parse().map_err(|_| ())?;
                        let old = self.rvec.take().unwrap_or_default();
                        let mut v: Vec<T> = Vec::with_capacity(old.len() + cap);
                        v.extend(old);
                        if v.capacity() - v.len() != cap { note("cap!".into()); }
                        self.rfut = Some(RFut::Op(Box::pin(r.read(v))));
                    } else {
                        return Err(());
                    }
                }
            }
            Ok(())
        });
        ANS.with(|q| q.borrow_mut().clear());
        r
    }

    fn wrapup(&self) -> Vec<&'static str> {
        let mut v = Vec::new();
        if self.wfut.is_some() { v.push("xw"); }
        if self.wbuf.is_some() { v.push("bd"); }
        if self.tx.is_some() { v.push("dw"); }
        if self.rfut.is_some() || self.ad_live() { v.push("xr"); }
        if self.rvec.is_some() { v.push("rv"); }
        if self.rx.is_some() { v.push("dr"); }
        v
    }
}

/// Host log -> output tokens (own observations are marked with '@', stream intrinsics are renamed,
/// traps are kept, everything else — sets, joins, task bookkeeping — belongs to C18 and is dropped).
fn render(tok: &str) -> Option<String> {
    if let Some(t) = tok.strip_prefix('@') { return Some(t.to_string()); }
    if tok.starts_with("TRAP:") { return Some(tok.to_string()); }
    let rest = |p: &str| tok.strip_prefix(p).and_then(|r| r.split_once(|c| c == ':' || c == '=').map(|(_, x)| x.to_string()));
    if tok.starts_with("swrite:") { return rest("swrite:").map(|x| format!("sw:{x}")); }
    if tok.starts_with("sread:") { return rest("sread:").map(|x| format!("sr:{x}")); }
    if tok.starts_with("scancelw:") { return rest("scancelw:").map(|x| format!("cw={x}")); }
    if tok.starts_with("scancelr:") { return rest("scancelr:").map(|x| format!("cr={x}")); }
    if tok.starts_with("sdropw:") { return Some("dw".into()); }
    if tok.starts_with("sdropr:") { return Some("dr".into()); }
    None
}

fn scenario<T: Pay>(acts: &[&str]) -> String {
    let (tx, rx) = unsafe { rt::stream_new(T::vtable()) };
    let (wh, rh) = (tx.handle(), rx.handle());
    let mut sc: Sc<T> = Sc {
        task: drive::MockTask::new(1, 2),
        tx: Some(Box::into_raw(Box::new(tx))), wfut: None, wbuf: None,
        rx: Some(Box::into_raw(Box::new(rx))), rfut: None, rfut_owns_reader: false, ad: None, ad_gone: false, rvec: None,
        wh, rh, next: 0,
    };
    let mut fin = String::new();
    let r = drive::catch(|| {
        let mut i = 0;
        for a in acts {
            if sc.act(a).is_err() { fin = format!("INVALID@{i}"); return; }
            host::log("@|");
            i += 1;
        }
        for a in sc.wrapup() {
            if sc.act(a).is_err() { fin = format!("INVALID@{i}"); return; }
            host::log("@|");
            i += 1;
        }
    });
    let panicked = r.is_err();
    let cut = if panicked { PANIC_POS.load(SeqCst) } else { usize::MAX };
    // whatever is still alive is released without being observed
    quiet(|| {
        let t = sc.task.clone();
        t.enter(|| {
            sc.wfut = None; sc.wbuf = None; sc.rfut = None; sc.ad = None; sc.rvec = None;
            if let Some(p) = sc.tx.take() { drop(unsafe { Box::from_raw(p) }); }
            if let Some(p) = sc.rx.take() { drop(unsafe { Box::from_raw(p) }); }
        })
    });
    // merge the area events into the log
    // area events recorded before the panic hook ran happened before the panic; later ones are unwinding
    let nev = NEV.load(SeqCst).min(CAP).min(if panicked { PANIC_NEV.load(SeqCst) } else { usize::MAX });
    let evs: Vec<(usize, usize)> = (0..nev).map(|i| (EV_KIND[i].load(SeqCst), EV_POS[i].load(SeqCst))).collect();
    let mut log = host::take_log();
    if cut < log.len() { log.truncate(cut); }
    let mut out: Vec<String> = Vec::new();
    let mut ei = 0;
    let mut live_areas: i64 = 0;
    for pos in 0..=log.len() {
        while ei < evs.len() && evs[ei].1 <= pos {
            if evs[ei].0 == 1 { out.push("a+".into()); live_areas += 1 } else { out.push("a-".into()); live_areas -= 1 }
            ei += 1;
        }
        if pos < log.len() { if let Some(t) = render(&log[pos]) { out.push(t); } }
    }
    if panicked { fin = "PANIC".into(); }
    if fin.is_empty() {
        let (mut lw, mut lr) = (Vec::new(), Vec::new());
        REG.with(|r| for e in r.borrow().values() { if e.by_host { lr.push(e.id) } else { lw.push(e.id) } });
        fin = format!("END lw={} lr={} areas={} err={}", ids(&lw), ids(&lr), live_areas, ERR.with(|e| e.get()));
    }
    // groups
    let mut groups: Vec<Vec<String>> = vec![vec![]];
    for t in out { if t == "|" { groups.push(vec![]) } else { groups.last_mut().unwrap().push(t) } }
    if !panicked && groups.last().map(|g| g.is_empty()).unwrap_or(false) { groups.pop(); }
    let mut parts: Vec<String> = groups.iter().map(|g| g.join(" ")).collect();
    parts.push(fin);
    parts.join(" | ")
}

fn main() {
    let mut hooked = false;
    drive::run_lines(|line| {
        if !hooked {
            hooked = true;
            let quiet_hook = std::env::var_os("RTMOCK_DEBUG").is_none();
            std::panic::set_hook(Box::new(move |info| {
                PANIC_POS.store(rtmock::alloc::LOGLEN.load(SeqCst), SeqCst);
                PANIC_NEV.store(NEV.load(SeqCst), SeqCst);
                // answers scripted for the panicking action must not leak into the intrinsics that unwinding runs
                ANS.with(|a| if let Ok(mut a) = a.try_borrow_mut() { a.clear() });
                if !quiet_hook { eprintln!("{info}"); }
            }));
        }
        let toks: Vec<&str> = line.split_whitespace().collect();
        let Some(hd) = toks.first() else { return "EMPTY".into() };
        let kind = hd.as_bytes()[1];
        PIPE.with(|p| p.borrow_mut().clear());
        ANS.with(|p| p.borrow_mut().clear());
        REG.with(|p| p.borrow_mut().clear());
        NEXT_TOK.with(|n| n.set(1));
        QUIET.with(|q| q.set(false));
        ERR.with(|q| q.set(false));
        KIND.with(|k| k.set(kind));
        NEV.store(0, SeqCst);
        PANIC_POS.store(usize::MAX, SeqCst);
        PANIC_NEV.store(usize::MAX, SeqCst);
        match kind {
            b'c' => scenario::<u8>(&toks[1..]),
            b'l' => scenario::<L>(&toks[1..]),
            _ => scenario::<H>(&toks[1..]),
        }
    });
}
