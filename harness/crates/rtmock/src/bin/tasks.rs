//! C22 / C23 driver: the REAL export task executor of `wit_bindgen::rt::async_support`
//! (`start_task`, `callback`, `block_on`, `spawn_local`, `yield_async`, `TaskCancelOnDrop`, and through them
//! `TaskState`, `SharedTaskState`, `spawn::Tasks`, `inter_task_wakeup`) driven against the mock host.
//!
//! One scenario per stdin line, five `;`-separated sections:
//!   `<feat> <mode> ; <ops> ; <bodies> ; <roots> ; <actions>`
//!   feat     d | s | i | a   = cargo features {default, async-spawn, inter-task-wakeup, both} (must match
//!                              this build, otherwise the answer is `SKIP`)
//!   mode     S = start_task/callback driver (the harness plays the host), B = block_on
//!   ops      operation table, index = position: sub (import call, answers STARTED) sub0 (STARTING)
//!            subI (RETURNED at once)  sr sw fr fw (stream/future read/write, peer holds the other end)
//!            srI swI frI fwI (the peer is already waiting: completes at once)
//!   bodies   body table, index = position, each `step,step,…` or `-`:  a<k> await op k | y yield_async |
//!            s<b> spawn_local(body b) | f<j> await Rust-only event j | w<j> signal event j |
//!            j<k>.<j> await op k and event j concurrently | c read context slot 0 |
//!            g<k> start op k, poll it once and leak it (its waitable stays registered)
//!   roots    root body of task 0, 1, …
//!   actions  S mode: s<t> start_task | n<t> callback(NONE) | e<t> poll the set of the last Wait code and
//!            deliver the answer | x<t> callback(CANCEL) | R<t>.<e0>.<e1>.<e2> raw callback;
//!            host side (S mode: performed in place; B mode: one per `on_block`, then an implicit fair tail):
//!            r<i> complete the i-th pending op | d<i> peer drops its end | p<i> STARTING -> STARTED |
//!            w<j> signal event j from outside every task | k<j> the same from inside a C-ABI waitable
//!            callback (extern "C" frame) | z drop all stored wakers
//! Output: the host log with the driver's observations in the same total order
//!   `>start:T tnew:T tfree:T start:T=CODE cb:T:E0,E1,E2=CODE bon:T spawn:B bfin:B bdrop:B treturn:B
//!    op:K opdone:K call:K=PACKED lift:K fwait:J:B wflag:J xwake:J kwake:J ystep:B` and `PANIC:<message>` if the runtime panicked.
//! (`tnew`/`tfree` = allocation / release of the `Box<TaskState>`, found by address through `WatchAlloc`.)
use rtmock::{alloc, drive, host};
use std::alloc::Layout;
use std::cell::RefCell;
use std::collections::VecDeque;
use std::future::{Future, IntoFuture};
use std::pin::Pin;
use std::task::{Context, Poll, Waker};
use wit_bindgen::rt::async_support as rt;

#[global_allocator]
static A: alloc::WatchAlloc = alloc::WatchAlloc;

#[derive(Clone, Copy, PartialEq, Debug)]
enum Kind { Sub, SRead, SWrite, FRead, FWrite }

#[derive(Clone, Copy)]
struct OpDecl { kind: Kind, imm: bool, starting: bool }

#[derive(Clone, Copy, Debug)]
enum Step { Await(usize), Yield, Spawn(usize), Flag(u32), Wake(u32), Join(usize, u32), Ctx, Detach(usize) }

#[derive(Clone, Copy, Debug)]
enum Action { Start(u32), None_(u32), Event(u32), Cancel(u32), Resolve(usize), DropPeer(usize), Progress(usize), Wake(u32), WakeC(u32), Raw(u32, u32, u32, u32), Cleanup }

#[derive(Clone, Copy, Default)]
struct OpRt { started: bool, finished: bool, w: u32, chan: usize }

#[derive(Default)]
struct Harness {
    start_mode: bool,
    ops: Vec<OpDecl>,
    bodies: Vec<Vec<Step>>,
    roots: Vec<usize>,
    oprt: Vec<OpRt>,
    flags: Vec<u32>,
    waiters: Vec<(u32, u32, Waker)>,
    script: VecDeque<Action>,
    deadlocks: u32,
    lastset: Vec<Option<u32>>,
    /// 0 = never started, 1 = alive, 2 = exited
    life: Vec<u8>,
    /// body ids whose future has been created (a body is spawned/started at most once)
    created: Vec<usize>,
}

thread_local! {
    static H: RefCell<Harness> = RefCell::new(Harness::default());
}

fn hw<R>(f: impl FnOnce(&mut Harness) -> R) -> R {
    H.with(|h| f(&mut h.borrow_mut()))
}

const FEAT: &str = if cfg!(feature = "async-spawn") {
    if cfg!(feature = "inter-task-wakeup") { "a" } else { "s" }
} else if cfg!(feature = "inter-task-wakeup") { "i" } else { "d" };

// ---------------------------------------------------------------------------------------------
// Operations
// ---------------------------------------------------------------------------------------------
struct Call { k: usize, imm: bool, starting: bool }
unsafe impl rt::Subtask for Call {
    type Params = ();
    type ParamsLower = ();
    type Results = ();
    fn abi_layout(&mut self) -> Layout { Layout::from_size_align(0, 1).unwrap() }
    fn results_offset(&mut self) -> usize { 0 }
    unsafe fn call_import(&mut self, _p: (), _results: *mut u8) -> u32 {
        let packed = if self.imm { host::STATUS_RETURNED } else {
            host::subtask_new(if self.starting { host::STATUS_STARTING } else { host::STATUS_STARTED })
        };
        let k = self.k;
        hw(|h| { h.oprt[k].started = true; h.oprt[k].w = packed >> 4; });
        host::log(format!("call:{k}={packed}"));
        packed
    }
    unsafe fn params_lower(&mut self, _p: (), _dst: *mut u8) {}
    unsafe fn params_dealloc_lists(&mut self, _l: ()) {}
    unsafe fn params_dealloc_lists_and_own(&mut self, _l: ()) {}
    unsafe fn results_lift(&mut self, _src: *mut u8) { host::log(format!("lift:{}", self.k)) }
}

static SVT: rt::StreamVtable<u8> = rt::StreamVtable {
    layout: Layout::new::<u8>(),
    lower: None, dealloc_lists: None, lift: None,
    start_write: host::StreamFns::<1>::write, start_read: host::StreamFns::<1>::read,
    cancel_write: host::StreamFns::<1>::cancel_write, cancel_read: host::StreamFns::<1>::cancel_read,
    drop_writable: host::StreamFns::<1>::drop_writable, drop_readable: host::StreamFns::<1>::drop_readable,
    new: host::StreamFns::<1>::new,
};

unsafe fn f_lower(v: u8, dst: *mut u8) { *dst = v }
unsafe fn f_dealloc(_dst: *mut u8) {}
unsafe fn f_lift(src: *mut u8) -> u8 { *src }
static FVT: rt::FutureVtable<u8> = rt::FutureVtable {
    layout: Layout::new::<u8>(),
    lower: f_lower, dealloc_lists: f_dealloc, lift: f_lift,
    start_write: host::FutureFns::<1>::write, start_read: host::FutureFns::<1>::read,
    cancel_write: host::FutureFns::<1>::cancel_write, cancel_read: host::FutureFns::<1>::cancel_read,
    drop_writable: host::FutureFns::<1>::drop_writable, drop_readable: host::FutureFns::<1>::drop_readable,
    new: host::FutureFns::<1>::new,
};

/// marks the operation finished when the await ends, normally or by being dropped
struct Fin(usize);
impl Drop for Fin {
    fn drop(&mut self) {
        let k = self.0;
        let _ = H.try_with(|h| if let Ok(mut h) = h.try_borrow_mut() { h.oprt[k].finished = true; });
    }
}

/// handles of the channel created last: (chan, writer, reader)
fn last_chan() -> (usize, u32, u32) {
    host::with(|h| {
        let c = h.chans.len() - 1;
        (c, h.chans[c].w_handle.unwrap(), h.chans[c].r_handle.unwrap())
    })
}

/// an operation id is used by at most one await
fn op_fresh(k: usize) -> bool {
    hw(|h| k < h.ops.len() && !h.oprt[k].started)
}

async fn await_op(k: usize) {
    let d = hw(|h| { h.oprt[k].started = true; h.ops[k] });
    host::log(format!("op:{k}"));
    {
        let _fin = Fin(k);
        match d.kind {
            Kind::Sub => {
                let mut c = Call { k, imm: d.imm, starting: d.starting };
                rt::Subtask::call(&mut c, ()).await;
            }
            Kind::SRead => {
                let (tx, mut rx) = unsafe { rt::stream_new(&SVT) };
                let (chan, wh, rh) = last_chan();
                host::peer_take(wh);
                std::mem::forget(tx);
                hw(|h| { h.oprt[k].w = rh; h.oprt[k].chan = chan; });
                if d.imm { host::peer_write(chan, vec![7]); }
                let _ = rx.read(Vec::with_capacity(1)).await;
            }
            Kind::SWrite => {
                let (mut tx, rx) = unsafe { rt::stream_new(&SVT) };
                let (chan, wh, rh) = last_chan();
                host::peer_take(rh);
                rx.take_handle();
                drop(rx);
                hw(|h| { h.oprt[k].w = wh; h.oprt[k].chan = chan; });
                if d.imm { host::peer_read(chan, 1); }
                let _ = tx.write(vec![7]).await;
            }
            Kind::FRead => {
                let (tx, rx) = unsafe { rt::future_new(|| 0u8, &FVT) };
                let (chan, wh, rh) = last_chan();
                host::peer_take(wh);
                std::mem::forget(tx);
                hw(|h| { h.oprt[k].w = rh; h.oprt[k].chan = chan; });
                if d.imm { host::peer_write(chan, vec![7]); }
                let _ = rx.into_future().await;
            }
            Kind::FWrite => {
                let (tx, rx) = unsafe { rt::future_new(|| 0u8, &FVT) };
                let (chan, wh, rh) = last_chan();
                host::peer_take(rh);
                rx.take_handle();
                drop(rx);
                hw(|h| { h.oprt[k].w = wh; h.oprt[k].chan = chan; });
                if d.imm { host::peer_read(chan, 1); }
                let _ = tx.write(7).await;
            }
        }
    }
    host::log(format!("opdone:{k}"));
}

// ---------------------------------------------------------------------------------------------
// Rust-only events
// ---------------------------------------------------------------------------------------------
struct FlagFut { j: u32, b: u32 }
impl Future for FlagFut {
    type Output = ();
    fn poll(self: Pin<&mut Self>, cx: &mut Context<'_>) -> Poll<()> {
        let (j, b) = (self.j, self.b);
        if hw(|h| h.flags.contains(&j)) {
            return Poll::Ready(());
        }
        host::log(format!("fwait:{j}:{b}"));
        let w = cx.waker().clone();
        let old = hw(|h| {
            let old = h.waiters.iter().position(|x| x.0 == j && x.1 == b).map(|i| h.waiters.remove(i));
            h.waiters.push((j, b, w));
            old
        });
        drop(old);
        Poll::Pending
    }
}

fn signal_flag(j: u32) {
    hw(|h| if !h.flags.contains(&j) { h.flags.push(j) });
    loop {
        let w = hw(|h| h.waiters.iter().position(|x| x.0 == j).map(|i| h.waiters.remove(i)));
        match w {
            Some((_, _, w)) => w.wake(),
            None => break,
        }
    }
}

/// a C-ABI waitable callback (`callback(callback_ptr, code)`) whose effect is to signal event `code`:
/// the wake happens inside an `extern "C"` frame (a runtime panic there aborts the process)
unsafe extern "C" fn relay_cb(_ptr: *mut std::ffi::c_void, code: u32) {
    signal_flag(code)
}

fn cleanup_wakers() {
    loop {
        let w = hw(|h| if h.waiters.is_empty() { None } else { Some(h.waiters.remove(0)) });
        match w {
            Some(w) => drop(w),
            None => break,
        }
    }
}

struct Join2 { a: Option<Pin<Box<dyn Future<Output = ()>>>>, b: Option<FlagFut> }
impl Future for Join2 {
    type Output = ();
    fn poll(mut self: Pin<&mut Self>, cx: &mut Context<'_>) -> Poll<()> {
        if let Some(a) = self.a.as_mut() {
            if a.as_mut().poll(cx).is_ready() { self.a = None; }
        }
        if let Some(b) = self.b.as_mut() {
            if Pin::new(b).poll(cx).is_ready() { self.b = None; }
        }
        if self.a.is_none() && self.b.is_none() { Poll::Ready(()) } else { Poll::Pending }
    }
}

/// Polls the operation once and, if it is still pending, leaks it: its waitable stays registered with
/// the task (completion pointer into the leaked future) although no Rust work waits for it.
struct Detach { fut: Option<Pin<Box<dyn Future<Output = ()>>>> }
impl Future for Detach {
    type Output = ();
    fn poll(mut self: Pin<&mut Self>, cx: &mut Context<'_>) -> Poll<()> {
        if let Some(mut f) = self.fut.take() {
            if f.as_mut().poll(cx).is_pending() { std::mem::forget(f); }
        }
        Poll::Ready(())
    }
}

// ---------------------------------------------------------------------------------------------
// Bodies
// ---------------------------------------------------------------------------------------------
struct DropLog(u32);
impl Drop for DropLog {
    fn drop(&mut self) { host::log(format!("bdrop:{}", self.0)) }
}

/// field order = drop order: the async block (its pending await, `TaskCancelOnDrop`) first, then the note
struct BodyFut { inner: Pin<Box<dyn Future<Output = ()>>>, _guard: DropLog }
impl Future for BodyFut {
    type Output = ();
    fn poll(mut self: Pin<&mut Self>, cx: &mut Context<'_>) -> Poll<()> { self.inner.as_mut().poll(cx) }
}

#[cfg(feature = "async-spawn")]
fn do_spawn(b: usize) { wit_bindgen::spawn_local(body(b, false)) }
#[cfg(not(feature = "async-spawn"))]
fn do_spawn(_b: usize) {}

fn body(b: usize, root: bool) -> BodyFut {
    let (steps, start_mode) = hw(|h| (h.bodies.get(b).cloned().unwrap_or_default(), h.start_mode));
    let bid = b as u32;
    let inner = async move {
        // what the generated export glue does around the user's function
        let tc = if root && start_mode { Some(rt::TaskCancelOnDrop::new()) } else { None };
        for s in steps {
            match s {
                Step::Await(k) => if op_fresh(k) { await_op(k).await },
                Step::Yield => { host::log(format!("ystep:{bid}")); wit_bindgen::yield_async().await }
                Step::Spawn(b2) => if cfg!(feature = "async-spawn") && !hw(|h| h.created.contains(&b2)) {
                    host::log(format!("spawn:{b2}"));
                    hw(|h| h.created.push(b2));
                    do_spawn(b2)
                }
                Step::Flag(j) => FlagFut { j, b: bid }.await,
                Step::Wake(j) => { host::log(format!("wflag:{j}")); signal_flag(j) }
                Step::Join(k, j) => {
                    let a: Option<Pin<Box<dyn Future<Output = ()>>>> = if op_fresh(k) { Some(Box::pin(await_op(k))) } else { None };
                    Join2 { a, b: Some(FlagFut { j, b: bid }) }.await
                }
                Step::Ctx => { host::context_get_0(); }
                Step::Detach(k) => if op_fresh(k) { Detach { fut: Some(Box::pin(await_op(k))) }.await },
            }
        }
        if let Some(tc) = tc {
            host::log(format!("treturn:{bid}"));
            tc.forget();
        }
        host::log(format!("bfin:{bid}"));
    };
    BodyFut { inner: Box::pin(inner), _guard: DropLog(bid) }
}

// ---------------------------------------------------------------------------------------------
// Host-side progress
// ---------------------------------------------------------------------------------------------
fn eligible() -> Vec<usize> {
    let rt: Vec<OpRt> = hw(|h| h.oprt.clone());
    host::with(|h| {
        (0..rt.len()).filter(|&k| rt[k].started && !rt[k].finished && h.joined.contains_key(&rt[k].w) && !h.ready.contains_key(&rt[k].w)).collect()
    })
}

fn pick(i: usize) -> Option<(usize, OpRt, Kind)> {
    let el = eligible();
    if el.is_empty() { return None; }
    let k = el[i % el.len()];
    Some(hw(|h| (k, h.oprt[k], h.ops[k].kind)))
}

fn host_action(a: Action) {
    match a {
        Action::Resolve(i) => if let Some((_, o, kind)) = pick(i) {
            match kind {
                Kind::Sub => host::set_event(o.w, host::STATUS_RETURNED),
                Kind::SRead | Kind::FRead => host::peer_write(o.chan, vec![7]),
                Kind::SWrite | Kind::FWrite => host::peer_read(o.chan, 1),
            }
        },
        Action::DropPeer(i) => if let Some((_, o, kind)) = pick(i) {
            match kind {
                Kind::SRead => host::peer_drop_writer(o.chan),
                Kind::SWrite | Kind::FWrite => host::peer_drop_reader(o.chan),
                _ => {}
            }
        },
        Action::Progress(i) => if let Some((_, o, kind)) = pick(i) {
            let starting = host::with(|h| matches!(h.table.get(&o.w), Some(host::Entry::Subtask(st)) if st.status == host::STATUS_STARTING));
            if kind == Kind::Sub && starting { host::set_event(o.w, host::STATUS_STARTED) }
        },
        Action::Wake(j) => { host::log(format!("xwake:{j}")); signal_flag(j) }
        Action::WakeC(j) => { host::log(format!("kwake:{j}")); unsafe { relay_cb(std::ptr::null_mut(), j) } }
        _ => {}
    }
}

// ---------------------------------------------------------------------------------------------
// Scenario
// ---------------------------------------------------------------------------------------------
fn num(s: &str) -> u32 { s.parse().unwrap_or_else(|_| panic!("bad number {s:?}")) }

fn parse_op(s: &str) -> OpDecl {
    let (kind, rest) = if let Some(r) = s.strip_prefix("sub") { (Kind::Sub, r) }
        else if let Some(r) = s.strip_prefix("sr") { (Kind::SRead, r) }
        else if let Some(r) = s.strip_prefix("sw") { (Kind::SWrite, r) }
        else if let Some(r) = s.strip_prefix("fr") { (Kind::FRead, r) }
        else if let Some(r) = s.strip_prefix("fw") { (Kind::FWrite, r) }
        else { panic!("bad op {s}") };
    OpDecl { kind, imm: rest == "I", starting: rest == "0" }
}

fn parse_step(s: &str) -> Step {
    let r = &s[1..];
    match s.as_bytes()[0] {
        b'a' => Step::Await(num(r) as usize),
        b'y' => Step::Yield,
        b's' => Step::Spawn(num(r) as usize),
        b'f' => Step::Flag(num(r)),
        b'w' => Step::Wake(num(r)),
        b'c' => Step::Ctx,
        b'g' => Step::Detach(num(r) as usize),
        b'j' => { let (k, j) = r.split_once('.').unwrap(); Step::Join(num(k) as usize, num(j)) }
        _ => panic!("bad step {s}"),
    }
}

fn parse_action(s: &str) -> Action {
    let r = &s[1..];
    match s.as_bytes()[0] {
        b's' => Action::Start(num(r)),
        b'n' => Action::None_(num(r)),
        b'e' => Action::Event(num(r)),
        b'x' => Action::Cancel(num(r)),
        b'r' => Action::Resolve(num(r) as usize),
        b'd' => Action::DropPeer(num(r) as usize),
        b'p' => Action::Progress(num(r) as usize),
        b'w' => Action::Wake(num(r)),
        b'k' => Action::WakeC(num(r)),
        b'z' => Action::Cleanup,
        b'R' => { let v: Vec<u32> = r.split('.').map(num).collect(); Action::Raw(v[0], v[1], v[2], v[3]) }
        _ => panic!("bad action {s}"),
    }
}

fn do_callback(t: u32, e0: u32, e1: u32, e2: u32) {
    host::set_current_task(t);
    let code = unsafe { rt::callback(e0, e1, e2) };
    if code & 0xf == 2 {
        hw(|h| { let t = t as usize; if h.lastset.len() <= t { h.lastset.resize(t + 1, None); } h.lastset[t] = Some(code >> 4); });
    }
    if code == 0 { set_life(t, 2); }
    host::log(format!("cb:{t}:{e0},{e1},{e2}={code}"));
}

fn life(t: u32) -> u8 { hw(|h| h.life.get(t as usize).copied().unwrap_or(0)) }
fn set_life(t: u32, v: u8) { hw(|h| { let t = t as usize; if h.life.len() <= t { h.life.resize(t + 1, 0); } h.life[t] = v; }) }

fn run_action(a: Action) {
    match a {
        Action::Start(t) => {
            if life(t) != 0 || t as usize >= hw(|h| h.roots.len()) { return; }
            let root = hw(|h| h.roots[t as usize]);
            if hw(|h| h.created.contains(&root)) { return; }
            hw(|h| h.created.push(root));
            host::log(format!(">start:{t}"));
            set_life(t, 1);
            host::set_current_task(t);
            let root = hw(|h| h.roots.get(t as usize).copied().unwrap_or(0));
            let code = rt::start_task(body(root, true)) as u32;
            if code & 0xf == 2 {
                hw(|h| { let t = t as usize; if h.lastset.len() <= t { h.lastset.resize(t + 1, None); } h.lastset[t] = Some(code >> 4); });
            }
            if code == 0 { set_life(t, 2); }
            host::log(format!("start:{t}={code}"));
        }
        Action::None_(t) => if life(t) == 1 { do_callback(t, 0, 0, 0) },
        Action::Event(t) => if life(t) == 1 {
            match hw(|h| h.lastset.get(t as usize).copied().flatten()) {
                Some(s) => {
                    let mut p = [0u32; 2];
                    let e0 = host::waitable_set_poll(s, &mut p);
                    do_callback(t, e0, p[0], p[1])
                }
                None => do_callback(t, 0, 0, 0),
            }
        }
        Action::Cancel(t) => if life(t) == 1 { do_callback(t, host::EVENT_CANCEL, 0, 0) },
        Action::Raw(t, a, b, c) => do_callback(t, a, b, c),
        Action::Cleanup => cleanup_wakers(),
        a => host_action(a),
    }
}

/// `on_block` hook of B mode: the next scripted action, then the implicit fair tail.
fn hook() -> bool {
    let a = hw(|h| h.script.pop_front());
    let a = match a {
        Some(a) => Some(a),
        None => {
            if !eligible().is_empty() { Some(Action::Resolve(0)) }
            else if cfg!(feature = "inter-task-wakeup") {
                hw(|h| h.waiters.iter().map(|x| x.0).min()).map(Action::Wake)
            } else { None }
        }
    };
    match a {
        Some(a) => { host_action(a); true }
        None => {
            let n = hw(|h| { h.deadlocks += 1; h.deadlocks });
            if n >= 2 {
                // the runtime would wait for ever: report and stop the process (rtmock.run reports ABORT)
                eprintln!("deadlock");
                std::process::abort();
            }
            false
        }
    }
}

static mut BOX_SIZE: usize = 0;

/// start time (ms since the epoch) of the scenario being run, 0 when idle
static SCEN_START: std::sync::atomic::AtomicU64 = std::sync::atomic::AtomicU64::new(0);
const SCEN_LIMIT_MS: u64 = 20_000;

fn now_ms() -> u64 {
    std::time::SystemTime::now().duration_since(std::time::UNIX_EPOCH).map(|d| d.as_millis() as u64).unwrap_or(0)
}

/// A (mutated) runtime may loop for ever inside one callback: a watchdog thread turns that into a process
/// abort, which the runner reports as `ABORT` for that scenario before carrying on with the next.
fn start_watchdog() {
    std::thread::spawn(|| loop {
        std::thread::sleep(std::time::Duration::from_millis(250));
        let s = SCEN_START.load(std::sync::atomic::Ordering::SeqCst);
        if s != 0 && now_ms().saturating_sub(s) > SCEN_LIMIT_MS {
            eprintln!("watchdog: scenario exceeded its time limit");
            std::process::abort();
        }
    });
}

/// Size of `Box<TaskState>`: the watched allocation whose address ends up in context slot 0.
fn calibrate() -> usize {
    for size in (8..=1024).step_by(8) {
        host::reset();
        hw(|h| { *h = Harness::default(); h.start_mode = true; h.bodies = vec![vec![Step::Yield]]; h.roots = vec![0]; });
        host::set_current_task(0);
        alloc::watch(size);
        let code = rt::start_task(body(0, true));
        let p = host::with(|h| *h.ctx.get(&0).unwrap_or(&0));
        let evs = alloc::take_events();
        if code == 1 && p != 0 {
            unsafe { rt::callback(0, 0, 0) };
        }
        if evs.iter().any(|e| e.0 == 1 && e.2 == p && p != 0) {
            return size;
        }
    }
    usize::MAX
}

/// Rewrite `area±N` tokens: the last watched allocation before the `cget` that follows `>start:T` is the
/// task box (`tnew:T`), its release is `tfree:T`; other blocks of the same size are not reported.
fn rewrite_box_tokens(log: Vec<String>) -> Vec<String> {
    let mut boxes: Vec<(String, String)> = Vec::new(); // (area id, task)
    let mut i = 0;
    while i < log.len() {
        if let Some(t) = log[i].strip_prefix(">start:") {
            let mut last = None;
            let mut j = i + 1;
            while j < log.len() && log[j].starts_with("area") {
                if let Some(n) = log[j].strip_prefix("area+") { last = Some(n.to_string()); }
                j += 1;
            }
            if let Some(n) = last { boxes.push((n, t.to_string())); }
        }
        i += 1;
    }
    let mut out = Vec::new();
    for tok in log {
        if let Some(n) = tok.strip_prefix("area+") {
            if let Some((_, t)) = boxes.iter().find(|b| b.0 == n) { out.push(format!("tnew:{t}")); }
        } else if let Some(n) = tok.strip_prefix("area-") {
            if let Some((_, t)) = boxes.iter().find(|b| b.0 == n) { out.push(format!("tfree:{t}")); }
        } else {
            out.push(tok);
        }
    }
    out
}

fn scenario(line: &str) -> String {
    SCEN_START.store(now_ms(), std::sync::atomic::Ordering::SeqCst);
    let r = scenario_inner(line);
    SCEN_START.store(0, std::sync::atomic::Ordering::SeqCst);
    r
}

fn scenario_inner(line: &str) -> String {
    let secs: Vec<&str> = line.split(';').map(|s| s.trim()).collect();
    assert!(secs.len() == 5, "bad line");
    let hd: Vec<&str> = secs[0].split_whitespace().collect();
    if hd[0] != FEAT { return "SKIP".to_string(); }
    let words = |s: &str| -> Vec<String> { s.split_whitespace().filter(|x| *x != "-").map(|x| x.to_string()).collect() };
    let start_mode = hd[1] == "S";
    let ops: Vec<OpDecl> = words(secs[1]).iter().map(|s| parse_op(s)).collect();
    let bodies: Vec<Vec<Step>> = secs[2].split_whitespace().map(|b| if b == "-" { vec![] } else { b.split(',').map(parse_step).collect() }).collect();
    let roots: Vec<usize> = words(secs[3]).iter().map(|s| num(s) as usize).collect();
    let acts: Vec<Action> = words(secs[4]).iter().map(|s| parse_action(s)).collect();
    let nops = ops.len();
    hw(|h| {
        let old = std::mem::take(h);
        std::mem::forget(old); // wakers of an earlier (panicked) scenario must not run destructors now
        *h = Harness { start_mode, ops, bodies, roots, oprt: vec![OpRt::default(); nops], ..Harness::default() };
    });
    host::with(|h| h.log_ctx = true);
    alloc::watch(unsafe { BOX_SIZE });
    let r = drive::catch(|| {
        if start_mode {
            for a in acts { run_action(a); }
        } else {
            hw(|h| h.script = acts.into_iter().collect());
            host::on_block(hook);
            host::set_current_task(0);
            let root = hw(|h| h.roots.first().copied().unwrap_or(0));
            hw(|h| h.created.push(root));
            wit_bindgen::block_on(body(root, true));
            host::log("bon:0");
        }
        cleanup_wakers();
    });
    let mut out = rewrite_box_tokens(host::take_log_with_allocs());
    if let Err(m) = r {
        out.push(format!("PANIC:{}", m.replace(' ', "_")));
    }
    out.join(" ")
}

pub fn main() {
    start_watchdog();
    let sz = calibrate();
    unsafe { BOX_SIZE = sz };
    drive::run_lines(scenario);
}
