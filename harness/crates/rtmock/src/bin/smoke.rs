//! Link/behaviour smoke test of rtmock + hook H1 (also the minimal usage example, see README.md).
//! Each stdin line is ignored; for each one a fixed scenario runs and the host log is printed.
use rtmock::{drive, host};
use std::alloc::Layout;
use wit_bindgen::rt::async_support as rt;

struct Call;
unsafe impl rt::Subtask for Call {
    type Params = u32;
    type ParamsLower = u32;
    type Results = u32;
    fn abi_layout(&mut self) -> Layout { Layout::from_size_align(8, 4).unwrap() }
    fn results_offset(&mut self) -> usize { 4 }
    unsafe fn call_import(&mut self, p: u32, _results: *mut u8) -> u32 {
        let packed = host::subtask_new(host::STATUS_STARTED);
        host::log(format!("call:{p}={packed}"));
        packed
    }
    unsafe fn params_lower(&mut self, p: u32, _dst: *mut u8) -> u32 { p }
    unsafe fn params_dealloc_lists(&mut self, _l: u32) { host::log("dl") }
    unsafe fn params_dealloc_lists_and_own(&mut self, _l: u32) { host::log("dlo") }
    unsafe fn results_lift(&mut self, _src: *mut u8) -> u32 { host::log("lift"); 7 }
}

static VT: rt::StreamVtable<u8> = rt::StreamVtable {
    layout: Layout::new::<u8>(),
    lower: None, dealloc_lists: None, lift: None,
    start_write: host::StreamFns::<1>::write, start_read: host::StreamFns::<1>::read,
    cancel_write: host::StreamFns::<1>::cancel_write, cancel_read: host::StreamFns::<1>::cancel_read,
    drop_writable: host::StreamFns::<1>::drop_writable, drop_readable: host::StreamFns::<1>::drop_readable,
    new: host::StreamFns::<1>::new,
};

fn main() {
    drive::run_lines(|_| {
        // when `block_on` waits with nothing ready, the host "returns" the subtask / serves the read
        let mut step = 0;
        host::on_block(move || {
            step += 1;
            match step {
                1 => { host::set_event(1, host::STATUS_RETURNED); true }
                2 => { let c = host::with(|h| h.chans.len() - 1); host::peer_write(c, vec![1, 2, 3]); true }
                _ => false,
            }
        });
        let r = wit_bindgen::block_on(async {
            let a = rt::Subtask::call(&mut Call, 5).await;
            let (tx, mut rx) = unsafe { rt::stream_new(&VT) };
            host::peer_take(tx.handle());
            std::mem::forget(tx);
            let (res, buf) = rx.read(Vec::with_capacity(4)).await;
            host::log(format!("read:{res:?}:{buf:?}").replace(' ', ""));
            a
        });
        format!("r={r} {}", host::take_log().join(" "))
    });
}
