//! C18 driver: the real `WaitableOperation` (waitable.rs) reached through stream reads/writes, future
//! reads and async import calls, polled / cancelled / dropped under one of two harness-owned tasks (task
//! C ABI v1 or v2), against the scripted host.  Everything observable is logged in one total order.
//!
//! Input line:  `<v0> <v1> | <kind>* | <action>*`
//!   v0, v1     C ABI version of task 0 / task 1 (1 or 2)
//!   kind       per operation (index = operation id): `st` async import call, `sr` stream read (capacity 4),
//!              `sw` stream write (4 items), `fr` future read.  Streams/futures are created first, in order.
//! Actions:  `p<t>.<o>[=a]` poll operation o under task t (a = scripted answer of the start intrinsic);
//!   `c<t>.<o>[=a]` cancel it (a = scripted answer of the cancel intrinsic; not available for `st`);
//!   `d<t>.<o>[=a]` drop it;  `h<o>=c` host makes code c ready on o's waitable;
//!   `w<t>[.<o>]` task t polls its waitable set (preferring o's waitable) and delivers what it gets.
//! Output:  `<log> | wakes=a,b maps=[..];[..] clones=a,b [PANIC:<msg>]`
//! Driver notes: `call:<o>=P` (import answered), `res:<o>=<R>` (result of a completed poll / of cancel).
use rtmock::drive::{self, CountWaker, MockTask};
use rtmock::host;
use std::alloc::Layout;
use std::future::{Future, IntoFuture};
use std::pin::Pin;
use std::task::{Context, Poll};
use wit_bindgen::rt::async_support as rt;
use wit_bindgen::rt::async_support::Subtask;
use wit_bindgen::{RawFutureRead, RawFutureReader, RawStreamRead, RawStreamReader, RawStreamWrite, RawStreamWriter, StreamResult};

type SVt = &'static rt::StreamVtable<u8>;
type FVt = &'static rt::FutureVtable<u8>;

static SVT: rt::StreamVtable<u8> = rt::StreamVtable {
    layout: Layout::new::<u8>(),
    lower: None, dealloc_lists: None, lift: None,
    start_write: host::StreamFns::<1>::write, start_read: host::StreamFns::<1>::read,
    cancel_write: host::StreamFns::<1>::cancel_write, cancel_read: host::StreamFns::<1>::cancel_read,
    drop_writable: host::StreamFns::<1>::drop_writable, drop_readable: host::StreamFns::<1>::drop_readable,
    new: host::StreamFns::<1>::new,
};
unsafe fn f_lower(v: u8, dst: *mut u8) { *dst = v }
unsafe fn f_dealloc(_dst: *mut u8) {}
unsafe fn f_lift(dst: *mut u8) -> u8 { *dst }
static FVT: rt::FutureVtable<u8> = rt::FutureVtable {
    layout: Layout::new::<u8>(),
    lower: f_lower, dealloc_lists: f_dealloc, lift: f_lift,
    start_write: host::FutureFns::<1>::write, start_read: host::FutureFns::<1>::read,
    cancel_write: host::FutureFns::<1>::cancel_write, cancel_read: host::FutureFns::<1>::cancel_read,
    drop_writable: host::FutureFns::<1>::drop_writable, drop_readable: host::FutureFns::<1>::drop_readable,
    new: host::FutureFns::<1>::new,
};

/// Minimal async import: the call answer is the next scripted answer (0/1 => a handle is created).
struct Call {
    id: usize,
}
unsafe impl Subtask for Call {
    type Params = ();
    type ParamsLower = ();
    type Results = ();
    fn abi_layout(&mut self) -> Layout { Layout::from_size_align(0, 1).unwrap() }
    fn results_offset(&mut self) -> usize { 0 }
    unsafe fn call_import(&mut self, _p: (), _r: *mut u8) -> u32 {
        let status = host::with(|h| h.answers.pop_front()).unwrap_or(host::STATUS_STARTING);
        let packed = if status == host::STATUS_RETURNED || status > 4 { status } else { host::subtask_new(status) };
        host::log(format!("call:{}={packed}", self.id));
        packed
    }
    unsafe fn params_lower(&mut self, _p: (), _dst: *mut u8) {}
    unsafe fn params_dealloc_lists(&mut self, _l: ()) {}
    unsafe fn params_dealloc_lists_and_own(&mut self, _l: ()) {}
    unsafe fn results_lift(&mut self, _src: *mut u8) {}
}

enum Op {
    St(Pin<Box<dyn Future<Output = ()>>>),
    Sr(Pin<Box<RawStreamRead<'static, SVt>>>),
    Sw(Pin<Box<RawStreamWrite<'static, SVt>>>),
    Fr(Pin<Box<RawFutureRead<FVt>>>),
}

fn sres(r: StreamResult) -> String {
    match r {
        StreamResult::Complete(n) => format!("C{n}"),
        StreamResult::Dropped => "D".into(),
        StreamResult::Cancelled => "X".into(),
    }
}

struct World {
    tasks: [MockTask; 2],
    wakers: Vec<(std::sync::Arc<CountWaker>, std::task::Waker)>,
    ops: Vec<Option<Op>>,
    /// waitable handle of each stream/future operation (subtasks: looked up in the host table)
    handles: Vec<Option<u32>>,
}

fn split_ans(s: &str) -> (&str, Option<u32>) {
    match s.split_once('=') {
        Some((a, b)) => (a, Some(drive::parse_u32(b))),
        None => (s, None),
    }
}
fn t_o(s: &str) -> (usize, usize) {
    let (t, o) = s.split_once('.').expect("t.o");
    (t.parse().unwrap(), o.parse().unwrap())
}

fn scenario(line: &str) -> String {
    let parts: Vec<&str> = line.split('|').collect();
    let vers: Vec<u32> = parts[0].split_whitespace().map(drive::parse_u32).collect();
    let kinds: Vec<&str> = parts[1].split_whitespace().collect();
    let mut w = World {
        tasks: [MockTask::new(0, vers[0]), MockTask::new(1, vers[1])],
        wakers: vec![CountWaker::new(), CountWaker::new()],
        ops: Vec::new(),
        handles: Vec::new(),
    };
    for (i, k) in kinds.iter().enumerate() {
        let (op, h) = match *k {
            "st" => {
                let c: &'static mut Call = Box::leak(Box::new(Call { id: i }));
                (Op::St(Box::pin(c.call(()))), None)
            }
            "sr" => {
                let hs = host::chan_new(false, 1);
                let rd: &'static mut RawStreamReader<SVt> = Box::leak(Box::new(RawStreamReader::new(hs as u32, &SVT)));
                (Op::Sr(Box::pin(rd.read(Vec::with_capacity(4)))), Some(hs as u32))
            }
            "sw" => {
                let hs = host::chan_new(false, 1);
                let wr: &'static mut RawStreamWriter<SVt> = Box::leak(Box::new(unsafe { RawStreamWriter::new((hs >> 32) as u32, &SVT) }));
                (Op::Sw(Box::pin(wr.write(vec![1, 2, 3, 4]))), Some((hs >> 32) as u32))
            }
            "fr" => {
                let hs = host::chan_new(true, 1);
                let rd = unsafe { RawFutureReader::new(hs as u32, &FVT) };
                (Op::Fr(Box::pin(rd.into_future())), Some(hs as u32))
            }
            _ => panic!("bad kind {k}"),
        };
        w.ops.push(Some(op));
        w.handles.push(h);
    }
    let mut panic = None;
    let markers = std::env::var_os("RTMOCK_MARKERS").is_some();
    for a in parts[2].split_whitespace() {
        if markers {
            host::log(format!("@{a}"));
        }
        let r = drive::catch(|| {
            let (body, ans) = split_ans(&a[1..]);
            match a.as_bytes()[0] {
                b'p' => {
                    let (t, o) = t_o(body);
                    if let Some(v) = ans { host::push_answer(v) }
                    let mut cx = Context::from_waker(&w.wakers[t].1);
                    let task = w.tasks[t].clone();
                    if let Some(op) = w.ops[o].as_mut() {
                        let res = task.enter(|| match op {
                            Op::St(f) => match f.as_mut().poll(&mut cx) { Poll::Ready(()) => Some("ok".to_string()), Poll::Pending => None },
                            Op::Sr(f) => match f.as_mut().poll(&mut cx) { Poll::Ready((r, buf)) => Some(format!("{}:{}", sres(r), buf.len())), Poll::Pending => None },
                            Op::Sw(f) => match f.as_mut().poll(&mut cx) { Poll::Ready((r, buf)) => Some(format!("{}:{}", sres(r), buf.remaining())), Poll::Pending => None },
                            Op::Fr(f) => match f.as_mut().poll(&mut cx) { Poll::Ready(_v) => Some("V".to_string()), Poll::Pending => None },
                        });
                        if let Some(r) = res {
                            host::log(format!("res:{o}={r}"));
                        }
                    }
                    host::with(|h| h.answers.clear());
                }
                b'c' => {
                    let (t, o) = t_o(body);
                    if let Some(v) = ans { host::push_answer(v) }
                    let task = w.tasks[t].clone();
                    if let Some(op) = w.ops[o].as_mut() {
                        let res = task.enter(|| match op {
                            Op::St(_) => None,
                            Op::Sr(f) => { let (r, buf) = f.as_mut().cancel(); Some(format!("{}:{}", sres(r), buf.len())) }
                            Op::Sw(f) => { let (r, buf) = f.as_mut().cancel(); Some(format!("{}:{}", sres(r), buf.remaining())) }
                            Op::Fr(f) => match f.as_mut().cancel() {
                                Ok(_v) => Some("V".to_string()),
                                Err(reader) => { std::mem::forget(reader); Some("R".to_string()) }
                            },
                        });
                        if let Some(r) = res {
                            host::log(format!("res:{o}={r}"));
                        }
                    }
                    host::with(|h| h.answers.clear());
                }
                b'd' => {
                    let (t, o) = t_o(body);
                    if let Some(v) = ans { host::push_answer(v) }
                    let task = w.tasks[t].clone();
                    if let Some(op) = w.ops[o].take() {
                        task.enter(|| drop(op));
                    }
                    host::with(|h| h.answers.clear());
                }
                b'h' => {
                    let o: usize = body.parse().unwrap();
                    let code = ans.expect("h<o>=code");
                    let wh = match w.handles[o] {
                        Some(h) => Some(h),
                        None => subtask_handle(o),
                    };
                    if let Some(wh) = wh {
                        host::set_event(wh, code);
                    }
                }
                b'w' => {
                    let (t, pick) = match body.split_once('.') {
                        Some((t, o)) => (t.parse::<usize>().unwrap(), Some(o.parse::<usize>().unwrap())),
                        None => (body.parse::<usize>().unwrap(), None),
                    };
                    if let Some(o) = pick {
                        if let Some(wh) = w.handles[o].or_else(|| subtask_handle(o)) {
                            host::push_pick(wh);
                        }
                    }
                    if let Some(s) = w.tasks[t].set() {
                        let mut payload = [0u32; 2];
                        let e = host::waitable_set_poll(s, &mut payload);
                        if e != host::EVENT_NONE {
                            let task = w.tasks[t].clone();
                            task.enter(|| task.deliver(payload[0], payload[1]));
                        }
                    }
                    host::with(|h| h.picks.clear());
                }
                _ => panic!("bad action {a}"),
            }
        });
        if let Err(m) = r {
            panic = Some(m);
            break;
        }
    }
    let log = host::take_log();
    let mut out = format!(
        "{} | wakes={},{} maps={:?};{:?} clones={},{}",
        log.join(" "), w.wakers[0].0.count(), w.wakers[1].0.count(),
        w.tasks[0].registered(), w.tasks[1].registered(), w.tasks[0].clones(), w.tasks[1].clones()
    ).replace(", ", ",");
    if let Some(m) = panic {
        out.push_str(&format!(" PANIC:{}", m.replace(' ', "_")));
    }
    // whatever is still alive is leaked (its state may be poisoned)
    for op in w.ops.drain(..) {
        std::mem::forget(op);
    }
    out
}

/// The handle of the subtask created by operation `o`'s import call (from its `call:<o>=P` note),
/// if it is still in the host's table.
fn subtask_handle(o: usize) -> Option<u32> {
    host::with(|h| {
        let pre = format!("call:{o}=");
        let packed = h.log.iter().rev().find_map(|t| t.strip_prefix(&pre).map(|p| p.parse::<u32>().unwrap()))?;
        let hd = packed >> 4;
        match h.table.get(&hd) {
            Some(host::Entry::Subtask(_)) if hd != 0 => Some(hd),
            _ => None,
        }
    })
}

fn main() {
    drive::run_lines(scenario);
}
