//! C21 driver: the real `Subtask::call` future (`WaitableOperation<SubtaskOps<T>>`, subtask.rs) driven by a
//! scripted host, with an instrumented `Subtask` implementation and a watched params/results area.
//!
//! Input line:  `<ver> <size> <ind> <nlists> <nown> <callstatus> <callhandle> | <action>*`
//!   ver        task C ABI of the mock task the future is polled under (1 or 2)
//!   size       size of `abi_layout()` (0 = no params/results area; otherwise must be AREA = 72)
//!   ind        1 = parameters are passed indirectly (lowered into the area), 0 = flat
//!   nlists/nown  heap lists / owned handles inside the parameters (echoed by the instrumentation)
//!   callstatus, callhandle   what the `[async-lower]` import answers: status, and 1 if a subtask
//!              handle is created (`status | handle << 4`), 0 for the bare status
//! Actions: `p` poll the future under the task; `h<c>` host makes status `c` ready on the subtask;
//!   `w` the task polls its waitable set and delivers what it gets (like `callback`); `a<c>` queue the
//!   answer of the next `subtask.cancel`; `x` drop the future.
//! Output line: `<log tokens> | res=<none|ok:B|pending|gone> wakes=N map=[..] clones=N [PANIC:<msg>]`
//! Log tokens added by the instrumentation (same total order as the host calls): `lower:IND` `call=P`
//! `dl:N` `dlo:N:M` `lift:B` `pdrop` `area+1` `area-1` (+ `treg/tunreg/tclone/tdrop/tdeliver` of MockTask).
use rtmock::drive::{self, CountWaker, MockTask};
use rtmock::{alloc, host};
use std::alloc::Layout;
use std::cell::Cell;
use std::future::Future;
use std::pin::Pin;
use std::task::{Context, Poll};
use wit_bindgen::rt::async_support::Subtask;

#[global_allocator]
static A: alloc::WatchAlloc = alloc::WatchAlloc;

const AREA: usize = 72;
const RESULTS_OFFSET: usize = 40;

thread_local! {
    /// where the host writes the result byte when the call returns (null: no area)
    static RESULTS_PTR: Cell<usize> = Cell::new(0);
}

/// The host "returns": it writes the result into the results area (if there is one).
fn host_writes_result() {
    let p = RESULTS_PTR.with(|c| c.get());
    if p != 0 {
        unsafe { *(p as *mut u8) = 42 };
    }
}

struct Params {
    nlists: u8,
    nown: u8,
}
impl Drop for Params {
    fn drop(&mut self) {
        host::log("pdrop");
    }
}

struct Call {
    size: usize,
    ind: bool,
    callstatus: u32,
    callhandle: bool,
}

unsafe impl Subtask for Call {
    type Params = Params;
    /// flat: `nlists | nown << 8`; indirect: the address of the area
    type ParamsLower = usize;
    type Results = u8;

    fn abi_layout(&mut self) -> Layout {
        Layout::from_size_align(self.size, 8).unwrap()
    }
    fn results_offset(&mut self) -> usize {
        if self.size == 0 { 0 } else { RESULTS_OFFSET }
    }
    unsafe fn call_import(&mut self, _params: usize, results: *mut u8) -> u32 {
        RESULTS_PTR.with(|c| c.set(if self.size == 0 { 0 } else { results as usize }));
        let packed = if self.callhandle { host::subtask_new(self.callstatus) } else { self.callstatus };
        if self.callstatus == host::STATUS_RETURNED {
            host_writes_result();
        }
        host::log(format!("call={packed}"));
        packed
    }
    unsafe fn params_lower(&mut self, params: Params, dst: *mut u8) -> usize {
        host::log(format!("lower:{}", self.ind as u32));
        let r = if self.ind {
            *dst = params.nlists;
            *dst.add(1) = params.nown;
            dst as usize
        } else {
            params.nlists as usize | (params.nown as usize) << 8
        };
        std::mem::forget(params); // ownership moves into the lowered form
        r
    }
    unsafe fn params_dealloc_lists(&mut self, lower: usize) {
        let n = if self.ind { *(lower as *const u8) as usize } else { lower & 0xff };
        host::log(format!("dl:{n}"));
    }
    unsafe fn params_dealloc_lists_and_own(&mut self, lower: usize) {
        let (n, m) = if self.ind { (*(lower as *const u8) as usize, *(lower as *const u8).add(1) as usize) } else { (lower & 0xff, lower >> 8) };
        host::log(format!("dlo:{n}:{m}"));
    }
    unsafe fn results_lift(&mut self, src: *mut u8) -> u8 {
        let b = if self.size == 0 { 0 } else { *src };
        host::log(format!("lift:{b}"));
        b
    }
}

fn scenario(line: &str) -> String {
    let (hdr, acts) = line.split_once('|').expect("missing |");
    let f: Vec<u32> = hdr.split_whitespace().map(drive::parse_u32).collect();
    let (ver, size, ind, nlists, nown, callstatus, callhandle) = (f[0], f[1] as usize, f[2] != 0, f[3] as u8, f[4] as u8, f[5], f[6] != 0);
    assert!(size == 0 || size == AREA);
    RESULTS_PTR.with(|c| c.set(0));
    let task = MockTask::new(0, ver);
    let (wk, waker) = CountWaker::new();
    // the instrumented Subtask outlives the future that borrows it
    let call: &'static mut Call = Box::leak(Box::new(Call { size, ind, callstatus, callhandle }));
    alloc::watch(if size == 0 { usize::MAX } else { AREA });
    let mut fut: Option<Pin<Box<dyn Future<Output = u8>>>> = Some(Box::pin(call.call(Params { nlists, nown })));
    let mut res = "none".to_string();
    let mut panic = None;
    for a in acts.split_whitespace() {
        let r = drive::catch(|| match a.as_bytes()[0] {
            b'p' => {
                if let Some(f) = fut.as_mut() {
                    let mut cx = Context::from_waker(&waker);
                    match task.enter(|| f.as_mut().poll(&mut cx)) {
                        Poll::Ready(b) => {
                            res = format!("ok:{b}");
                            fut = None;
                        }
                        Poll::Pending => res = "pending".to_string(),
                    }
                }
            }
            b'h' => {
                let c = drive::parse_u32(&a[1..]);
                let w = host::with(|h| h.table.iter().find(|(_, e)| matches!(e, host::Entry::Subtask(_))).map(|(k, _)| *k));
                if let Some(w) = w {
                    if c == host::STATUS_RETURNED {
                        host_writes_result();
                    }
                    host::set_event(w, c);
                }
            }
            b'w' => {
                if let Some(s) = task.set() {
                    let mut payload = [0u32; 2];
                    let e = host::waitable_set_poll(s, &mut payload);
                    if e != host::EVENT_NONE {
                        task.enter(|| task.deliver(payload[0], payload[1]));
                    }
                }
            }
            b'a' => {
                let c = drive::parse_u32(&a[1..]);
                if c == host::STATUS_RETURNED {
                    host_writes_result();
                }
                host::push_answer(c)
            }
            b'x' => {
                if let Some(f) = fut.take() {
                    res = "gone".to_string();
                    task.enter(|| drop(f));
                }
            }
            _ => panic!("bad action {a}"),
        });
        if let Err(m) = r {
            panic = Some(m);
            std::mem::forget(fut.take()); // state is poisoned: leak it
            break;
        }
    }
    let log = host::take_log_with_allocs();
    let mut out = format!("{} | res={res} wakes={} map={:?} clones={}", log.join(" "), wk.count(), task.registered(), task.clones()).replace(", ", ",");
    if let Some(m) = panic {
        out.push_str(&format!(" PANIC:{}", m.replace(' ', "_")));
    }
    std::mem::forget(fut); // a future left pending at the end is leaked, like a leaked Rust future
    out
}

fn main() {
    drive::run_lines(scenario);
}
