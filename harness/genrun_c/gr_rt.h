/* genrun_c runtime (C10/C11): allocation ledger, observation log, mock-host plumbing.
 * Linked into every native test program next to the UNMODIFIED generated <world>.c.
 * The generated file is compiled with `-include gr_prelude.h`, which redirects malloc/realloc/free/calloc
 * to the ledger functions below; nothing else of the generated text is touched. */
#ifndef GR_RT_H
#define GR_RT_H
#include <stdint.h>
#include <stddef.h>
#include <stdbool.h>
#include <stdio.h>
#include <stdlib.h>
#include <string.h>

#define GR_ARENA_BASE 0x20000000ull
#define GR_ARENA_SIZE 0x40000000ull /* 1 GiB of address space, touched lazily */

void gr_init(void);
void *gr_malloc(size_t n);
void *gr_calloc(size_t a, size_t b);
void *gr_realloc(void *p, size_t n);
void gr_free(void *p);

/* host mode: the next realloc(NULL, n) issued by the generated cabi_realloc returns `preset` (an address inside
 * the fixed host arena chosen by the Python planner, so that the Coq oracle can lay out the memory image ahead
 * of time) */
typedef void *(*gr_cabi_realloc_t)(void *, size_t, size_t, size_t);
void *gr_host_alloc(gr_cabi_realloc_t cabi, size_t size, size_t align, uintptr_t preset);

void gr_phase(const char *name);
void gr_note(const char *fmt, ...);
void gr_error(const char *fmt, ...);
void gr_leaf(char tag, uint64_t v);
void gr_leaf_f32(float f);
void gr_leaf_f64(double d);
void gr_leaf_str(const void *p, size_t len, unsigned unit);
void gr_flat_i(unsigned idx, uint64_t v);
void gr_flat_f32(unsigned idx, float f);
void gr_flat_f64(unsigned idx, double d);
float gr_f32_bits(uint32_t b);
double gr_f64_bits(uint64_t b);
void gr_dump_range(const void *p, size_t n);
void gr_dump_live(void);
void gr_snapshot(void);
void gr_snapshot_check(void);
void gr_live_summary(void);
void gr_res_event(const char *what, const char *which, int64_t v);
void gr_hex_to(void *dst, const char *hex);
#endif
