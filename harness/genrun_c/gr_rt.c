#include "gr_rt.h"
#include <stdarg.h>
#include <sys/mman.h>
#if defined(__has_feature)
#if __has_feature(address_sanitizer)
#include <sanitizer/asan_interface.h>
#define GR_POISON(p, n) __asan_poison_memory_region((p), (n))
#define GR_UNPOISON(p, n) __asan_unpoison_memory_region((p), (n))
#endif
#endif
#ifndef GR_POISON
#define GR_POISON(p, n) ((void)0)
#define GR_UNPOISON(p, n) ((void)0)
#endif

/* ---------------------------------------------------------------- ledger */
typedef struct {
  uintptr_t addr;
  size_t size;
  int live;
  int host; /* 1 = lives in the fixed host arena (allocated through cabi_realloc in host mode) */
  unsigned char *snap; /* snapshot copy or NULL */
} gr_block;

static gr_block *blocks;
static size_t nblocks, capblocks;
static uintptr_t gr_preset;
static size_t gr_preset_size;
static int gr_preset_used;
static FILE *out;

void gr_init(void) {
  out = stdout;
  void *p = mmap((void *)GR_ARENA_BASE, GR_ARENA_SIZE, PROT_READ | PROT_WRITE,
                 MAP_PRIVATE | MAP_ANONYMOUS | MAP_FIXED_NOREPLACE | MAP_NORESERVE, -1, 0);
  if (p != (void *)GR_ARENA_BASE) {
    printf("E arena mmap failed\n");
    exit(3);
  }
  GR_POISON(p, GR_ARENA_SIZE); /* under ASan: any access to host-arena bytes that were never handed out traps */
}

static size_t add_block(uintptr_t addr, size_t size, int host) {
  if (nblocks == capblocks) {
    capblocks = capblocks ? capblocks * 2 : 256;
    blocks = (gr_block *)realloc(blocks, capblocks * sizeof(gr_block));
  }
  blocks[nblocks] = (gr_block){addr, size, 1, host, NULL};
  fprintf(out, "A %zu %llu %zu %c\n", nblocks, (unsigned long long)addr, size, host ? 'h' : 'g');
  return nblocks++;
}

static long find_live(uintptr_t a) {
  for (size_t i = nblocks; i-- > 0;)
    if (blocks[i].live && blocks[i].addr == a) return (long)i;
  return -1;
}
static long find_dead(uintptr_t a) {
  for (size_t i = nblocks; i-- > 0;)
    if (!blocks[i].live && blocks[i].addr == a) return (long)i;
  return -1;
}

void *gr_malloc(size_t n) {
  void *p = malloc(n ? n : 1);
  if (!p) abort();
  memset(p, 0xAA, n);
  add_block((uintptr_t)p, n, 0);
  return p;
}
void *gr_calloc(size_t a, size_t b) {
  void *p = gr_malloc(a * b);
  memset(p, 0, a * b);
  return p;
}
void *gr_realloc(void *p, size_t n) {
  if (p == NULL) {
    if (gr_preset && !gr_preset_used) {
      gr_preset_used = 1;
      if (n != gr_preset_size) gr_error("host-alloc-size requested=%zu planned=%zu", n, gr_preset_size);
      add_block(gr_preset, n, 1);
      GR_UNPOISON((void *)gr_preset, n);
      return (void *)gr_preset;
    }
    return gr_malloc(n);
  }
  long i = find_live((uintptr_t)p);
  if (i < 0) {
    gr_error("realloc-of-unknown %llu", (unsigned long long)(uintptr_t)p);
    return gr_malloc(n);
  }
  void *q = gr_malloc(n);
  memcpy(q, p, blocks[i].size < n ? blocks[i].size : n);
  gr_free(p);
  return q;
}
void gr_free(void *p) {
  if (p == NULL) {
    fprintf(out, "F null\n");
    return;
  }
  long i = find_live((uintptr_t)p);
  if (i < 0) {
    long d = find_dead((uintptr_t)p);
    if (d >= 0)
      gr_error("double-free %ld", d);
    else
      gr_error("free-unknown %llu", (unsigned long long)(uintptr_t)p);
    return;
  }
  blocks[i].live = 0;
  fprintf(out, "F %ld\n", i);
  /* the address stays reserved (no reuse): a stale pointer still names this dead block; its bytes are
     overwritten so that a read-after-free shows up in the observed values, and poisoned under ASan */
  memset((void *)blocks[i].addr, 0xDD, blocks[i].size);
  GR_POISON((void *)blocks[i].addr, blocks[i].size);
}

void *gr_host_alloc(gr_cabi_realloc_t cabi, size_t size, size_t align, uintptr_t preset) {
  gr_preset = preset;
  gr_preset_size = size;
  gr_preset_used = 0;
  void *p = cabi(NULL, 0, align, size);
  if (size > 0 && !gr_preset_used) gr_error("cabi_realloc-did-not-allocate size=%zu", size);
  if (size > 0 && (uintptr_t)p != preset)
    gr_error("cabi_realloc-returned %llu planned %llu", (unsigned long long)(uintptr_t)p, (unsigned long long)preset);
  if (size == 0 && ((uintptr_t)p % align) != 0) gr_error("cabi_realloc-zero-size-misaligned %llu", (unsigned long long)(uintptr_t)p);
  gr_preset = 0;
  return p;
}

/* ---------------------------------------------------------------- log */
void gr_phase(const char *name) { fprintf(out, "P %s\n", name); }
void gr_note(const char *fmt, ...) {
  va_list ap;
  va_start(ap, fmt);
  fprintf(out, "K ");
  vfprintf(out, fmt, ap);
  fprintf(out, "\n");
  va_end(ap);
}
void gr_error(const char *fmt, ...) {
  va_list ap;
  va_start(ap, fmt);
  fprintf(out, "E ");
  vfprintf(out, fmt, ap);
  fprintf(out, "\n");
  va_end(ap);
}
void gr_leaf(char tag, uint64_t v) { fprintf(out, "L %c%llx\n", tag, (unsigned long long)v); }
void gr_leaf_f32(float f) {
  uint32_t b;
  memcpy(&b, &f, 4);
  fprintf(out, "L x%llx\n", (unsigned long long)b);
}
void gr_leaf_f64(double d) {
  uint64_t b;
  memcpy(&b, &d, 8);
  fprintf(out, "L y%llx\n", (unsigned long long)b);
}
void gr_leaf_str(const void *p, size_t len, unsigned unit) {
  fprintf(out, "L s%zu:", len);
  const unsigned char *c = (const unsigned char *)p;
  if (len < (1u << 20))
    for (size_t i = 0; i < len * unit; i++) fprintf(out, "%02x", c[i]);
  fprintf(out, "\n");
}
void gr_flat_i(unsigned idx, uint64_t v) { fprintf(out, "V %u %llu\n", idx, (unsigned long long)v); }
void gr_flat_f32(unsigned idx, float f) {
  uint32_t b;
  memcpy(&b, &f, 4);
  fprintf(out, "V %u %llu\n", idx, (unsigned long long)b);
}
void gr_flat_f64(unsigned idx, double d) {
  uint64_t b;
  memcpy(&b, &d, 8);
  fprintf(out, "V %u %llu\n", idx, (unsigned long long)b);
}
float gr_f32_bits(uint32_t b) {
  float f;
  memcpy(&f, &b, 4);
  return f;
}
double gr_f64_bits(uint64_t b) {
  double d;
  memcpy(&d, &b, 8);
  return d;
}
void gr_dump_range(const void *p, size_t n) {
  fprintf(out, "S %llu:", (unsigned long long)(uintptr_t)p);
  const unsigned char *c = (const unsigned char *)p;
  for (size_t i = 0; i < n; i++) fprintf(out, "%02x", c[i]);
  fprintf(out, "\n");
}
void gr_dump_live(void) {
  for (size_t i = 0; i < nblocks; i++)
    if (blocks[i].live && blocks[i].size > 0) gr_dump_range((void *)blocks[i].addr, blocks[i].size);
}
void gr_snapshot(void) {
  for (size_t i = 0; i < nblocks; i++) {
    if (blocks[i].snap) {
      free(blocks[i].snap);
      blocks[i].snap = NULL;
    }
    if (blocks[i].live) {
      blocks[i].snap = (unsigned char *)malloc(blocks[i].size ? blocks[i].size : 1);
      memcpy(blocks[i].snap, (void *)blocks[i].addr, blocks[i].size);
    }
  }
}
void gr_snapshot_check(void) {
  size_t n = 0;
  for (size_t i = 0; i < nblocks; i++) {
    if (!blocks[i].snap) continue;
    n++;
    if (!blocks[i].live)
      fprintf(out, "K snap-freed %zu\n", i);
    else if (memcmp(blocks[i].snap, (void *)blocks[i].addr, blocks[i].size) != 0)
      fprintf(out, "K snap-modified %zu\n", i);
    free(blocks[i].snap);
    blocks[i].snap = NULL;
  }
  fprintf(out, "K snap-checked %zu\n", n);
}
void gr_live_summary(void) {
  fprintf(out, "K live");
  for (size_t i = 0; i < nblocks; i++)
    if (blocks[i].live) fprintf(out, " %zu", i);
  fprintf(out, "\n");
}
void gr_res_event(const char *what, const char *which, int64_t v) {
  fprintf(out, "D %s %s %lld\n", what, which, (long long)v);
}
static int hexv(char c) { return c <= '9' ? c - '0' : (c | 32) - 'a' + 10; }
void gr_hex_to(void *dst, const char *hex) {
  unsigned char *d = (unsigned char *)dst;
  while (hex[0] && hex[1]) {
    *d++ = (unsigned char)(hexv(hex[0]) * 16 + hexv(hex[1]));
    hex += 2;
  }
}
