/* Force-included (-include) in front of the generated <world>.c ONLY: routes the C allocator calls the
 * generated bindings make (free / realloc in cabi_realloc / malloc) through the allocation ledger. */
#ifndef GR_PRELUDE_H
#define GR_PRELUDE_H
#include <stdlib.h>
#include <string.h>
#include <stdint.h>
#include <stddef.h>
void *gr_malloc(size_t n);
void *gr_calloc(size_t a, size_t b);
void *gr_realloc(void *p, size_t n);
void gr_free(void *p);
#define malloc gr_malloc
#define calloc gr_calloc
#define realloc gr_realloc
#define free gr_free
#endif
