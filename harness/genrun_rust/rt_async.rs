//! Async part of the genrun runtime (template; only in guest crates built with rtmock + hook H1).
//! The component-model async host is `rtmock::host` (harness/crates/rtmock); this file scripts it:
//!   * async-lowered imports (`[async-lower]f` shims): the host answers RETURNED at once, or STARTED and RETURNED after the
//!     guest blocked, or STARTING → STARTED → RETURNED (policy chosen per call by the check);
//!   * async-lifted exports: `AEXPORT` calls the `[async-lift]` entry and then plays the host's event loop on the returned
//!     status codes (resolving the guest's pause subtasks, or delivering EVENT_CANCEL);
//!   * `pause()`: a guest-side future backed by a subtask the host leaves STARTED, to make an export suspend.
#![allow(dead_code, static_mut_refs, unused_unsafe)]
use crate::rt::{self, marker, note, Module};
use rtmock::host;
use wit_bindgen::rt::async_support as asup;

pub static mut POLICY: u32 = 0;
struct Pending {
    w: u32,
    results_ptr: usize,
    phase: u8, // 0 = STARTING reported, 1 = STARTED reported, 2 = resolved
    params_ptr: usize,
    params_ind: usize,
    ret_img: Vec<u8>,
}
static mut PENDING: Option<Pending> = None;
static mut PAUSES: Vec<u32> = Vec::new(); // subtasks backing pause() that the host has not resolved yet
static mut SNAP2: String = String::new();

fn on_block() -> bool {
    unsafe {
        let t = rt::TRACK;
        rt::TRACK = false;
        let r = match PENDING.as_mut() {
            Some(p) if p.phase == 0 => {
                // the callee is about to start: the lowered parameters must still be intact
                let mut extra = Vec::new();
                if p.params_ind > 0 {
                    extra.push((p.params_ptr, p.params_ind));
                }
                SNAP2.clear();
                rt::snapshot_pub(&extra, &mut SNAP2);
                marker(rt::M_STARTED);
                host::set_event(p.w, host::STATUS_STARTED);
                p.phase = 1;
                true
            }
            Some(p) if p.phase == 1 => {
                if !p.ret_img.is_empty() {
                    std::ptr::copy_nonoverlapping(p.ret_img.as_ptr(), p.results_ptr as *mut u8, p.ret_img.len());
                }
                host::set_event(p.w, host::STATUS_RETURNED);
                p.phase = 2;
                true
            }
            _ => false,
        };
        rt::TRACK = t;
        r
    }
}

fn async_hook(module: &str, name: &str, args: &[u64]) -> Option<u64> {
    let fname = name.strip_prefix("[async-lower]")?;
    unsafe {
        let e = match rt::EXPECT.as_mut() {
            Some(e) if !e.used && e.module == module && e.name == fname => e,
            _ => {
                note("unexpected-async-import-call");
                return Some(host::STATUS_RETURNED as u64);
            }
        };
        e.used = true;
        let mut extra = Vec::new();
        if e.indirect_params > 0 && !args.is_empty() {
            extra.push((args[0] as usize, e.indirect_params));
        }
        rt::SNAP.clear();
        rt::snapshot_pub(&extra, &mut rt::SNAP);
        let results_ptr = if e.ret_indirect { *args.last().unwrap() as usize } else { 0 };
        match POLICY {
            0 => {
                if e.ret_indirect {
                    std::ptr::copy_nonoverlapping(e.ret_img.as_ptr(), results_ptr as *mut u8, e.ret_img.len());
                }
                Some(host::STATUS_RETURNED as u64)
            }
            p => {
                let starting = p == 2;
                let packed = host::subtask_new(if starting { host::STATUS_STARTING } else { host::STATUS_STARTED });
                PENDING = Some(Pending {
                    w: packed >> 4,
                    results_ptr,
                    phase: if starting { 0 } else { 1 },
                    params_ptr: args.first().copied().unwrap_or(0) as usize,
                    params_ind: e.indirect_params,
                    ret_img: if e.ret_indirect { e.ret_img.clone() } else { Vec::new() },
                });
                host::on_block(on_block);
                Some(packed as u64)
            }
        }
    }
}

// ---- pause(): a subtask without parameters or results that the host leaves STARTED
struct Pause;
unsafe impl asup::Subtask for Pause {
    type Params = ();
    type ParamsLower = ();
    type Results = ();
    fn abi_layout(&mut self) -> std::alloc::Layout {
        std::alloc::Layout::from_size_align(0, 1).unwrap()
    }
    fn results_offset(&mut self) -> usize {
        0
    }
    unsafe fn call_import(&mut self, _p: (), _results: *mut u8) -> u32 {
        unsafe {
            let t = rt::TRACK;
            rt::TRACK = false;
            let packed = host::subtask_new(host::STATUS_STARTED);
            PAUSES.push(packed >> 4);
            rt::TRACK = t;
            packed
        }
    }
    unsafe fn params_lower(&mut self, _p: (), _dst: *mut u8) {}
    unsafe fn params_dealloc_lists(&mut self, _l: ()) {}
    unsafe fn params_dealloc_lists_and_own(&mut self, _l: ()) {}
    unsafe fn results_lift(&mut self, _src: *mut u8) {}
}
pub async fn pause() {
    use asup::Subtask as _;
    Pause.call(()).await
}

fn hlog() -> String {
    unsafe {
        let t = rt::TRACK;
        rt::TRACK = false;
        let s = host::take_log().join(",");
        rt::TRACK = t;
        s
    }
}

fn ext_cmd(f: &[&str], modules: &[Module]) -> Option<String> {
    unsafe {
        match f[0] {
            // APOLICY <n>: imports 0 = RETURNED at once, 1 = STARTED … RETURNED, 2 = STARTING … STARTED … RETURNED;
            //              exports 0 = resolve every pause, 9 = deliver EVENT_CANCEL at the first wait.  Resets the async host.
            "APOLICY" => {
                POLICY = f[1].parse().unwrap();
                host::reset();
                PENDING = None;
                PAUSES.clear();
                SNAP2.clear();
                rt::TASK_RETURNS.clear();
                Some("OK".to_string())
            }
            // AEXPORT <module> <k> <task.return area size> <flat args,> <script words,> <segments>
            "AEXPORT" => {
                let m = modules.iter().find(|x| x.name == f[1])?;
                (m.init)();
                let k: usize = f[2].parse().unwrap();
                rt::TASK_RETURN_IND = f[3].parse().unwrap();
                let args = rt::parse_words_pub(f[4]);
                let script = rt::parse_words_pub(f[5]);
                rt::write_segments_pub(f.get(6).copied().unwrap_or(""));
                rt::set_script_pub(&script);
                rt::begin_call();
                host::set_current_task(1);
                let mut codes: Vec<u32> = Vec::with_capacity(80);
                rt::TRACK = true;
                marker(rt::M_CALL_START);
                let mut code = (m.aexport)(k, &args) as u32;
                codes.push(code);
                let mut cancelled = false;
                let mut steps = 0;
                loop {
                    steps += 1;
                    if steps > 64 {
                        note("event-loop-does-not-terminate");
                        break;
                    }
                    rt::TRACK = false;
                    match code & 0xf {
                        0 => break,
                        1 => {
                            rt::TRACK = true;
                            code = (m.callback)(k, host::EVENT_NONE, 0, 0);
                        }
                        2 => {
                            let set = code >> 4;
                            if POLICY == 9 && !cancelled {
                                cancelled = true;
                                rt::TRACK = true;
                                code = (m.callback)(k, host::EVENT_CANCEL, 0, 0);
                            } else {
                                if PAUSES.is_empty() {
                                    note("task-waits-but-nothing-is-pending");
                                    break;
                                }
                                let w = PAUSES.remove(0);
                                host::set_event(w, host::STATUS_RETURNED);
                                let mut p = [0u32; 2];
                                let ev = host::waitable_set_poll(set, &mut p);
                                rt::TRACK = true;
                                code = (m.callback)(k, ev, p[0], p[1]);
                            }
                        }
                        _ => {
                            note("unknown-callback-code");
                            break;
                        }
                    }
                    codes.push(code);
                }
                rt::TRACK = true;
                marker(rt::M_CALL_END);
                rt::TRACK = false;
                Some(rt::end_call(&format!("codes={} taskret={}", codes.iter().map(|c| c.to_string()).collect::<Vec<_>>().join(","), rt::TASK_RETURNS.clone())))
            }
            _ => None,
        }
    }
}

/// dump what the async host saw (` hlog=… snap2=…` appended to the answer) and release all of its state, so that the
/// guest heap can be compared with what it was before the call
fn end_hook() {
    unsafe {
        let t = rt::TRACK;
        rt::TRACK = false;
        rt::EXTRA.push_str(&format!(" hlog={} snap2={}", host::take_log().join(","), SNAP2));
        SNAP2.clear();
        PENDING = None;
        PAUSES.clear();
        host::reset();
        rt::TRACK = t;
    }
}

pub fn init() {
    unsafe {
        if rt::EXT_CMD.is_none() {
            rt::END_HOOK = Some(end_hook);
            rt::EXT_CMD = Some(ext_cmd);
            rt::IMPORT_HOOK = Some(async_hook);
            PAUSES.reserve(64);
            SNAP2.reserve(1 << 22);
        }
    }
}
