// ---- C07 guest (template; appended after `pub mod bindings { … }` generated from c07/res.wit) ----------------------
// A small interpreter over the generated bindings: every exported function is one "activation" the host can start;
// `script` executes user-level operations on the Rust values (wrappers) the guest currently owns.
use crate::rt::{self, hev};
use bindings::c7::p::imp::{self, R};
use bindings::exports::c7::p::exp::{Guest, GuestX, XBorrow, X};

pub struct G;
/// the Rust value behind exported resource `x`; its destructor is an observable event
pub struct MyX {
    v: u32,
}
impl Drop for MyX {
    fn drop(&mut self) {
        hev(format!("destroyed:{}", self.v));
    }
}

static mut RS: Vec<Option<R>> = Vec::new(); // imported-resource wrappers the user code owns, by slot
static mut XS: Vec<Option<X>> = Vec::new(); // exported-resource wrappers the user code owns, by slot

fn push_r(r: R) {
    unsafe { RS.push(Some(r)) }
}
fn push_x(x: X) {
    unsafe { XS.push(Some(x)) }
}
fn take_r(slot: u32) -> R {
    unsafe { RS[slot as usize].take().expect("script uses a moved R wrapper") }
}
fn take_x(slot: u32) -> X {
    unsafe { XS[slot as usize].take().expect("script uses a moved X wrapper") }
}
fn ref_r(slot: u32) -> &'static R {
    unsafe { RS[slot as usize].as_ref().expect("script uses a moved R wrapper") }
}
fn ref_x(slot: u32) -> &'static X {
    unsafe { XS[slot as usize].as_ref().expect("script uses a moved X wrapper") }
}

fn run_script(ops: &[u32]) {
    let mut i = 0;
    while i < ops.len() {
        let (op, a) = (ops[i], ops.get(i + 1).copied().unwrap_or(0));
        i += 2;
        match op {
            1 => drop(take_r(a)),                       // UDrop
            2 => imp::consume(take_r(a)),               // UPassOwn (own<r> argument of an import)
            3 => {
                let _ = imp::peek(ref_r(a));            // UPassBorrow
            }
            4 => push_r(imp::make(a)),                  // import returns own<r>
            5 => push_r(R::new(a)),                     // imported constructor returns own<r>
            6 => {
                let _ = ref_r(a).get();                 // imported method: borrow<r> self
            }
            7 => {
                // consume-many: n slots follow
                let n = a as usize;
                let mut v = Vec::new();
                for k in 0..n {
                    v.push(take_r(ops[i + k]));
                }
                i += n;
                imp::consume_many(v);
            }
            8 => {
                // peek-opt(Some(&r_a) or None, &r_b)
                let b = ops[i];
                i += 1;
                if a == u32::MAX {
                    imp::peek_opt(None, ref_r(b));
                } else {
                    imp::peek_opt(Some(ref_r(a)), ref_r(b));
                }
            }
            10 => {
                hev(format!("newbox-v:{a}"));
                push_x(X::new(MyX { v: a }))            // UNew
            }
            11 => {
                let _ = ref_x(a).get::<MyX>().v;        // UGet
            }
            12 => {
                let inner: MyX = take_x(a).into_inner(); // UIntoInner
                hev(format!("touser:{}", inner.v));
                core::mem::forget(inner);               // the value now belongs to user code: no further events
            }
            13 => drop(take_x(a)),                      // UDrop of own<x>
            _ => rt::note("bad-script-op"),
        }
    }
}

impl Guest for G {
    type X = MyX;
    fn take(a: R) {
        push_r(a)
    }
    fn look(a: &R, pass_on: bool) -> u32 {
        if pass_on {
            imp::peek(a)
        } else {
            a.handle()
        }
    }
    fn give(slot: u32) -> R {
        take_r(slot)
    }
    fn give_some(slots: Vec<u32>) -> Vec<R> {
        slots.into_iter().map(take_r).collect()
    }
    fn mk(v: u32) -> X {
        hev(format!("newbox-v:{v}"));
        X::new(MyX { v })
    }
    fn take_x(a: X) {
        push_x(a)
    }
    fn look_x(a: XBorrow<'_>) -> u32 {
        a.get::<MyX>().v
    }
    fn give_x(slot: u32) -> X {
        take_x(slot)
    }
    fn script(ops: Vec<u32>) {
        run_script(&ops)
    }
}
impl GuestX for MyX {
    fn new(v: u32) -> Self {
        hev(format!("newbox-v:{v}"));
        MyX { v }
    }
    fn get(&self) -> u32 {
        self.v
    }
    fn merge(a: X, b: XBorrow<'_>) -> X {
        let _ = b.get::<MyX>().v;
        a
    }
}
// borrow<x> reached through one / two alias hops.  The parameter type is whatever the generator printed for it (taken from
// the generated trait by lib/genrun_c07.py): `XBorrow<'_>` for an exported resource; should the generator ever treat the
// aliased resource as an imported one (`&X`), the code still compiles and the host sees the stray resource.rep/drop calls.
trait Peek {
    fn peek_v(&self) -> u32;
}
impl Peek for XBorrow<'_> {
    fn peek_v(&self) -> u32 {
        self.get::<MyX>().v
    }
}
impl Peek for &X {
    fn peek_v(&self) -> u32 {
        self.handle() // no dereference: what matters is the resource.drop the glue issues on this lent "handle" afterwards
    }
}
impl bindings::exports::c7::p::view::Guest for G {
    fn peek_x(a: @VIEW_PARAM@) -> u32 {
        a.peek_v()
    }
}
impl bindings::exports::c7::p::audit::Guest for G {
    fn inspect_x(a: @AUDIT_PARAM@) -> u32 {
        a.peek_v()
    }
}
bindings::export!(G with_types_in bindings);

// ---- the host side of the imported interface (mock; CM lift/lower on the handle table of rt.rs) -----------------------
fn import_hook(module: &str, name: &str, a: &[u64]) -> Option<u64> {
    if module != "c7:p/imp" {
        return None;
    }
    Some(match name {
        // results: lower_own of a fresh host object (rep = the u32 the guest passed)
        "make" | "[constructor]r" => rt::ht_add(rt::HEntry { kind: 0, rep: a[0], own: true, lends: 0 }) as u64,
        "consume" => {
            rt::ht_lift_own(a[0] as u32);
            0
        }
        "peek" | "[method]r.get" => rt::ht_lift_borrow(a[0] as u32),
        "consume-many" => {
            let (p, n) = (a[0] as usize as *const u32, a[1] as usize);
            for k in 0..n {
                rt::ht_lift_own(unsafe { *p.add(k) });
            }
            0
        }
        "peek-opt" => {
            if a[0] as u32 == 1 {
                rt::ht_lift_borrow(a[1] as u32);
            }
            rt::ht_lift_borrow(a[2] as u32);
            0
        }
        _ => return None,
    })
}

unsafe fn dtor_hook(rep: *mut u8) {
    unsafe { dtor_sym(rep) }
}
extern "C" {
    #[link_name = "@PREFIX@c7:p/exp#[dtor]x"]
    fn dtor_sym(rep: *mut u8);
    #[link_name = "@PREFIX@c7:p/exp#take"]
    fn e_take(a: u32);
    #[link_name = "@PREFIX@c7:p/exp#look"]
    fn e_look(a: u32, pass_on: u32) -> u32;
    #[link_name = "@PREFIX@c7:p/exp#give"]
    fn e_give(slot: u32) -> u32;
    #[link_name = "@PREFIX@c7:p/exp#give-some"]
    fn e_give_some(p: u64, n: u64) -> u64;
    #[link_name = "@PREFIX@cabi_post_c7:p/exp#give-some"]
    fn e_give_some_post(r: u64);
    #[link_name = "@PREFIX@c7:p/exp#mk"]
    fn e_mk(v: u32) -> u32;
    #[link_name = "@PREFIX@c7:p/exp#take-x"]
    fn e_take_x(a: u32);
    #[link_name = "@PREFIX@c7:p/exp#look-x"]
    fn e_look_x(rep: u32) -> u32;
    #[link_name = "@PREFIX@c7:p/exp#give-x"]
    fn e_give_x(slot: u32) -> u32;
    #[link_name = "@PREFIX@c7:p/exp#script"]
    fn e_script(p: u64, n: u64);
    #[link_name = "@PREFIX@c7:p/exp#[constructor]x"]
    fn e_ctor_x(v: u32) -> u32;
    #[link_name = "@PREFIX@c7:p/exp#[method]x.get"]
    fn e_method_get(rep: u32) -> u32;
    #[link_name = "@PREFIX@c7:p/exp#[static]x.merge"]
    fn e_merge(a: u32, b_rep: u32) -> u32;
    #[link_name = "@PREFIX@c7:p/view#peek-x"]
    fn e_peek_x(rep: u32) -> u32;
    #[link_name = "@PREFIX@c7:p/audit#inspect-x"]
    fn e_inspect_x(rep: u32) -> u32;
}
pub fn init() {
    unsafe {
        if rt::IMPORT_HOOK.is_none() {
            rt::IMPORT_HOOK = Some(import_hook);
            rt::DTOR = Some(dtor_hook);
            RS.reserve(1 << 12);
            XS.reserve(1 << 12);
        }
    }
}
/// export dispatch: 0 take, 1 look, 2 give, 3 give-some, 4 mk, 5 take-x, 6 look-x, 7 give-x, 8 script, 9 [constructor]x,
/// 10 [method]x.get, 11 [static]x.merge
pub fn export(k: usize, a: &[u64]) -> u64 {
    unsafe {
        match k {
            0 => {
                e_take(a[0] as u32);
                0
            }
            1 => e_look(a[0] as u32, a[1] as u32) as u64,
            2 => e_give(a[0] as u32) as u64,
            3 => e_give_some(a[0], a[1]),
            4 => e_mk(a[0] as u32) as u64,
            5 => {
                e_take_x(a[0] as u32);
                0
            }
            6 => e_look_x(a[0] as u32) as u64,
            7 => e_give_x(a[0] as u32) as u64,
            8 => {
                e_script(a[0], a[1]);
                0
            }
            9 => e_ctor_x(a[0] as u32) as u64,
            10 => e_method_get(a[0] as u32) as u64,
            11 => e_merge(a[0] as u32, a[1] as u32) as u64,
            12 => e_peek_x(a[0] as u32) as u64,
            13 => e_inspect_x(a[0] as u32) as u64,
            _ => {
                rt::note("no-such-export");
                0
            }
        }
    }
}
pub fn post(k: usize, w: u64) {
    unsafe {
        if k == 3 {
            e_give_some_post(w)
        }
    }
}
pub fn import(_k: usize) {
    rt::note("no-such-import")
}
