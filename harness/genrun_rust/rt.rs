//! Native runtime of a genrun guest crate (template; copied verbatim into every generated crate as src/rt.rs).
//!
//! * `TrackAlloc`  — counting, poisoning, red-zoned global allocator with a live-block table and an event log
//!                   (alloc/free/markers); detects double frees, frees of unknown pointers, frees with a layout
//!                   different from the allocation's, red-zone corruption.
//! * `S`           — reader of the value script the host sent (what the guest code has to produce)
//! * `L`           — the observation log: every leaf scalar the guest code received
//! * `Conv`        — leaf conversions chosen by type inference (owned vs. borrowed renderings of one WIT type)
//! * `host_import` — the mock host: every generated non-wasm import shim is rewritten to call it
//! * `main_loop`   — line protocol (see lib/genrun_rust.py)
#![allow(dead_code, static_mut_refs, unused_unsafe, clippy::all)]
use std::alloc::{GlobalAlloc, Layout, System};
use std::io::{BufRead, Write};

// ------------------------------------------------------------------------------------------ allocator
pub struct TrackAlloc;

const TBL_BITS: usize = 14;
const TBL: usize = 1 << TBL_BITS;
#[derive(Clone, Copy)]
struct Block {
    ptr: usize, // 0 = empty
    size: usize,
    align: usize,
    tracked: bool,
    arena: bool, // allocated from the low-memory arena (never returned to the system)
    rz: usize,   // red zone this block was allocated with (the setting may change at start-up)
}
static mut BLOCKS: [Block; TBL] = [Block { ptr: 0, size: 0, align: 0, tracked: false, arena: false, rz: 0 }; TBL];

/// Low-memory arena (GENRUN_LOWMEM=1): tracked blocks are carved out of a region mapped below 2^32 (mmap MAP_32BIT), so
/// that generated code which squeezes a pointer through an i32 core value (`XBorrow::lift(arg as u32 as usize)`, right on
/// wasm32) also works natively.  Bump allocation, no reuse (freed blocks stay poisoned).
pub static mut LOWMEM: bool = false;
static mut ARENA_BASE: usize = 0;
static mut ARENA_NEXT: usize = 0;
const ARENA_SIZE: usize = 1 << 28;
unsafe fn arena_alloc(size: usize, align: usize) -> *mut u8 {
    unsafe {
        if ARENA_BASE == 0 {
            let ret: isize;
            core::arch::asm!("syscall", inlateout("rax") 9isize => ret, in("rdi") 0usize, in("rsi") ARENA_SIZE, in("rdx") 3usize,
                in("r10") 0x22usize | 0x40 | 0x4000, in("r8") -1isize, in("r9") 0usize, lateout("rcx") _, lateout("r11") _, options(nostack));
            if ret < 0 || (ret as usize) + ARENA_SIZE > (1usize << 32) {
                return core::ptr::null_mut();
            }
            ARENA_BASE = ret as usize;
            ARENA_NEXT = ARENA_BASE;
        }
        let p = (ARENA_NEXT + align - 1) & !(align - 1);
        if p + size > ARENA_BASE + ARENA_SIZE {
            return core::ptr::null_mut();
        }
        ARENA_NEXT = p + size;
        p as *mut u8
    }
}
static mut NBLOCKS: usize = 0;
pub static mut TRACK: bool = false;
pub static mut REDZONE: bool = true;

const MAXEV: usize = 1 << 16;
#[derive(Clone, Copy)]
pub struct Ev {
    pub kind: u8, // b'A' alloc, b'F' free, b'M' marker, b'E' error
    pub ptr: usize,
    pub size: usize,
    pub align: usize,
    pub code: u32, // marker id / error code
}
static mut EVS: [Ev; MAXEV] = [Ev { kind: 0, ptr: 0, size: 0, align: 0, code: 0 }; MAXEV];
static mut NEV: usize = 0;

pub const E_UNKNOWN_FREE: u32 = 1; // free of a pointer that is not live (double free / foreign pointer)
pub const E_LAYOUT: u32 = 2; // free with a size/align different from the allocation's
pub const E_REDZONE: u32 = 3; // bytes before/after the block were overwritten
pub const E_TABLE_FULL: u32 = 4;

fn ev(kind: u8, ptr: usize, size: usize, align: usize, code: u32) {
    unsafe {
        if NEV < MAXEV {
            EVS[NEV] = Ev { kind, ptr, size, align, code };
            NEV += 1;
        }
    }
}
pub fn marker(code: u32) {
    ev(b'M', 0, 0, 0, code);
}
fn rz(align: usize) -> usize {
    unsafe {
        if !REDZONE {
            return 0;
        }
    }
    if align > 16 { align } else { 16 }
}
fn slot(ptr: usize) -> usize {
    (ptr.wrapping_mul(0x9E37_79B9_7F4A_7C15) >> (64 - TBL_BITS)) & (TBL - 1)
}
unsafe fn tbl_insert(b: Block) -> bool {
    unsafe {
        if NBLOCKS * 2 > TBL {
            return false;
        }
        let mut i = slot(b.ptr);
        loop {
            if BLOCKS[i].ptr == 0 {
                BLOCKS[i] = b;
                NBLOCKS += 1;
                return true;
            }
            i = (i + 1) & (TBL - 1);
        }
    }
}
/// linear-probing deletion without tombstones: re-insert the rest of the cluster
unsafe fn tbl_remove(i: usize) {
    unsafe {
        BLOCKS[i].ptr = 0;
        NBLOCKS -= 1;
        let mut j = (i + 1) & (TBL - 1);
        while BLOCKS[j].ptr != 0 {
            let b = BLOCKS[j];
            BLOCKS[j].ptr = 0;
            NBLOCKS -= 1;
            tbl_insert(b);
            j = (j + 1) & (TBL - 1);
        }
    }
}
unsafe fn tbl_find(ptr: usize) -> Option<usize> {
    unsafe {
        let mut i = slot(ptr);
        let mut n = 0;
        loop {
            if BLOCKS[i].ptr == 0 || n > TBL {
                return None;
            }
            if BLOCKS[i].ptr == ptr {
                return Some(i);
            }
            i = (i + 1) & (TBL - 1);
            n += 1;
        }
    }
}

unsafe impl GlobalAlloc for TrackAlloc {
    unsafe fn alloc(&self, layout: Layout) -> *mut u8 {
        unsafe {
            let r = rz(layout.align());
            let inner = Layout::from_size_align_unchecked(layout.size() + 2 * r, layout.align());
            let mut arena = false;
            let mut base = core::ptr::null_mut();
            if LOWMEM && TRACK {
                base = arena_alloc(inner.size(), inner.align());
                arena = !base.is_null();
            }
            if base.is_null() {
                base = System.alloc(inner);
            }
            if base.is_null() {
                return base;
            }
            for i in 0..r {
                *base.add(i) = 0xFB;
                *base.add(r + layout.size() + i) = 0xFB;
            }
            let p = base.add(r);
            for i in 0..layout.size() {
                *p.add(i) = 0xA5;
            }
            let tracked = TRACK;
            if !tbl_insert(Block { ptr: p as usize, size: layout.size(), align: layout.align(), tracked, arena, rz: r }) {
                ev(b'E', p as usize, layout.size(), layout.align(), E_TABLE_FULL);
            }
            if tracked {
                ev(b'A', p as usize, layout.size(), layout.align(), 0);
            }
            p
        }
    }
    unsafe fn dealloc(&self, p: *mut u8, layout: Layout) {
        unsafe {
            match tbl_find(p as usize) {
                None => {
                    // never hand an unknown pointer to the system allocator
                    ev(b'E', p as usize, layout.size(), layout.align(), E_UNKNOWN_FREE);
                }
                Some(i) => {
                    let b = BLOCKS[i];
                    tbl_remove(i);
                    if b.size != layout.size() || b.align != layout.align() {
                        ev(b'E', p as usize, layout.size(), layout.align(), E_LAYOUT);
                    }
                    if b.tracked || TRACK {
                        ev(b'F', p as usize, b.size, b.align, if b.tracked { 0 } else { 1 });
                    }
                    let r = b.rz;
                    let base = p.sub(r);
                    let mut bad = false;
                    for k in 0..r {
                        if *base.add(k) != 0xFB || *base.add(r + b.size + k) != 0xFB {
                            bad = true;
                        }
                    }
                    if bad {
                        ev(b'E', p as usize, b.size, b.align, E_REDZONE);
                    }
                    for k in 0..b.size {
                        *p.add(k) = 0xDD;
                    }
                    if !b.arena {
                        System.dealloc(base, Layout::from_size_align_unchecked(b.size + 2 * r, b.align));
                    }
                }
            }
        }
    }
}

/// every live block that was allocated while tracking was on: (ptr, size, align)
pub fn live_tracked() -> Vec<(usize, usize, usize)> {
    let mut v = Vec::new();
    unsafe {
        let t = TRACK;
        TRACK = false;
        for i in 0..TBL {
            let b = BLOCKS[i];
            if b.ptr != 0 && b.tracked {
                v.push((b.ptr, b.size, b.align));
            }
        }
        v.sort();
        TRACK = t;
    }
    v
}
/// check the red zones of all live tracked blocks (overflow that has not been freed yet)
pub fn check_redzones() {
    unsafe {
        for i in 0..TBL {
            let b = BLOCKS[i];
            if b.ptr != 0 && b.tracked {
                let r = b.rz;
                let base = (b.ptr as *const u8).sub(r);
                for k in 0..r {
                    if *base.add(k) != 0xFB || *base.add(r + b.size + k) != 0xFB {
                        ev(b'E', b.ptr, b.size, b.align, E_REDZONE);
                        break;
                    }
                }
            }
        }
    }
}
pub fn host_alloc(size: usize, align: usize) -> usize {
    unsafe {
        let t = TRACK;
        TRACK = true;
        let p = std::alloc::alloc(Layout::from_size_align(size, align).unwrap());
        TRACK = t;
        p as usize
    }
}
pub fn host_free(ptr: usize, size: usize, align: usize) {
    unsafe {
        let t = TRACK;
        TRACK = true;
        std::alloc::dealloc(ptr as *mut u8, Layout::from_size_align(size, align).unwrap());
        TRACK = t;
    }
}
fn take_events() -> String {
    let mut s = String::new();
    unsafe {
        let t = TRACK;
        TRACK = false;
        for i in 0..NEV {
            let e = EVS[i];
            if !s.is_empty() {
                s.push(',');
            }
            match e.kind {
                b'M' => s.push_str(&format!("M{}", e.code)),
                b'E' => s.push_str(&format!("E{}:{}:{}:{}", e.code, e.ptr, e.size, e.align)),
                k => s.push_str(&format!("{}{}:{}:{}{}", k as char, e.ptr, e.size, e.align, if e.code != 0 { "u" } else { "" })),
            }
        }
        if NEV >= MAXEV {
            s.push_str(",OVERFLOW");
        }
        NEV = 0;
        TRACK = t;
    }
    s
}

// ------------------------------------------------------------------------------------------ script and log
const MAXW: usize = 1 << 20;
static mut SCRIPT: [u64; MAXW] = [0; MAXW];
static mut SLEN: usize = 0;
static mut SPOS: usize = 0;
static mut LOG: [u64; MAXW] = [0; MAXW];
static mut LLEN: usize = 0;
static mut RT_ERR: [u8; 4096] = [0; 4096];
static mut RT_ERR_LEN: usize = 0;

/// runtime-level error notes that must not allocate (reported with the response)
pub fn note(msg: &str) {
    unsafe {
        for b in msg.bytes().chain(std::iter::once(b';')) {
            if RT_ERR_LEN < RT_ERR.len() {
                RT_ERR[RT_ERR_LEN] = if b == b' ' { b'_' } else { b };
                RT_ERR_LEN += 1;
            }
        }
    }
}
fn take_notes() -> String {
    unsafe {
        let s = String::from_utf8_lossy(&RT_ERR[..RT_ERR_LEN]).to_string();
        RT_ERR_LEN = 0;
        s
    }
}

pub struct S;
impl S {
    pub fn next() -> u64 {
        unsafe {
            if SPOS >= SLEN {
                note("script-underrun");
                return 0;
            }
            SPOS += 1;
            SCRIPT[SPOS - 1]
        }
    }
    pub fn bytes() -> Vec<u8> {
        let n = S::next() as usize;
        let mut v = Vec::with_capacity(n);
        for _ in 0..n {
            v.push(S::next() as u8);
        }
        v
    }
    pub fn ch() -> char {
        char::from_u32(S::next() as u32).unwrap_or('\u{fffd}')
    }
    pub fn done() -> bool {
        unsafe { SPOS == SLEN }
    }
}
pub struct L;
impl L {
    pub fn w(x: u64) {
        unsafe {
            if LLEN < MAXW {
                LOG[LLEN] = x;
                LLEN += 1;
            }
        }
    }
    pub fn bytes(b: &[u8]) {
        L::w(b.len() as u64);
        for x in b {
            L::w(*x as u64);
        }
    }
}
fn set_script(words: &[u64]) {
    unsafe {
        SLEN = words.len().min(MAXW);
        SCRIPT[..SLEN].copy_from_slice(&words[..SLEN]);
        SPOS = 0;
        LLEN = 0;
    }
}
fn take_log() -> String {
    unsafe {
        let s = LOG[..LLEN].iter().map(|w| w.to_string()).collect::<Vec<_>>().join(",");
        LLEN = 0;
        s
    }
}

// ------------------------------------------------------------------------------------------ arena for 'static borrows
static mut ARENA: Vec<Box<dyn FnOnce()>> = Vec::new();
pub fn arena_push(f: Box<dyn FnOnce()>) {
    unsafe { ARENA.push(f) }
}
pub fn arena_clear() {
    unsafe {
        while let Some(f) = ARENA.pop() {
            f();
        }
    }
}

/// Leaf conversions selected by the expected type at the use site: the same WIT type is rendered by the
/// generator as `String`/`&str`/`Vec<u8>`/`&[u8]`, `Vec<T>`/`&[T]`, `T`/`&T`, `Map`/`&Map` depending on the
/// ownership option and on where the type is used.  Borrowed renderings get `'static` references to values
/// parked in the arena until the call is over.
pub trait Conv<T> {
    fn conv(self) -> T;
}
impl<T> Conv<T> for T {
    fn conv(self) -> T {
        self
    }
}
impl<T: 'static> Conv<&'static T> for T {
    fn conv(self) -> &'static T {
        let p: *mut T = Box::into_raw(Box::new(self));
        arena_push(Box::new(move || unsafe { drop(Box::from_raw(p)) }));
        unsafe { &*p }
    }
}
impl<T: 'static> Conv<&'static [T]> for Vec<T> {
    fn conv(self) -> &'static [T] {
        let p: *mut [T] = Box::into_raw(self.into_boxed_slice());
        arena_push(Box::new(move || unsafe { drop(Box::from_raw(p)) }));
        unsafe { &*p }
    }
}
pub fn conv<A: Conv<B>, B>(a: A) -> B {
    a.conv()
}
/// strings: built from bytes (valid UTF-8 by construction on the host side)
pub trait ConvStr<T> {
    fn conv_str(self) -> T;
}
impl ConvStr<String> for Vec<u8> {
    fn conv_str(self) -> String {
        String::from_utf8(self).expect("host sent invalid utf-8")
    }
}
impl ConvStr<Vec<u8>> for Vec<u8> {
    fn conv_str(self) -> Vec<u8> {
        self
    }
}
impl ConvStr<&'static str> for Vec<u8> {
    fn conv_str(self) -> &'static str {
        let s: String = self.conv_str();
        let p: *mut str = Box::into_raw(s.into_boxed_str());
        arena_push(Box::new(move || unsafe { drop(Box::from_raw(p)) }));
        unsafe { &*p }
    }
}
impl ConvStr<&'static [u8]> for Vec<u8> {
    fn conv_str(self) -> &'static [u8] {
        conv(self)
    }
}
pub fn conv_str<B>(a: Vec<u8>) -> B
where
    Vec<u8>: ConvStr<B>,
{
    a.conv_str()
}
/// maps: built from entry vectors
pub trait ConvMap<T> {
    fn conv_map(self) -> T;
}
impl<K: Ord, V> ConvMap<std::collections::BTreeMap<K, V>> for Vec<(K, V)> {
    fn conv_map(self) -> std::collections::BTreeMap<K, V> {
        self.into_iter().collect()
    }
}
impl<K: std::hash::Hash + Eq, V> ConvMap<std::collections::HashMap<K, V>> for Vec<(K, V)> {
    fn conv_map(self) -> std::collections::HashMap<K, V> {
        self.into_iter().collect()
    }
}
impl<K: Ord + 'static, V: 'static> ConvMap<&'static std::collections::BTreeMap<K, V>> for Vec<(K, V)> {
    fn conv_map(self) -> &'static std::collections::BTreeMap<K, V> {
        let m: std::collections::BTreeMap<K, V> = self.conv_map();
        conv(m)
    }
}
impl<K: std::hash::Hash + Eq + 'static, V: 'static> ConvMap<&'static std::collections::HashMap<K, V>> for Vec<(K, V)> {
    fn conv_map(self) -> &'static std::collections::HashMap<K, V> {
        let m: std::collections::HashMap<K, V> = self.conv_map();
        conv(m)
    }
}
pub fn conv_map<A: ConvMap<B>, B>(a: A) -> B {
    a.conv_map()
}

// ------------------------------------------------------------------------------------------ core value words
pub trait ToWord {
    fn w(self) -> u64;
}
impl ToWord for i32 {
    fn w(self) -> u64 {
        self as u32 as u64
    }
}
impl ToWord for i64 {
    fn w(self) -> u64 {
        self as u64
    }
}
impl ToWord for f32 {
    fn w(self) -> u64 {
        self.to_bits() as u64
    }
}
impl ToWord for f64 {
    fn w(self) -> u64 {
        self.to_bits()
    }
}
impl ToWord for *mut u8 {
    fn w(self) -> u64 {
        self as usize as u64
    }
}
impl ToWord for usize {
    fn w(self) -> u64 {
        self as u64
    }
}
impl ToWord for ::core::mem::MaybeUninit<u64> {
    fn w(self) -> u64 {
        unsafe { self.assume_init() }
    }
}
pub trait FromWord {
    fn r(w: u64) -> Self;
}
impl FromWord for () {
    fn r(_: u64) {}
}
impl FromWord for i32 {
    fn r(w: u64) -> i32 {
        w as u32 as i32
    }
}
impl FromWord for i64 {
    fn r(w: u64) -> i64 {
        w as i64
    }
}
impl FromWord for f32 {
    fn r(w: u64) -> f32 {
        f32::from_bits(w as u32)
    }
}
impl FromWord for f64 {
    fn r(w: u64) -> f64 {
        f64::from_bits(w)
    }
}
impl FromWord for *mut u8 {
    fn r(w: u64) -> *mut u8 {
        w as usize as *mut u8
    }
}
impl FromWord for usize {
    fn r(w: u64) -> usize {
        w as usize
    }
}
impl FromWord for ::core::mem::MaybeUninit<u64> {
    fn r(w: u64) -> Self {
        ::core::mem::MaybeUninit::new(w)
    }
}

// ------------------------------------------------------------------------------------------ mock host
pub const M_CALL_START: u32 = 1;
pub const M_HOST_ENTER: u32 = 2;
pub const M_HOST_EXIT: u32 = 3;
pub const M_CALL_END: u32 = 4;
pub const M_WALK_END: u32 = 5;
pub const M_DROP_END: u32 = 6;
pub const M_IMPL_ENTER: u32 = 7;
pub const M_IMPL_WALKED: u32 = 8;
pub const M_IMPL_BUILT: u32 = 9;
pub const M_POST_START: u32 = 10;
pub const M_POST_END: u32 = 11;
pub const M_BUILD_START: u32 = 12;

pub struct Expect {
    pub module: String,
    pub name: String,
    pub indirect_params: usize, // size of the parameter area if the parameters travel through memory, else 0
    pub ret_indirect: bool,
    pub ret_flat: u64,
    pub ret_img: Vec<u8>,
    pub used: bool,
}
pub static mut EXPECT: Option<Expect> = None;
static mut CALLS: String = String::new(); // preallocated in main
pub static mut SNAP: String = String::new(); // memory snapshot taken inside the host call

fn hex(bytes: &[u8], out: &mut String) {
    const H: &[u8; 16] = b"0123456789abcdef";
    for b in bytes {
        out.push(H[(b >> 4) as usize] as char);
        out.push(H[(b & 15) as usize] as char);
    }
}
fn snapshot(extra: &[(usize, usize)], out: &mut String) {
    // every live tracked block + the extra ranges; no allocation is recorded while this runs
    unsafe {
        let t = TRACK;
        TRACK = false;
        for (p, n) in extra.iter().copied().chain(live_tracked().into_iter().map(|(p, s, _)| (p, s))) {
            if n == 0 {
                continue;
            }
            if !out.is_empty() {
                out.push(';');
            }
            out.push_str(&p.to_string());
            out.push(':');
            hex(std::slice::from_raw_parts(p as *const u8, n), out);
        }
        TRACK = t;
    }
}

/// Every rewritten import shim lands here.
pub fn host_import(module: &'static str, name: &'static str, args: &[u64]) -> u64 {
    unsafe {
        let t = TRACK;
        TRACK = false;
        marker(M_HOST_ENTER);
        if !CALLS.is_empty() {
            CALLS.push(';');
        }
        CALLS.push_str(module);
        CALLS.push('|');
        CALLS.push_str(name);
        CALLS.push('|');
        for (i, a) in args.iter().enumerate() {
            if i > 0 {
                CALLS.push(',');
            }
            CALLS.push_str(&a.to_string());
        }
        let mut ret = 0u64;
        if name.starts_with("[task-return]") {
            marker(M_TASK_RETURN);
            if !TASK_RETURNS.is_empty() {
                TASK_RETURNS.push(';');
            }
            TASK_RETURNS.push_str(name);
            TASK_RETURNS.push('|');
            TASK_RETURNS.push_str(&args.iter().map(|a| a.to_string()).collect::<Vec<_>>().join(","));
            let mut extra = Vec::new();
            if TASK_RETURN_IND > 0 && !args.is_empty() {
                extra.push((args[0] as usize, TASK_RETURN_IND));
            }
            SNAP.clear();
            snapshot(&extra, &mut SNAP);
            marker(M_HOST_EXIT);
            TRACK = t;
            return 0;
        }
        let hooked = match IMPORT_HOOK {
            Some(h) if !name.starts_with("[resource-") => h(module, name, args),
            _ => None,
        };
        if let Some(r) = hooked {
            ret = r;
        } else if name.starts_with("[resource-") {
            ret = crate::rt::resource_intrinsic(module, name, args);
        } else {
            match EXPECT.as_mut() {
                Some(e) if !e.used && e.module == module && e.name == name => {
                    e.used = true;
                    let mut extra = Vec::new();
                    if e.indirect_params > 0 && !args.is_empty() {
                        extra.push((args[0] as usize, e.indirect_params));
                    }
                    snapshot(&extra, &mut SNAP);
                    if e.ret_indirect {
                        let dst = *args.last().unwrap() as usize as *mut u8;
                        std::ptr::copy_nonoverlapping(e.ret_img.as_ptr(), dst, e.ret_img.len());
                    } else {
                        ret = e.ret_flat;
                    }
                }
                _ => note("unexpected-import-call"),
            }
        }
        marker(M_HOST_EXIT);
        TRACK = t;
        ret
    }
}

// ------------------------------------------------------------------------------------------ resources: the host's handle table (C07)
/// A second transcription (the first is Core/ResourceOwn.v) of the Component Model handle table of one component
/// instance: entries {kind, rep, own, lends}, indices from 1 with LIFO reuse of freed indices, canon resource.new /
/// resource.rep / resource.drop, lift_own / lift_borrow / lower_own / lower_borrow, "every borrow handle lent to a call
/// must be dropped before it returns".  Violations are logged as `trap:<rule>` events, never raised.
#[derive(Clone, Copy)]
pub struct HEntry {
    pub kind: u8, // 0 = imported resource, 1 = exported resource (implemented by this guest)
    pub rep: u64,
    pub own: bool,
    pub lends: u32,
}
pub static mut HT: Vec<Option<HEntry>> = Vec::new();
pub static mut HT_FREE: Vec<u32> = Vec::new();
pub static mut NEED_DROP: u32 = 0;
pub static mut BOXES: Vec<u64> = Vec::new(); // rep pointers of exported-resource boxes in creation order (#k)
pub static mut HEV: Vec<String> = Vec::new(); // event log of the host table and of the guest's value lifecycle
pub static mut DTOR: Option<unsafe fn(*mut u8)> = None; // the exported destructor (registered by the module)
pub static mut IMPORT_HOOK: Option<fn(&str, &str, &[u64]) -> Option<u64>> = None;
/// protocol extension (rt_async.rs registers the async commands here)
pub static mut EXT_CMD: Option<fn(&[&str], &[Module]) -> Option<String>> = None;
/// extra `key=value` fields appended to the next EXPORT/IMPORT response
pub static mut EXTRA: String = String::new();
/// `[task-return]` calls seen: name|args
pub static mut TASK_RETURNS: String = String::new();
/// called at the end of every host-driven call, before the heap is inspected (rt_async.rs: dump and reset the async host)
pub static mut END_HOOK: Option<fn()> = None;
pub static mut TASK_RETURN_IND: usize = 0; // size of the result area if task.return passes a pointer
pub const M_TASK_RETURN: u32 = 13;
pub const M_STARTED: u32 = 14;

pub fn hev(s: String) {
    unsafe {
        let t = TRACK;
        TRACK = false;
        HEV.push(s);
        TRACK = t;
    }
}
pub fn box_index(rep: u64) -> String {
    unsafe {
        match BOXES.iter().position(|b| *b == rep) {
            Some(k) => format!("#{k}"),
            None => format!("?{rep}"),
        }
    }
}
pub fn ht_add(e: HEntry) -> u32 {
    unsafe {
        let t = TRACK;
        TRACK = false;
        if HT.is_empty() {
            HT.push(None);
        }
        let i = match HT_FREE.pop() {
            Some(i) => {
                HT[i as usize] = Some(e);
                i
            }
            None => {
                HT.push(Some(e));
                (HT.len() - 1) as u32
            }
        };
        HEV.push(format!("newh:{}:{}", i, e.own as u8));
        TRACK = t;
        i
    }
}
pub fn ht_get(i: u32) -> Option<HEntry> {
    unsafe { HT.get(i as usize).copied().flatten() }
}
fn ht_remove(i: u32) {
    unsafe {
        let t = TRACK;
        TRACK = false;
        HT[i as usize] = None;
        HT_FREE.push(i);
        TRACK = t;
    }
}
/// the host runs the exported destructor on a box
pub fn host_dtor(rep: u64) {
    hev(format!("dtor:{}", box_index(rep)));
    unsafe {
        match DTOR {
            Some(f) => {
                let t = TRACK;
                TRACK = true;
                f(rep as usize as *mut u8);
                TRACK = t;
            }
            None => hev("trap:no-dtor-registered".to_string()),
        }
    }
}
/// lift_own: the host takes an own handle out of the guest's table (own<T> argument of an import / result of an export)
pub fn ht_lift_own(i: u32) -> u64 {
    match ht_get(i) {
        None => {
            hev(format!("trap:lift-own-absent:{i}"));
            0
        }
        Some(e) => {
            if !e.own {
                hev(format!("trap:lift-own-of-borrow:{i}"));
                return 0;
            }
            if e.lends != 0 {
                hev(format!("trap:lift-own-while-lent:{i}"));
                return 0;
            }
            ht_remove(i);
            hev(format!("took:{}:{}", i, if e.kind == 1 { box_index(e.rep) } else { e.rep.to_string() }));
            e.rep
        }
    }
}
/// lift_borrow for the duration of an import call (lend count +1 … -1: net zero, logged)
pub fn ht_lift_borrow(i: u32) -> u64 {
    match ht_get(i) {
        None => {
            hev(format!("trap:lift-borrow-absent:{i}"));
            0
        }
        Some(e) => {
            hev(format!("lend:{i}"));
            e.rep
        }
    }
}
pub fn resource_intrinsic(_module: &str, name: &str, args: &[u64]) -> u64 {
    unsafe {
        if name.starts_with("[resource-new]") {
            let t = TRACK;
            TRACK = false;
            BOXES.push(args[0]);
            TRACK = t;
            return ht_add(HEntry { kind: 1, rep: args[0], own: true, lends: 0 }) as u64;
        }
        if name.starts_with("[resource-rep]") {
            return match ht_get(args[0] as u32) {
                Some(e) => e.rep,
                None => {
                    hev(format!("trap:rep-absent:{}", args[0]));
                    0
                }
            };
        }
        if name.starts_with("[resource-drop]") {
            let i = args[0] as u32;
            match ht_get(i) {
                None => hev(format!("trap:drop-absent:{i}")),
                Some(e) => {
                    if e.lends != 0 {
                        hev(format!("trap:drop-while-lent:{i}"));
                    } else {
                        hev(format!("drop:{}:{}", i, e.own as u8));
                        ht_remove(i);
                        if e.own {
                            if e.kind == 1 {
                                host_dtor(e.rep);
                            }
                        } else if NEED_DROP == 0 {
                            hev("trap:need-drop-underflow".to_string());
                        } else {
                            NEED_DROP -= 1;
                        }
                    }
                }
            }
            return 0;
        }
        0
    }
}
fn ht_dump() -> String {
    unsafe {
        let mut v = Vec::new();
        for (i, e) in HT.iter().enumerate() {
            if let Some(e) = e {
                v.push(format!("{}:{}:{}:{}", i, e.kind, e.own as u8, if e.kind == 1 { box_index(e.rep) } else { e.rep.to_string() }));
            }
        }
        let mut bx = Vec::new();
        for (k, b) in BOXES.iter().enumerate() {
            if tbl_find(*b as usize).is_some() {
                bx.push(format!("#{k}"));
            }
        }
        format!("tbl={} need={} free={} boxes={}", v.join(","), NEED_DROP, HT_FREE.iter().rev().map(|x| x.to_string()).collect::<Vec<_>>().join(","), bx.join(","))
    }
}
fn take_hev() -> String {
    unsafe {
        let s = HEV.join(",");
        HEV.clear();
        s
    }
}

// ------------------------------------------------------------------------------------------ protocol
pub struct Module {
    pub name: &'static str,
    /// call export number k with flat arguments -> flat result word (0 if none)
    pub export: fn(usize, &[u64]) -> u64,
    /// call the post-return function of export k (no-op if it has none) with the export's result word
    pub post: fn(usize, u64),
    /// build the arguments of import k from the script, call the wrapper, log the result, drop everything
    pub import: fn(usize),
    /// one-time initialisation (registers hooks); may be a no-op
    pub init: fn(),
    /// async exports: call the `[async-lift]` entry of export k -> status code; and its `[callback]` function
    pub aexport: fn(usize, &[u64]) -> u64,
    pub callback: fn(usize, u32, u32, u32) -> u32,
}
pub fn no_aexport(_k: usize, _a: &[u64]) -> u64 {
    note("module-has-no-async-exports");
    0
}
pub fn no_callback(_k: usize, _e0: u32, _e1: u32, _e2: u32) -> u32 {
    0
}

fn parse_words(s: &str) -> Vec<u64> {
    if s.is_empty() {
        return vec![];
    }
    s.split(',').map(|w| w.parse::<u64>().unwrap()).collect()
}
fn unhex(s: &str) -> Vec<u8> {
    (0..s.len() / 2).map(|i| u8::from_str_radix(&s[2 * i..2 * i + 2], 16).unwrap()).collect()
}
fn write_segments(s: &str) {
    for seg in s.split(';') {
        if seg.is_empty() {
            continue;
        }
        let (a, h) = seg.split_once(':').unwrap();
        let a: usize = a.parse().unwrap();
        let b = unhex(h);
        unsafe { std::ptr::copy_nonoverlapping(b.as_ptr(), a as *mut u8, b.len()) };
    }
}

pub fn snapshot_pub(extra: &[(usize, usize)], out: &mut String) {
    snapshot(extra, out)
}
pub fn parse_words_pub(s: &str) -> Vec<u64> {
    parse_words(s)
}
pub fn write_segments_pub(s: &str) {
    write_segments(s)
}
pub fn set_script_pub(w: &[u64]) {
    set_script(w)
}
/// start of a host-driven call: clear per-call state
pub fn begin_call() {
    unsafe {
        CALLS.clear();
        SNAP.clear();
        EXPECT = None;
    }
    take_events();
}
/// end of a host-driven call: the standard answer fields plus `more`
pub fn end_call(more: &str) -> String {
    if let Some(h) = unsafe { END_HOOK } {
        h();
    }
    check_redzones();
    let under = unsafe { SPOS != SLEN };
    let extra = unsafe { let e = EXTRA.clone(); EXTRA.clear(); e };
    format!("OK log={} ev={} calls={} notes={}{} live={} {}{} segs={}", take_log(), take_events(), unsafe { CALLS.clone() }, take_notes(),
        if under { "script-not-consumed;" } else { "" }, live_str(), more, extra, unsafe { SNAP.clone() })
}
fn live_str() -> String {
    live_tracked().iter().map(|(p, s, a)| format!("{p}:{s}:{a}")).collect::<Vec<_>>().join(",")
}

pub fn main_loop(modules: &[Module]) {
    unsafe {
        CALLS.reserve(1 << 20);
        SNAP.reserve(1 << 24);
        ARENA.reserve(1 << 16);
        HT.reserve(1 << 12);
        HT_FREE.reserve(1 << 12);
        BOXES.reserve(1 << 12);
        HEV.reserve(1 << 14);
        EXTRA.reserve(1 << 24);
        TASK_RETURNS.reserve(1 << 16);
        if std::env::var("GENRUN_NO_REDZONE").is_ok() {
            REDZONE = false;
        }
        if std::env::var("GENRUN_LOWMEM").is_ok() {
            LOWMEM = true;
        }
    }
    let stdin = std::io::stdin();
    let stdout = std::io::stdout();
    let mut out = stdout.lock();
    let find = |m: &str| {
        let r = modules.iter().find(|x| x.name == m);
        if let Some(x) = r {
            (x.init)();
        }
        r
    };
    for line in stdin.lock().lines() {
        let line = line.unwrap();
        let f: Vec<&str> = line.split(' ').collect();
        let ext = unsafe { EXT_CMD }.and_then(|h| h(&f, modules));
        let resp = if let Some(r) = ext { r } else { match f[0] {
            "PING" => "PONG".to_string(),
            "MODULES" => modules.iter().map(|m| m.name).collect::<Vec<_>>().join(","),
            // ALLOC size:align ...   -> addresses (allocated with the guest's allocator, tracked)
            "ALLOC" => {
                let mut r = Vec::new();
                for t in &f[1..] {
                    let (s, a) = t.split_once(':').unwrap();
                    r.push(host_alloc(s.parse().unwrap(), a.parse().unwrap()).to_string());
                }
                take_events();
                format!("OK {}", r.join(" "))
            }
            "FREE" => {
                for t in &f[1..] {
                    let p: Vec<usize> = t.split(':').map(|x| x.parse().unwrap()).collect();
                    host_free(p[0], p[1], p[2]);
                }
                format!("OK ev={}", take_events())
            }
            "WRITE" => {
                write_segments(f[1]);
                "OK".to_string()
            }
            "LIVE" => {
                check_redzones();
                format!("OK live={} ev={}", live_str(), take_events())
            }
            // EXPORT <module> <k> <retsize> <flat args,> <script words,> <segments to write first>
            "EXPORT" => match find(f[1]) {
                None => "ERR no-such-module".to_string(),
                Some(m) => {
                    let k: usize = f[2].parse().unwrap();
                    let retsize: usize = f[3].parse().unwrap();
                    let args = parse_words(f[4]);
                    let script = parse_words(f[5]);
                    write_segments(f.get(6).copied().unwrap_or(""));
                    set_script(&script);
                    unsafe {
                        CALLS.clear();
                        SNAP.clear();
                        EXPECT = None;
                    }
                    take_events();
                    unsafe { TRACK = true };
                    marker(M_CALL_START);
                    let ret = (m.export)(k, &args);
                    marker(M_CALL_END);
                    unsafe { TRACK = false };
                    check_redzones();
                    let mut segs = String::new();
                    let extra = if retsize > 0 { vec![(ret as usize, retsize)] } else { vec![] };
                    snapshot(&extra, &mut segs);
                    let under = unsafe { SPOS != SLEN };
                    format!("OK ret={} log={} ev={} calls={} notes={}{} live={} segs={}", ret, take_log(), take_events(), unsafe { CALLS.clone() }, take_notes(),
                        if under { "script-not-consumed;" } else { "" }, live_str(), segs)
                }
            },
            // POST <module> <k> <ret word>
            "POST" => match find(f[1]) {
                None => "ERR no-such-module".to_string(),
                Some(m) => {
                    let k: usize = f[2].parse().unwrap();
                    let w: u64 = f[3].parse().unwrap();
                    unsafe { CALLS.clear() };
                    take_events();
                    unsafe { TRACK = true };
                    marker(M_POST_START);
                    (m.post)(k, w);
                    marker(M_POST_END);
                    unsafe { TRACK = false };
                    check_redzones();
                    format!("OK ev={} calls={} notes={} live={}", take_events(), unsafe { CALLS.clone() }, take_notes(), live_str())
                }
            },
            // IMPORT <module> <k> <wasm module> <wasm name> <indirect params size> <flat|mem|none> <ret flat word|ret image hex>
            //        <script words,> <segments to write first>
            "IMPORT" => match find(f[1]) {
                None => "ERR no-such-module".to_string(),
                Some(m) => {
                    let k: usize = f[2].parse().unwrap();
                    let e = Expect {
                        module: f[3].replace('\x1f', " "),
                        name: f[4].replace('\x1f', " "),
                        indirect_params: f[5].parse().unwrap(),
                        ret_indirect: f[6] == "mem",
                        ret_flat: if f[6] == "flat" { f[7].parse().unwrap() } else { 0 },
                        ret_img: if f[6] == "mem" { unhex(f[7]) } else { vec![] },
                        used: false,
                    };
                    let script = parse_words(f[8]);
                    write_segments(f.get(9).copied().unwrap_or(""));
                    set_script(&script);
                    unsafe {
                        CALLS.clear();
                        SNAP.clear();
                        EXPECT = Some(e);
                    }
                    take_events();
                    unsafe { TRACK = true };
                    marker(M_BUILD_START);
                    (m.import)(k);
                    marker(M_DROP_END);
                    unsafe { TRACK = false };
                    check_redzones();
                    let used = unsafe { EXPECT.as_ref().map(|e| e.used).unwrap_or(false) };
                    unsafe { EXPECT = None };
                    if let Some(h) = unsafe { END_HOOK } {
                        h();
                    }
                    let under = unsafe { SPOS != SLEN };
                    let extra = unsafe { let e = EXTRA.clone(); EXTRA.clear(); e };
                    format!("OK log={} ev={} calls={} notes={}{}{} live={}{} segs={}", take_log(), take_events(), unsafe { CALLS.clone() }, take_notes(),
                        if used { "" } else { "import-not-called;" }, if under { "script-not-consumed;" } else { "" }, live_str(), extra, unsafe { SNAP.clone() })
                }
            },
            // HT ADD <kind> <own> <rep|#k>  |  HT LIFTOWN <h>  |  HT ENDCALL  |  HT DTOR <#k>  |  HT DUMP  |  HT BOXPTR <#k>
            "HT" => {
                let rep_of = |t: &str| -> u64 {
                    if let Some(k) = t.strip_prefix('#') { unsafe { BOXES[k.parse::<usize>().unwrap()] } } else { t.parse().unwrap() }
                };
                match f[1] {
                    "ADD" => {
                        let own = f[3] == "1";
                        if !own {
                            unsafe { NEED_DROP += 1 };
                        }
                        let h = ht_add(HEntry { kind: f[2].parse().unwrap(), own, rep: rep_of(f[4]), lends: 0 });
                        format!("OK {h}")
                    }
                    "LIFTOWN" => {
                        ht_lift_own(f[2].parse().unwrap());
                        "OK".to_string()
                    }
                    "ENDCALL" => {
                        unsafe {
                            if NEED_DROP != 0 {
                                hev(format!("trap:borrow-outstanding-at-return:{}", NEED_DROP));
                                NEED_DROP = 0;
                            }
                        }
                        "OK".to_string()
                    }
                    "DTOR" => {
                        take_events();
                        host_dtor(rep_of(f[2]));
                        check_redzones();
                        format!("OK ev={}", take_events())
                    }
                    "BOXPTR" => format!("OK {}", rep_of(f[2])),
                    "DUMP" => format!("OK {} hev={} live={}", ht_dump(), take_hev(), live_str()),
                    _ => "ERR bad-ht-command".to_string(),
                }
            }
            "QUIT" => break,
            _ => "ERR bad-command".to_string(),
        } };
        writeln!(out, "{resp}").unwrap();
        out.flush().unwrap();
    }
}
