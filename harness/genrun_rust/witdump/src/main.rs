//! witdump: structural dump of a WIT world as the real wit-parser resolves it, with the Rust identifiers the
//! Rust generator derives from the WIT names (heck + wit_bindgen_rust::to_rust_ident + name_package_module).
//! Used by lib/genrun_rust.py to generate the native guest crates of C05–C08.
//!
//! Input line : <world name or empty>\x1e<WIT text with newlines as \x1f>
//! Output line: JSON object (see `dump`) or `err <message>`.
use heck::*;
use std::collections::HashMap;
use std::fmt::Write as _;
use std::io::{self, BufRead, Write};
use wit_bindgen_core::name_package_module;
use wit_bindgen_rust::to_rust_ident;
use wit_parser::*;

fn js(s: &str) -> String {
    let mut o = String::from("\"");
    for c in s.chars() {
        match c {
            '"' => o.push_str("\\\""),
            '\\' => o.push_str("\\\\"),
            '\n' => o.push_str("\\n"),
            c if (c as u32) < 0x20 => write!(o, "\\u{:04x}", c as u32).unwrap(),
            c => o.push(c),
        }
    }
    o.push('"');
    o
}
fn jlist(v: &[String]) -> String {
    format!("[{}]", v.join(","))
}
fn camel(name: &str) -> String {
    // crates/rust/src/lib.rs::to_upper_camel_case (private there)
    match name {
        "guest" => "Guest_".to_string(),
        s => s.to_upper_camel_case(),
    }
}

struct D<'a> {
    r: &'a Resolve,
    /// InterfaceId -> module path of the generated Rust module
    ipath: HashMap<InterfaceId, Vec<String>>,
    exported_ifaces: Vec<InterfaceId>,
}

fn module_path(r: &Resolve, key: &WorldKey, is_export: bool) -> Vec<String> {
    // crates/rust/src/lib.rs::compute_module_path
    let mut path = Vec::new();
    if is_export {
        path.push("exports".to_string());
    }
    match key {
        WorldKey::Name(n) => path.push(to_rust_ident(n)),
        WorldKey::Interface(id) => {
            let iface = &r.interfaces[*id];
            let pkg = iface.package.unwrap();
            path.push(to_rust_ident(&r.packages[pkg].name.namespace));
            path.push(name_package_module(r, pkg));
            path.push(to_rust_ident(iface.name.as_ref().unwrap()));
        }
    }
    path
}

impl<'a> D<'a> {
    fn owner_path(&self, id: TypeId) -> String {
        match self.r.types[id].owner {
            TypeOwner::Interface(i) => match self.ipath.get(&i) {
                Some(p) => jlist(&p.iter().map(|s| js(s)).collect::<Vec<_>>()),
                None => "null".into(),
            },
            TypeOwner::World(_) => "[]".into(),
            TypeOwner::None => "null".into(),
        }
    }
    fn named(&self, id: TypeId) -> String {
        let t = &self.r.types[id];
        let n = t.name.as_ref().unwrap();
        format!("\"wit\":{},\"rust\":{},\"path\":{}", js(n), js(&camel(n)), self.owner_path(id))
    }
    fn opt(&self, t: Option<&Type>) -> String {
        match t {
            Some(t) => self.ty(t),
            None => "null".into(),
        }
    }
    fn ty(&self, t: &Type) -> String {
        self.ty_named(t, None)
    }
    /// `outer`: the outermost named alias through which this type was reached (its name/path are what
    /// generated code in the using module can write).
    fn ty_named(&self, t: &Type, outer: Option<TypeId>) -> String {
        let prim = |s: &str| format!("{{\"k\":\"{s}\"}}");
        match t {
            Type::Bool => prim("bool"),
            Type::U8 => prim("u8"),
            Type::S8 => prim("s8"),
            Type::U16 => prim("u16"),
            Type::S16 => prim("s16"),
            Type::U32 => prim("u32"),
            Type::S32 => prim("s32"),
            Type::U64 => prim("u64"),
            Type::S64 => prim("s64"),
            Type::F32 => prim("f32"),
            Type::F64 => prim("f64"),
            Type::Char => prim("char"),
            Type::String => prim("string"),
            Type::ErrorContext => prim("errctx"),
            Type::Id(id) => {
                let def = &self.r.types[*id];
                let outer = outer.or(if def.name.is_some() { Some(*id) } else { None });
                let nm = |me: &Self| match outer {
                    Some(o) => format!(",{}", me.named(o)),
                    None => String::new(),
                };
                match &def.kind {
                    TypeDefKind::Type(t) => self.ty_named(t, outer),
                    TypeDefKind::List(t) => format!("{{\"k\":\"list\",\"t\":{}}}", self.ty(t)),
                    TypeDefKind::FixedLengthList(t, n) => format!("{{\"k\":\"fixed\",\"t\":{},\"n\":{}}}", self.ty(t), n),
                    TypeDefKind::Map(k, v) => format!("{{\"k\":\"map\",\"key\":{},\"val\":{}}}", self.ty(k), self.ty(v)),
                    TypeDefKind::Option(t) => format!("{{\"k\":\"option\",\"t\":{}}}", self.ty(t)),
                    TypeDefKind::Result(res) => format!("{{\"k\":\"result\",\"ok\":{},\"err\":{}}}", self.opt(res.ok.as_ref()), self.opt(res.err.as_ref())),
                    TypeDefKind::Tuple(tu) => format!("{{\"k\":\"tuple\",\"ts\":{}}}", jlist(&tu.types.iter().map(|t| self.ty(t)).collect::<Vec<_>>())),
                    TypeDefKind::Record(rec) => {
                        let fs = rec.fields.iter().map(|f| format!("{{\"wit\":{},\"rust\":{},\"t\":{}}}", js(&f.name), js(&to_rust_ident(&f.name)), self.ty(&f.ty))).collect::<Vec<_>>();
                        format!("{{\"k\":\"record\"{},\"fields\":{}}}", nm(self), jlist(&fs))
                    }
                    TypeDefKind::Variant(v) => {
                        let cs = v.cases.iter().map(|c| format!("{{\"wit\":{},\"rust\":{},\"t\":{}}}", js(&c.name), js(&c.name.to_upper_camel_case()), self.opt(c.ty.as_ref()))).collect::<Vec<_>>();
                        format!("{{\"k\":\"variant\"{},\"cases\":{}}}", nm(self), jlist(&cs))
                    }
                    TypeDefKind::Enum(e) => {
                        let cs = e.cases.iter().map(|c| js(&c.name.to_upper_camel_case())).collect::<Vec<_>>();
                        format!("{{\"k\":\"enum\"{},\"cases\":{}}}", nm(self), jlist(&cs))
                    }
                    TypeDefKind::Flags(f) => {
                        let cs = f.flags.iter().map(|c| js(&c.name.to_shouty_snake_case())).collect::<Vec<_>>();
                        format!("{{\"k\":\"flags\"{},\"flags\":{}}}", nm(self), jlist(&cs))
                    }
                    TypeDefKind::Handle(h) => {
                        let (k, rid) = match h {
                            Handle::Own(r) => ("own", *r),
                            Handle::Borrow(r) => ("borrow", *r),
                        };
                        format!("{{\"k\":\"{k}\",\"res\":{}}}", self.resource(rid))
                    }
                    TypeDefKind::Future(p) => format!("{{\"k\":\"future\",\"t\":{}}}", self.opt(p.as_ref())),
                    TypeDefKind::Stream(p) => format!("{{\"k\":\"stream\",\"t\":{}}}", self.opt(p.as_ref())),
                    TypeDefKind::Resource => format!("{{\"k\":\"resource\",\"res\":{}}}", self.resource(*id)),
                    TypeDefKind::Unknown => prim("unknown"),
                }
            }
        }
    }
    fn resource(&self, rid: TypeId) -> String {
        // name/path as visible at the use site (possibly an alias); `def_*` = the defining interface
        let mut d = rid;
        loop {
            match &self.r.types[d].kind {
                TypeDefKind::Type(Type::Id(n)) => d = *n,
                _ => break,
            }
        }
        let exported = match self.r.types[d].owner {
            TypeOwner::Interface(i) => self.exported_ifaces.contains(&i),
            _ => false,
        };
        let dn = self.r.types[d].name.as_ref().unwrap();
        let iface_key = match self.r.types[d].owner {
            TypeOwner::Interface(i) => self.r.id_of(i).unwrap_or_default(),
            _ => String::new(),
        };
        format!("{{{},\"def_wit\":{},\"def_rust\":{},\"def_path\":{},\"def_iface\":{},\"exported\":{}}}",
            self.named(rid), js(dn), js(&camel(dn)), self.owner_path(d), js(&iface_key), exported)
    }
    fn func(&self, dir: &str, key: Option<&WorldKey>, f: &Function) -> String {
        let is_export = dir == "export";
        let keyname = key.map(|k| self.r.name_world_key(k));
        let path = match key {
            Some(k) => module_path(self.r, k, is_export),
            None => vec![],
        };
        let (kind, res) = match &f.kind {
            FunctionKind::Freestanding => ("freestanding", None),
            FunctionKind::AsyncFreestanding => ("async-freestanding", None),
            FunctionKind::Method(r) => ("method", Some(*r)),
            FunctionKind::AsyncMethod(r) => ("async-method", Some(*r)),
            FunctionKind::Static(r) => ("static", Some(*r)),
            FunctionKind::AsyncStatic(r) => ("async-static", Some(*r)),
            FunctionKind::Constructor(r) => ("constructor", Some(*r)),
        };
        let params = f.params.iter().map(|p| format!("{{\"wit\":{},\"rust\":{},\"t\":{}}}", js(&p.name), js(&to_rust_ident(&p.name)), self.ty(&p.ty))).collect::<Vec<_>>();
        let item = if let FunctionKind::Constructor(_) = f.kind { "new".to_string() } else { to_rust_ident(f.item_name()) };
        format!("{{\"dir\":{},\"iface\":{},\"path\":{},\"name\":{},\"rust\":{},\"snake\":{},\"kind\":{},\"resource\":{},\"params\":{},\"result\":{},\"core_name\":{}}}",
            js(dir), keyname.as_ref().map(|s| js(s)).unwrap_or("null".into()),
            jlist(&path.iter().map(|s| js(s)).collect::<Vec<_>>()), js(&f.name), js(&item),
            js(&f.name.to_snake_case().replace('.', "_")), js(kind),
            res.map(|r| self.resource(r)).unwrap_or("null".into()),
            jlist(&params), self.opt(f.result.as_ref()),
            js(&f.legacy_core_export_name(keyname.as_deref())))
    }
}

fn dump(text: &str, world: Option<&str>) -> anyhow::Result<String> {
    let mut r = Resolve::default();
    r.all_features = true;
    let pkg = r.push_str("case.wit", text)?;
    let w = r.select_world(&[pkg], world)?;
    // what WorldGenerator::generate does first for the Rust generator (uses_nominal_type_ids): an interface that
    // is both imported and exported gets a separate copy (own InterfaceId / TypeIds) for the export
    r.generate_nominal_type_ids(w);
    let world = &r.worlds[w];
    let mut d = D { r: &r, ipath: HashMap::new(), exported_ifaces: vec![] };
    for (k, it) in world.imports.iter() {
        if let WorldItem::Interface { id, .. } = it {
            d.ipath.insert(*id, module_path(&r, k, false));
        }
    }
    for (k, it) in world.exports.iter() {
        if let WorldItem::Interface { id, .. } = it {
            d.ipath.insert(*id, module_path(&r, k, true));
            d.exported_ifaces.push(*id);
        }
    }
    let mut funcs = Vec::new();
    let mut resources = Vec::new();
    for (dir, items) in [("import", &world.imports), ("export", &world.exports)] {
        for (k, it) in items.iter() {
            match it {
                WorldItem::Function(f) => funcs.push(d.func(dir, None, f)),
                WorldItem::Interface { id, .. } => {
                    for (_, f) in r.interfaces[*id].functions.iter() {
                        funcs.push(d.func(dir, Some(k), f));
                    }
                    for (n, tid) in r.interfaces[*id].types.iter() {
                        if let TypeDefKind::Resource = r.types[*tid].kind {
                            resources.push(format!("{{\"dir\":{},\"iface\":{},\"path\":{},\"wit\":{},\"rust\":{}}}", js(dir), js(&r.name_world_key(k)),
                                jlist(&module_path(&r, k, dir == "export").iter().map(|s| js(s)).collect::<Vec<_>>()), js(n), js(&camel(n))));
                        }
                    }
                }
                WorldItem::Type { id, .. } => {
                    if let TypeDefKind::Resource = r.types[*id].kind {
                        let n = r.types[*id].name.as_ref().unwrap();
                        resources.push(format!("{{\"dir\":{},\"iface\":null,\"path\":[],\"wit\":{},\"rust\":{}}}", js(dir), js(n), js(&camel(n))));
                    }
                }
            }
        }
    }
    Ok(format!("{{\"world\":{},\"world_snake\":{},\"funcs\":{},\"resources\":{}}}", js(&world.name), js(&world.name.to_snake_case()), jlist(&funcs), jlist(&resources)))
}

fn main() {
    let stdin = io::stdin();
    let out = io::stdout();
    let mut out = out.lock();
    for line in stdin.lock().lines() {
        let line = line.unwrap();
        let (w, text) = line.split_once('\x1e').unwrap_or(("", &line));
        let text = text.replace('\x1f', "\n");
        let wopt = if w.is_empty() { None } else { Some(w) };
        let res = std::panic::catch_unwind(|| dump(&text, wopt));
        let s = match res {
            Ok(Ok(s)) => s,
            Ok(Err(e)) => format!("err {}", format!("{e:#}").replace('\n', " ")),
            Err(_) => "err panic".to_string(),
        };
        writeln!(out, "{s}").unwrap();
    }
}
