(* genrun copy of ocaml/util.ml: identical except that iter_lines flushes stdout after every answer, so that
   ocaml/abi_driver.ml (compiled unchanged against this file) can be used as an interactive service. *)
(* shared helpers for drivers: conversions between OCaml strings and extracted char lists *)
let explode (s : string) : char list = List.init (String.length s) (String.get s)
let implode (l : char list) : string = String.of_seq (List.to_seq l)
let split_ws (s : string) : string list =
  List.filter (fun x -> x <> "") (String.split_on_char ' ' s)
let iter_lines (f : string -> string) : unit =
  try
    while true do
      let l = input_line stdin in
      print_string (try f l with e -> "MODEL-EXN " ^ Printexc.to_string e);
      print_char '\n'; flush stdout
    done
  with End_of_file -> ()
