"""C13 scraper for the MoonBit backend: imports are `fn name(p : T, ..) -> R = "module" "field"`;
exports are the `link.wasm.exports` entries ("mbtName:core name") of the generated gen/moon.pkg.json together with
the `pub fn mbtName(..) -> R` definitions of that package (for the signature)."""
import re, json
from c13_common import mk, line_of, word_counts, text_files, split_params, mark_referenced

IMPORT = re.compile(r'^(?:pub\s+)?(?:extern\s+"wasm"\s+)?fn\s+(?P<f>[A-Za-z_][A-Za-z0-9_]*)\s*\((?P<p>[^)]*)\)[ \t]*(?:->[ \t]*(?P<r>[^=\n{]+?))?[ \t]*=[ \t]*"(?P<m>[^"]*)"[ \t]+"(?P<n>[^"]*)"', re.M)
FN = re.compile(r'^pub\s+fn\s+(?P<f>[A-Za-z_][A-Za-z0-9_]*)\s*\((?P<p>[^)]*)\)\s*(?:->\s*(?P<r>[^{]+?))?\s*\{', re.M)
TY = {"Int": "i", "UInt": "i", "Int64": "I", "UInt64": "I", "Float": "f", "Double": "F", "Bool": "i", "Byte": "i"}


def sig_of(params, ret):
    ps = ""
    for p in split_params(params):
        if ":" not in p:
            return "?"
        ps += TY.get(p.split(":", 1)[1].strip(), "?")
    rs = "" if ret is None or ret.strip() in ("", "Unit") else TY.get(ret.strip(), "?")
    s = ps + ">" + rs
    return "?" if "?" in s else s


def scrape(files):
    out = []
    mbt = text_files(files, [".mbt"])
    wcs = {}
    for fn, t in mbt.items():
        for m in IMPORT.finditer(t):
            d = fn.rsplit("/", 1)[0] if "/" in fn else ""
            if d not in wcs:
                wcs[d] = word_counts(tt for nn, tt in mbt.items() if (nn.rsplit("/", 1)[0] if "/" in nn else "") == d)
            out.append(mk("I", m.group("m"), m.group("n"), sig_of(m.group("p"), m.group("r")), m.group("f"), fn,
                          line_of(t, m.start())))
            out[-1]["_scope"] = d
    for fn, t in files.items():
        if not fn.endswith("moon.pkg.json") or not isinstance(t, str):
            continue
        try:
            j = json.loads(t)
        except Exception:
            out.append(mk("E", "", "<unparseable %s>" % fn, "?", "?", fn, 0))
            continue
        exports = (((j.get("link") or {}).get("wasm") or {}).get("exports")) or []
        d = fn[: -len("moon.pkg.json")]
        defs = {}
        for gn, gt in mbt.items():
            if gn.startswith(d) and "/" not in gn[len(d):]:
                for m in FN.finditer(gt):
                    defs[m.group("f")] = (sig_of(m.group("p"), m.group("r")), gn, line_of(gt, m.start()))
        for e in exports:
            if ":" not in e:
                out.append(mk("E", "", e, "?", e, fn, 0))
                continue
            ident, name = e.split(":", 1)
            sig, gn, ln = defs.get(ident, ("?", fn, 0))
            out.append(mk("E", "", name, sig, ident, gn, ln))
    return mark_referenced(out, wcs)
