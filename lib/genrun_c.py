"""genrun_c — engine shared by C10 and C11: generated C bindings compiled NATIVELY (clang, x86-64, pw = 8) and run
against the Coq canonical-ABI oracle (coq/theories/Canon/Spec.v served by build/ocaml/abi_driver).

Pipeline for a batch of (world, generator options) pairs:
  1. harness/crates/cdescribe: the REAL C generator's files + a JSON description of the world as wit-parser resolves
     it (named type trees, canonical core import/export names from Resolve::wasm_{import,export}_name).
  2. The generated header is PARSED (typedef structs, prototypes, section comments) and the generated .c is scraped
     for its `__import_module__/__import_name__` declarations and `__export_name__` definitions: every C identifier
     the test program uses (type names, member names, function names, core symbols) comes from the generated text.
  3. The oracle draws values (SPEC gen), says which guest allocations a host must make (SPEC allocs) and produces the
     flat core values / memory images (SPEC lower) at addresses of a fixed host arena.
  4. A test program is emitted per pair: mock host (= definitions of every `__wasm_import_*`), user-side export
     implementations that render every received leaf scalar into a log and return oracle-chosen values, user-side
     import callers, and a `main` that drives `__wasm_export_*` / `*_post_return`; an allocation ledger sits under
     malloc/realloc/free (harness/genrun_c/gr_rt.c, gr_prelude.h).  The generated <world>.c is compiled unmodified.
  5. The program's transcript is judged: values by lifting what the C code handed to the host with the oracle
     (SPEC lift) and by comparing leaf logs (C10); the ledger by phase (C11).
"""
import concurrent.futures, hashlib, json, os, re, shutil, time
import vf

RT_DIR = os.path.join(vf.ROOT, "harness", "genrun_c")
OUT_ROOT = os.path.join(vf.BUILD, "genrun_c")
ARENA_BASE = 0x20000000
CALL_REGION = 0x100000          # host-arena bytes reserved per call
MAX_FLAT_PARAMS = 16            # Spec.MAX_FLAT_PARAMS
MAX_FLAT_RESULTS = 1            # Spec.MAX_FLAT_RESULTS
PW = 8

CONFIGS = [
    ("default", ""),
    ("no-sig-flattening", "--no-sig-flattening"),
    ("autodrop", "--autodrop-borrows yes"),
    ("utf16", "--string-encoding utf16"),
]


class Tie(Exception):
    """The generated text does not have the shape this engine relies on (tie broken, not a property violation)."""


# =============================================================================================== C header parsing
TOK = re.compile(r"//[^\n]*|/\*.*?\*/|#[^\n]*|\"[^\"]*\"|[A-Za-z_]\w*|\d+|\S", re.S)
SECTION = re.compile(r"//\s*(Imported|Exported) Functions from `(.*)`")


class CTy:
    __slots__ = ("name", "nptr")

    def __init__(self, name, nptr=0):
        self.name, self.nptr = name, nptr

    def __repr__(self):
        return self.name + "*" * self.nptr


class CMember:
    __slots__ = ("ty", "name", "sub")

    def __init__(self, ty, name, sub=None):
        self.ty, self.name, self.sub = ty, name, sub


class CProto:
    def __init__(self, name, ret, params, section, extern):
        self.name, self.ret, self.params, self.section, self.extern = name, ret, params, section, extern

    def text(self):
        ps = ", ".join("%s %s%s" % (t.name, "*" * t.nptr, n) for t, n in self.params) or "void"
        return "%s %s%s(%s)" % (self.ret.name, "*" * self.ret.nptr, self.name, ps)


def _decl(tokens):
    """tokens of `const T * name` -> (CTy, name or None)"""
    ids = [t for t in tokens if re.match(r"[A-Za-z_]\w*$", t) and t not in ("const", "extern", "volatile", "struct")]
    nptr = sum(1 for t in tokens if t == "*")
    if not ids:
        raise Tie("cannot parse declarator %r" % (tokens,))
    if len(ids) == 1:
        return CTy(ids[0], nptr), None
    return CTy(" ".join(ids[:-1]), nptr), ids[-1]


class CHeader:
    def __init__(self, text):
        self.typedefs = {}     # name -> ("struct", [CMember]) | ("alias", CTy) | ("fwd", tag)
        self.protos = []       # CProto in order
        self.order = []
        toks = []
        for m in TOK.finditer(text):
            t = m.group(0)
            if t.startswith("//"):
                s = SECTION.match(t)
                if s:
                    toks.append(("SEC", (s.group(1), s.group(2))))
                elif t.strip() in ("// Helper Functions", "// Async Helper Functions"):
                    toks.append(("SEC", None))
                continue
            if t.startswith("/*") or t.startswith("#"):
                continue
            toks.append(t)
        self.toks = toks
        self.i = 0
        self._top()

    def _peek(self, k=0):
        return self.toks[self.i + k] if self.i + k < len(self.toks) else None

    def _until_semicolon(self):
        out, depth = [], 0
        while self.i < len(self.toks):
            t = self.toks[self.i]
            self.i += 1
            if t == ";" and depth == 0:
                return out
            if t in ("(", "{", "["):
                depth += 1
            elif t in (")", "}", "]"):
                depth -= 1
            out.append(t)
        return out

    def _members(self):
        """after '{' ; consumes the matching '}'"""
        ms = []
        while True:
            t = self._peek()
            if t is None:
                raise Tie("unterminated struct in header")
            if t == "}":
                self.i += 1
                return ms
            if t in ("union", "struct") and self._peek(1) == "{":
                self.i += 2
                sub = self._members()
                rest = self._until_semicolon()
                _, name = _decl(["x"] + rest)
                ms.append(CMember(None, name, sub))
                continue
            toks = self._until_semicolon()
            if any(isinstance(x, tuple) for x in toks):
                raise Tie("section comment inside a struct")
            ty, name = _decl(toks)
            if name is None:
                raise Tie("unnamed member %r" % (toks,))
            ms.append(CMember(ty, name))

    def _top(self):
        section = None
        while self.i < len(self.toks):
            t = self.toks[self.i]
            if isinstance(t, tuple):
                section = t[1]
                self.i += 1
                continue
            if t == "extern" and isinstance(self._peek(1), str) and self._peek(1).startswith('"'):
                self.i += 3
                continue
            if t == "}":
                self.i += 1
                continue
            if t == "typedef":
                self.i += 1
                k = self._peek()
                if k in ("struct", "union", "enum"):
                    self.i += 1
                    tag = None
                    if self._peek() != "{":
                        tag = self._peek()
                        self.i += 1
                    if self._peek() == "{":
                        self.i += 1
                        if k == "enum":
                            depth = 1
                            while depth:
                                x = self.toks[self.i]
                                self.i += 1
                                depth += (x == "{") - (x == "}")
                            rest = self._until_semicolon()
                            _, name = _decl(["x"] + rest)
                            self.typedefs[name] = ("alias", CTy("int", 0))
                        else:
                            ms = self._members()
                            rest = self._until_semicolon()
                            _, name = _decl(["x"] + rest)
                            self.typedefs[name] = ("struct", ms)
                        self.order.append(name)
                    else:
                        rest = self._until_semicolon()
                        ty, name = _decl([tag] + rest)
                        if name is None:
                            raise Tie("typedef struct without a name")
                        if ty.nptr == 0 and ty.name == tag:
                            self.typedefs.setdefault(name, ("fwd", tag))
                        else:
                            self.typedefs[name] = ("alias", ty)
                        self.order.append(name)
                else:
                    toks = self._until_semicolon()
                    ty, name = _decl(toks)
                    if name is None:
                        raise Tie("typedef without a name: %r" % (toks,))
                    self.typedefs[name] = ("alias", ty)
                    self.order.append(name)
                continue
            toks = self._until_semicolon()
            if "(" not in toks:
                continue
            p = toks.index("(")
            head, rest = toks[:p], toks[p + 1:]
            # matching ')'
            depth, j = 1, 0
            while j < len(rest) and depth:
                depth += (rest[j] == "(") - (rest[j] == ")")
                j += 1
            inner = rest[:j - 1]
            ret, name = _decl(head)
            if name is None:
                continue
            params, cur, depth = [], [], 0
            for x in inner:
                if x == "," and depth == 0:
                    params.append(cur)
                    cur = []
                else:
                    depth += (x in "([") - (x in ")]") if len(x) == 1 else 0
                    cur.append(x)
            if cur:
                params.append(cur)
            ps = []
            for q in params:
                if q == ["void"]:
                    continue
                if "(" in q:
                    ps.append((CTy("fnptr", 0), None))
                    continue
                ps.append(_decl(q))
            self.protos.append(CProto(name, ret, ps, section, "extern" in head))

    # -- queries
    def resolve(self, ty):
        """Follow typedef aliases.  -> ("struct", members, nptr) | ("prim", name, nptr) | ("fwd", tag, nptr)"""
        name, nptr = ty.name, ty.nptr
        for _ in range(64):
            d = self.typedefs.get(name)
            if d is None:
                return ("prim", name, nptr)
            if d[0] == "struct":
                return ("struct", d[1], nptr)
            if d[0] == "fwd":
                return ("fwd", d[1], nptr)
            name, nptr = d[1].name, nptr + d[1].nptr
        raise Tie("typedef cycle at " + ty.name)

    def proto(self, name):
        for p in self.protos:
            if p.name == name:
                return p
        return None

    def free_helper(self, tyname):
        """`void X_free(T *ptr)` declared for exactly this typedef name."""
        for p in self.protos:
            if p.name.endswith("_free") and len(p.params) == 1 and p.params[0][0].name == tyname and p.params[0][0].nptr == 1 \
                    and p.ret.name == "void":
                return p.name
        return None


# =============================================================================================== .c scraping
IMPORT_DECL = re.compile(
    r"__attribute__\(\(\s*__import_module__\(\"([^\"]*)\"\),\s*__import_name__\(\"([^\"]*)\"\)\)\)\s*"
    r"(?:extern\s+)?([A-Za-z_][\w \*]*?)\s*\b(\w+)\s*\(([^)]*)\)\s*;")
EXPORT_DEF = re.compile(
    r"__attribute__\(\((__weak__,\s*)?__export_name__\(\"([^\"]*)\"\)\)\)\s*"
    r"([A-Za-z_][\w \*]*?)\s*\b(\w+)\s*\(([^)]*)\)\s*\{")


def _ctype_of(text):
    text = text.strip()
    nptr = text.count("*")
    ids = [w for w in re.findall(r"[A-Za-z_]\w*", text) if w not in ("const", "extern")]
    return ids, nptr


class CSource:
    def __init__(self, text):
        self.text = text
        self.imports = {}   # (module, name) -> dict(symbol, ret, params[CTy])
        self.exports = {}   # export name -> dict(symbol, ret, params[(CTy, name)], weak)
        for m in IMPORT_DECL.finditer(text):
            mod, name, ret, sym, ps = m.groups()
            params = []
            for q in [x for x in ps.split(",") if x.strip()]:
                ids, nptr = _ctype_of(q)
                if ids == ["void"] and nptr == 0:
                    continue
                # declarations may or may not name their parameters
                tyname = ids[0] if len(ids) <= 1 or ids[0] not in ("unsigned", "signed", "struct") else " ".join(ids[:-1])
                params.append(CTy(tyname, nptr))
            ids, nptr = _ctype_of(ret)
            self.imports[(mod, name)] = {"symbol": sym, "ret": CTy(ids[-1], nptr), "params": params}
        for m in EXPORT_DEF.finditer(text):
            weak, name, ret, sym, ps = m.groups()
            params = []
            for q in [x for x in ps.split(",") if x.strip()]:
                ids, nptr = _ctype_of(q)
                if ids == ["void"] and nptr == 0:
                    continue
                params.append((CTy(ids[0], nptr), ids[-1] if len(ids) > 1 else None))
            ids, nptr = _ctype_of(ret)
            self.exports[name] = {"symbol": sym, "ret": CTy(ids[-1], nptr), "params": params, "weak": bool(weak)}
        m = re.search(r"extern void (__component_type_object_force_link_\w+)\(void\);", text)
        self.force_link = m.group(1) if m else None


# =============================================================================================== WIT type trees
PRIM_C = {"bool": "bool", "u8": "uint8_t", "s8": "int8_t", "u16": "uint16_t", "s16": "int16_t", "u32": "uint32_t",
          "s32": "int32_t", "u64": "uint64_t", "s64": "int64_t", "f32": "float", "f64": "double", "char": "uint32_t"}
INT_BITS = {"u8": 8, "s8": 8, "u16": 16, "s16": 16, "u32": 32, "s32": 32, "u64": 64, "s64": 64, "char": 32}


def strip_alias(t):
    while t is not None and t["k"] == "alias":
        t = t["t"]
    return t


def oracle_ty(t, utf16=False):
    t = strip_alias(t)
    k = t["k"]
    if k in PRIM_C:
        return k
    if k == "string":
        return "(list u16)" if utf16 else "string"
    if k == "errctx":
        return "errctx"
    o = lambda x: oracle_ty(x, utf16) if x is not None else "_"
    if k == "record":
        return "(record %s)" % " ".join(o(f[1]) for f in t["fields"])
    if k == "tuple":
        return "(tuple %s)" % " ".join(o(x) for x in t["items"])
    if k == "variant":
        return "(variant %s)" % " ".join(o(c[1]) for c in t["cases"])
    if k == "enum":
        return "(enum %d)" % len(t["cases"])
    if k == "flags":
        return "(flags %d)" % len(t["flags"])
    if k == "option":
        return "(option %s)" % o(t["t"])
    if k == "result":
        return "(result %s %s)" % (o(t["ok"]), o(t["err"]))
    if k == "list":
        return "(list %s)" % o(t["t"])
    if k == "fixed":
        return "(fixed %s %d)" % (o(t["t"]), t["n"])
    if k == "map":
        return "(map %s %s)" % (o(t["key"]), o(t["value"]))
    if k in ("own", "borrow"):
        return k
    if k in ("future", "stream"):
        return "(%s %s)" % (k, o(t["t"]))
    raise Tie("type kind " + k)


def subtypes(t):
    t = strip_alias(t)
    if t is None:
        return
    yield t
    k = t["k"]
    if k == "record":
        for f in t["fields"]:
            yield from subtypes(f[1])
    elif k == "tuple":
        for x in t["items"]:
            yield from subtypes(x)
    elif k == "variant":
        for c in t["cases"]:
            yield from subtypes(c[1])
    elif k in ("option", "list", "fixed", "future", "stream"):
        yield from subtypes(t["t"])
    elif k == "result":
        yield from subtypes(t["ok"])
        yield from subtypes(t["err"])
    elif k == "map":
        yield from subtypes(t["key"])
        yield from subtypes(t["value"])


def owns_heap(t):
    """does a value of this type own separately allocated buffers?  (the payload type of a future/stream handle does
    not count: the handle is an index)"""
    t = strip_alias(t)
    if t is None:
        return False
    k = t["k"]
    if k in ("string", "list", "map"):
        return True
    if k == "record":
        return any(owns_heap(f[1]) for f in t["fields"])
    if k == "tuple":
        return any(owns_heap(x) for x in t["items"])
    if k == "variant":
        return any(owns_heap(c[1]) for c in t["cases"])
    if k in ("option", "fixed"):
        return owns_heap(t["t"])
    if k == "result":
        return owns_heap(t["ok"]) or owns_heap(t["err"])
    return False


def shape(t):
    """canonical form of a type up to renaming (for 'distinct' counting and finding keys)"""
    return oracle_ty(t)


# =============================================================================================== oracle values
def parse_val(s):
    pos = [0]

    def ws():
        while pos[0] < len(s) and s[pos[0]] == " ":
            pos[0] += 1

    def token():
        st = pos[0]
        while pos[0] < len(s) and s[pos[0]] not in " ]})(":
            pos[0] += 1
        return s[st:pos[0]]

    def many(close):
        out = []
        while True:
            ws()
            if s[pos[0]] == close:
                pos[0] += 1
                return out
            out.append(one())

    def one():
        ws()
        c = s[pos[0]]
        if c == "[":
            pos[0] += 1
            return ("l", many("]"))
        if c == "{":
            pos[0] += 1
            return ("r", many("}"))
        if c == '"':
            e = s.index('"', pos[0] + 1)
            body = s[pos[0] + 1:e]
            pos[0] = e + 1
            return ("s", [int(x) for x in body.split(",")] if body else [])
        if c == "<":
            e = s.index(">", pos[0])
            body = s[pos[0] + 1:e]
            pos[0] = e + 1
            return ("F", [ch == "1" for ch in body])
        if c == "#":
            pos[0] += 1
            i = int(token())
            if pos[0] < len(s) and s[pos[0]] == "(":
                pos[0] += 1
                v = one()
                ws()
                pos[0] += 1
                return ("v", i, v)
            return ("v", i, None)
        t = token()
        if t == "true":
            return ("b", True)
        if t == "false":
            return ("b", False)
        if t.startswith("f:"):
            return ("f", int(t[2:]))
        return ("n", int(t))

    return one()


def show_val(v):
    k = v[0]
    if k == "b":
        return "true" if v[1] else "false"
    if k == "n":
        return str(v[1])
    if k == "f":
        return "f:%d" % v[1]
    if k == "s":
        return '"%s"' % ",".join(str(x) for x in v[1])
    if k == "l":
        return "[%s]" % " ".join(show_val(x) for x in v[1])
    if k == "r":
        return "{%s}" % " ".join(show_val(x) for x in v[1])
    if k == "v":
        return "#%d" % v[1] + ("(%s)" % show_val(v[2]) if v[2] is not None else "")
    if k == "F":
        return "<%s>" % "".join("1" if b else "0" for b in v[1])
    raise AssertionError(k)


def variant_cases(t):
    """(k, list of payload types or None) for variant-like types"""
    k = t["k"]
    if k == "variant":
        return [c[1] for c in t["cases"]]
    if k == "option":
        return [None, t["t"]]
    if k == "result":
        return [t["ok"], t["err"]]
    raise AssertionError(k)


def expected_log(t, v, utf16=False):
    """The leaf log a faithful transport of value v : t produces (mirror of emit_walk below)."""
    t = strip_alias(t)
    k = t["k"]
    out = []
    if k == "bool":
        out.append("b%x" % (1 if v[1] else 0))
    elif k in INT_BITS:
        out.append("u%x" % (v[1] & 0xFFFFFFFFFFFFFFFF))
    elif k == "f32":
        out.append("x%x" % v[1])
    elif k == "f64":
        out.append("y%x" % v[1])
    elif k == "string":
        if utf16:
            units = [e[1] for e in v[1]]
            out.append("s%d:%s" % (len(units), "".join("%02x%02x" % (u & 255, u >> 8) for u in units)))
        else:
            out.append("s%d:%s" % (len(v[1]), "".join("%02x" % b for b in v[1])))
    elif k in ("list", "fixed"):
        out.append("l%x" % len(v[1]))
        for e in v[1]:
            out += expected_log(t["t"], e, utf16)
    elif k == "map":
        out.append("l%x" % len(v[1]))
        for e in v[1]:
            out += expected_log(t["key"], e[1][0], utf16)
            out += expected_log(t["value"], e[1][1], utf16)
    elif k == "record":
        for f, e in zip(t["fields"], v[1]):
            out += expected_log(f[1], e, utf16)
    elif k == "tuple":
        for f, e in zip(t["items"], v[1]):
            out += expected_log(f, e, utf16)
    elif k == "variant":
        out.append("v%x" % v[1])
        if v[2] is not None:
            out += expected_log(t["cases"][v[1]][1], v[2], utf16)
    elif k == "enum":
        out.append("e%x" % v[1])
    elif k == "option":
        out.append("o%x" % v[1])
        if v[1]:
            out += expected_log(t["t"], v[2], utf16)
    elif k == "result":
        out.append("r%x" % v[1])
        p = t["ok"] if v[1] == 0 else t["err"]
        if p is not None:
            out += expected_log(p, v[2], utf16)
    elif k == "flags":
        out.append("f%x" % sum(1 << i for i, b in enumerate(v[1]) if b))
    elif k in ("own", "borrow", "future", "stream"):
        out.append("h%x" % (v[1] & 0xFFFFFFFF))
    else:
        raise Tie("expected_log: " + k)
    return out


def handles_in(t, v, want):
    """[(resource name, owner, handle)] of the handle leaves of kind `want` ('own'|'borrow') in v : t"""
    t = strip_alias(t)
    k = t["k"]
    out = []
    if k == want:
        out.append((t["res"], t["owner"], v[1] & 0xFFFFFFFF))
    elif k in ("list", "fixed"):
        for e in v[1]:
            out += handles_in(t["t"], e, want)
    elif k == "map":
        for e in v[1]:
            out += handles_in(t["key"], e[1][0], want) + handles_in(t["value"], e[1][1], want)
    elif k == "record":
        for f, e in zip(t["fields"], v[1]):
            out += handles_in(f[1], e, want)
    elif k == "tuple":
        for f, e in zip(t["items"], v[1]):
            out += handles_in(f, e, want)
    elif k in ("variant", "option", "result"):
        p = variant_cases(t)[v[1]]
        if p is not None and v[2] is not None:
            out += handles_in(p, v[2], want)
    return out


# =============================================================================================== C code generation
class Gen:
    """Emits the user-side C code for one (world, config).  Walks WIT type trees and the PARSED generated header in
    parallel; every member name comes from the header (positional match), never from a re-derivation."""

    def __init__(self, hdr, utf16):
        self.h, self.utf16 = hdr, utf16
        self.n = 0

    def tmp(self, p="i"):
        self.n += 1
        return "%s%d" % (p, self.n)

    def struct(self, cty, what, nmembers=None):
        r = self.h.resolve(cty)
        if r[0] != "struct" or r[2] != 0:
            raise Tie("%s: C type %r is not a struct (%s)" % (what, cty, r[0]))
        if nmembers is not None and len(r[1]) != nmembers:
            raise Tie("%s: C struct %r has %d members, WIT type has %d" % (what, cty, len(r[1]), nmembers))
        return r[1]

    def prim_check(self, cty, want, what):
        r = self.h.resolve(cty)
        if r[0] != "prim" or r[2] != 0 or r[1] not in want:
            raise Tie("%s: C type %r resolves to %s%s, expected one of %s" % (what, cty, r[1] if r[0] == "prim" else r[0], "*" * r[2], want))
        return r[1]

    def variant_members(self, t, cty):
        """-> (discriminant member name, {case index: (union member path, payload CTy)})"""
        t = strip_alias(t)
        cases = variant_cases(t)
        with_payload = [i for i, c in enumerate(cases) if c is not None]
        ms = self.struct(cty, "variant-like %s" % t["k"])
        k = t["k"]
        if k == "option":
            if len(ms) != 2:
                raise Tie("option struct %r has %d members" % (cty, len(ms)))
            return ms[0].name, {1: (ms[1].name, ms[1].ty)}
        if len(ms) != (2 if with_payload else 1):
            raise Tie("%s struct %r has %d members but %d payload cases" % (k, cty, len(ms), len(with_payload)))
        pay = {}
        if with_payload:
            u = ms[1]
            if u.sub is None or len(u.sub) != len(with_payload):
                raise Tie("%s struct %r: union has %s members, expected %d" % (k, cty, None if u.sub is None else len(u.sub), len(with_payload)))
            for i, m in zip(with_payload, u.sub):
                pay[i] = (u.name + "." + m.name, m.ty)
        return ms[0].name, pay

    def is_exported_borrow(self, cty):
        r = self.h.resolve(cty)
        return r[0] == "fwd" and r[2] == 1

    # ---- log every leaf of E : t
    def walk(self, t, cty, E, out, ind="  "):
        t = strip_alias(t)
        k = t["k"]
        w = lambda s: out.append(ind + s)
        if k == "bool":
            self.prim_check(cty, ["bool"], "bool")
            w("gr_leaf('b', (%s) ? 1 : 0);" % E)
        elif k in INT_BITS:
            self.prim_check(cty, [PRIM_C[k]], k)
            w("gr_leaf('u', (uint64_t)%s(%s));" % ("(int64_t)" if k[0] == "s" else "", E))
        elif k == "f32":
            self.prim_check(cty, ["float"], k)
            w("gr_leaf_f32(%s);" % E)
        elif k == "f64":
            self.prim_check(cty, ["double"], k)
            w("gr_leaf_f64(%s);" % E)
        elif k == "string":
            ms = self.struct(cty, "string", 2)
            self.prim_check(CTy(ms[0].ty.name, 0), ["uint16_t" if self.utf16 else "uint8_t"], "string code unit")
            w("gr_leaf_str((%s).%s, (%s).%s, %d);" % (E, ms[0].name, E, ms[1].name, 2 if self.utf16 else 1))
        elif k == "list":
            ms = self.struct(cty, "list", 2)
            if ms[0].ty.nptr != 1:
                raise Tie("list struct %r: first member is not a pointer" % cty)
            i = self.tmp()
            w("gr_leaf('l', (uint64_t)(%s).%s);" % (E, ms[1].name))
            w("for (size_t %s = 0; %s < (%s).%s; %s++) {" % (i, i, E, ms[1].name, i))
            self.walk(t["t"], CTy(ms[0].ty.name, 0), "(%s).%s[%s]" % (E, ms[0].name, i), out, ind + "  ")
            w("}")
        elif k == "map":
            ms = self.struct(cty, "map", 2)
            ent = self.struct(CTy(ms[0].ty.name, 0), "map entry", 2)
            i = self.tmp()
            w("gr_leaf('l', (uint64_t)(%s).%s);" % (E, ms[1].name))
            w("for (size_t %s = 0; %s < (%s).%s; %s++) {" % (i, i, E, ms[1].name, i))
            self.walk(t["key"], ent[0].ty, "(%s).%s[%s].%s" % (E, ms[0].name, i, ent[0].name), out, ind + "  ")
            self.walk(t["value"], ent[1].ty, "(%s).%s[%s].%s" % (E, ms[0].name, i, ent[1].name), out, ind + "  ")
            w("}")
        elif k in ("record", "tuple"):
            fs = [f[1] for f in t["fields"]] if k == "record" else t["items"]
            ms = self.struct(cty, k, len(fs))
            for f, m in zip(fs, ms):
                self.walk(f, m.ty, "(%s).%s" % (E, m.name), out, ind)
        elif k in ("variant", "option", "result"):
            disc, pay = self.variant_members(t, cty)
            cases = variant_cases(t)
            tag = {"variant": "v", "option": "o", "result": "r"}[k]
            if k == "variant":
                w("gr_leaf('v', (uint64_t)(%s).%s);" % (E, disc))
                w("switch ((uint64_t)(%s).%s) {" % (E, disc))
                for i, c in enumerate(cases):
                    if c is not None:
                        w("  case %d: {" % i)
                        self.walk(c, pay[i][1], "(%s).%s" % (E, pay[i][0]), out, ind + "    ")
                        w("    break; }")
                w("  default: break;")
                w("}")
            else:
                w("gr_leaf('%s', (%s).%s ? 1 : 0);" % (tag, E, disc))
                for i, c in enumerate(cases):
                    if c is not None:
                        cond = "(%s).%s" % (E, disc) if i == 1 else "!(%s).%s" % (E, disc)
                        w("if (%s) {" % cond)
                        self.walk(c, pay[i][1], "(%s).%s" % (E, pay[i][0]), out, ind + "  ")
                        w("}")
        elif k == "enum":
            self.prim_check(cty, ["uint8_t", "uint16_t", "uint32_t"], "enum")
            w("gr_leaf('e', (uint64_t)(%s));" % E)
        elif k == "flags":
            self.prim_check(cty, ["uint8_t", "uint16_t", "uint32_t", "uint64_t"], "flags")
            w("gr_leaf('f', (uint64_t)(%s));" % E)
        elif k in ("own", "borrow"):
            if self.is_exported_borrow(cty):
                w("gr_leaf('h', (uint64_t)(uint32_t)(uintptr_t)(%s));" % E)
            else:
                ms = self.struct(cty, "handle", 1)
                w("gr_leaf('h', (uint64_t)(uint32_t)(%s).%s);" % (E, ms[0].name))
        elif k in ("future", "stream"):
            self.prim_check(cty, ["uint32_t"], k)
            w("gr_leaf('h', (uint64_t)(uint32_t)(%s));" % E)
        else:
            raise Tie("walk: unsupported kind " + k)

    # ---- store value v : t into lvalue E
    def build(self, t, cty, E, v, out, ind="  "):
        t = strip_alias(t)
        k = t["k"]
        w = lambda s: out.append(ind + s)
        if k == "bool":
            w("%s = %d;" % (E, 1 if v[1] else 0))
        elif k in INT_BITS:
            c = PRIM_C[k]
            if k[0] == "s":
                w("%s = (%s)(%dLL%s);" % (E, c, v[1] if v[1] > -(1 << 63) else v[1] + 1, "" if v[1] > -(1 << 63) else " - 1"))
            else:
                w("%s = (%s)%dULL;" % (E, c, v[1]))
        elif k == "f32":
            w("%s = gr_f32_bits(%dU);" % (E, v[1]))
        elif k == "f64":
            w("%s = gr_f64_bits(%dULL);" % (E, v[1]))
        elif k == "string":
            ms = self.struct(cty, "string", 2)
            if self.utf16:
                units = [e[1] for e in v[1]]
                raw = [b for u in units for b in (u & 255, u >> 8)]
                n, unit = len(units), 2
            else:
                raw, n, unit = list(v[1]), len(v[1]), 1
            if n:
                w("(%s).%s = (__typeof__((%s).%s)) gr_malloc(%d);" % (E, ms[0].name, E, ms[0].name, n * unit))
                w("memcpy((%s).%s, (const uint8_t[]){%s}, %d);" % (E, ms[0].name, ",".join(str(b) for b in raw), n * unit))
            else:
                w("(%s).%s = NULL;" % (E, ms[0].name))
            w("(%s).%s = %d;" % (E, ms[1].name, n))
        elif k == "list":
            ms = self.struct(cty, "list", 2)
            n = len(v[1])
            if n:
                w("(%s).%s = (__typeof__((%s).%s)) gr_malloc(%d * sizeof(*(%s).%s));" % (E, ms[0].name, E, ms[0].name, n, E, ms[0].name))
            else:
                w("(%s).%s = NULL;" % (E, ms[0].name))
            w("(%s).%s = %d;" % (E, ms[1].name, n))
            for i, e in enumerate(v[1]):
                self.build(t["t"], CTy(ms[0].ty.name, 0), "(%s).%s[%d]" % (E, ms[0].name, i), e, out, ind)
        elif k == "map":
            ms = self.struct(cty, "map", 2)
            ent = self.struct(CTy(ms[0].ty.name, 0), "map entry", 2)
            n = len(v[1])
            if n:
                w("(%s).%s = (__typeof__((%s).%s)) gr_malloc(%d * sizeof(*(%s).%s));" % (E, ms[0].name, E, ms[0].name, n, E, ms[0].name))
            else:
                w("(%s).%s = NULL;" % (E, ms[0].name))
            w("(%s).%s = %d;" % (E, ms[1].name, n))
            for i, e in enumerate(v[1]):
                self.build(t["key"], ent[0].ty, "(%s).%s[%d].%s" % (E, ms[0].name, i, ent[0].name), e[1][0], out, ind)
                self.build(t["value"], ent[1].ty, "(%s).%s[%d].%s" % (E, ms[0].name, i, ent[1].name), e[1][1], out, ind)
        elif k in ("record", "tuple"):
            fs = [f[1] for f in t["fields"]] if k == "record" else t["items"]
            ms = self.struct(cty, k, len(fs))
            for f, m, e in zip(fs, ms, v[1]):
                self.build(f, m.ty, "(%s).%s" % (E, m.name), e, out, ind)
        elif k in ("variant", "option", "result"):
            disc, pay = self.variant_members(t, cty)
            w("(%s).%s = %d;" % (E, disc, v[1]))
            if v[2] is not None:
                self.build(variant_cases(t)[v[1]], pay[v[1]][1], "(%s).%s" % (E, pay[v[1]][0]), v[2], out, ind)
        elif k == "enum":
            w("%s = (__typeof__(%s))%d;" % (E, E, v[1]))
        elif k == "flags":
            w("%s = (__typeof__(%s))%dULL;" % (E, E, sum(1 << i for i, b in enumerate(v[1]) if b)))
        elif k in ("own", "borrow"):
            if self.is_exported_borrow(cty):
                w("%s = (__typeof__(%s))(uintptr_t)%dU;" % (E, E, v[1]))
            else:
                ms = self.struct(cty, "handle", 1)
                w("(%s).%s = (int32_t)%dU;" % (E, ms[0].name, v[1]))
        elif k in ("future", "stream"):
            w("%s = %dU;" % (E, v[1]))
        else:
            raise Tie("build: unsupported kind " + k)


# =============================================================================================== signatures
def ret_convention(result, flattening):
    """How the public C function returns (crates/c README: Results / Options / sig flattening).
    -> (kind, retptr payload types)   kind: void | scalar | retptr | option-bool | result-bool"""
    if result is None:
        return "void", []
    t = strip_alias(result)
    k = t["k"]
    if k in PRIM_C or k in ("flags", "enum", "own", "borrow", "future", "stream"):
        return "scalar", []
    if k == "option" and flattening:
        return "option-bool", [t["t"]]
    if k == "result" and flattening:
        return "result-bool", [x for x in (t["ok"], t["err"]) if x is not None]
    return "retptr", [result]


def by_pointer(t):
    k = strip_alias(t)["k"]
    return k in ("string", "variant", "option", "result", "tuple", "record", "list", "map")


class Func:
    """One imported or exported function of a world under one configuration: description + scraped C names."""

    def __init__(self, idx, item, f, proto, core, hdr, cfg_words):
        self.idx, self.item, self.f, self.proto, self.core = idx, item, f, proto, core
        self.dir = item["dir"]
        self.name = f["name"]
        self.iface = item["iface"]
        self.params = [(p[0], p[1]) for p in f["params"]]
        self.result = f["result"]
        self.flattening = "--no-sig-flattening" not in cfg_words
        self.kind, self.rettys = ret_convention(self.result, self.flattening)
        nret = len(self.rettys) if self.kind != "scalar" else 0
        if len(proto.params) != len(self.params) + nret:
            raise Tie("prototype %s has %d parameters; WIT function %s has %d parameters and the %s return convention adds %d"
                      % (proto.text(), len(proto.params), self.name, len(self.params), self.kind, nret))
        self.cparams = proto.params[:len(self.params)]
        self.cret = proto.params[len(self.params):]
        # option parameters are flattened to a nullable pointer to the payload when sig flattening is on
        # (print_sig_params looks at the parameter's own TypeDefKind: an ALIAS of an option is not flattened, whereas
        #  return_single sees through aliases)
        self.opt_flat = [self.flattening and t["k"] == "option" for _, t in self.params]
        for (cty, cname), (pn, pt), of in zip(self.cparams, self.params, self.opt_flat):
            want = 1 if (by_pointer(pt) or of) else 0
            if cty.nptr != want:
                raise Tie("prototype %s: parameter %s is %r, expected %d pointer level(s)" % (proto.text(), pn, cty, want))

    def label(self):
        return "%s %s%s" % (self.dir, (self.iface + "#") if self.iface else "", self.name)

    def params_tuple_ty(self):
        return {"k": "tuple", "name": None, "items": [t for _, t in self.params]}


def excluded_reason(fn, exported_ifaces):
    """Functions this native engine cannot judge (not findings)."""
    for _, t in fn.params + ([("", fn.result)] if fn.result is not None else []):
        for s in subtypes(t):
            if s["k"] in ("errctx", "fixed", "unknown", "resource"):
                return "type " + s["k"]
            if s["k"] == "flags" and len(s["flags"]) > 32:
                return "flags with more than 32 members (not a valid component type: wasmparser rejects them)"
            if s["k"] in ("list", "map") and fn.dir == "export":
                inner = list(subtypes(s["t"])) if s["k"] == "list" else list(subtypes(s["key"])) + list(subtypes(s["value"]))
                for e in inner:
                    if e["k"] == "borrow" and e["owner"] in exported_ifaces:
                        return "list of borrows of an exported resource (a pointer in C: 8 bytes natively, 4 on wasm32)"
    if fn.f.get("async"):
        return "async function"
    return None


# =============================================================================================== one (world, config)
class Unit:
    """One (world, generator configuration): generated files, scraped names, planned calls, transcript, verdicts."""

    def __init__(self, uid, wit, world, cfg_name, cfg_words, seed, origin=""):
        self.uid, self.wit, self.world, self.cfg_name, self.cfg_words, self.seed = uid, wit, world, cfg_name, cfg_words, seed
        self.origin = origin
        self.utf16 = "utf16" in cfg_words
        self.autodrop = "--autodrop-borrows yes" in cfg_words or "--autodrop-borrows=yes" in cfg_words
        self.status = "new"        # ok | gen-err | gen-panic | tie | build-fail | ...
        self.detail = ""
        self.funcs, self.skipped, self.calls = [], [], []
        self.files, self.desc = {}, None
        self.findings = []         # (prop, key, what, data) decided while analysing
        self.forced = None         # replay/shrink: [{"label":…, "args":…, "ret":…}] instead of oracle-drawn values

    def key(self):
        return "%s/%s" % (self.uid, self.cfg_name)

    # ---- scrape
    def load(self, reply):
        if reply.startswith("err "):
            self.status, self.detail = "gen-err", reply[4:]
            return
        if reply.startswith("panic "):
            self.status, self.detail = "gen-panic", reply[6:]
            return
        parts = reply.split("\x1e")
        self.desc = json.loads(parts[1])
        for p in parts[2:]:
            n, c = p.split("\x1d", 1)
            self.files[n] = c.replace("\x1f", "\n").replace("\x1c", "\r")
        hn = [n for n in self.files if n.endswith(".h")]
        cn = [n for n in self.files if n.endswith(".c")]
        if len(hn) != 1 or len(cn) != 1:
            raise Tie("expected one .h and one .c, got %s" % sorted(self.files))
        self.hname, self.cname = hn[0], cn[0]
        self.hdr = CHeader(self.files[self.hname])
        self.src = CSource(self.files[self.cname])
        self.gen = Gen(self.hdr, self.utf16)
        # (keyed like the `owner` member of handle types: the interface id string, or #iface<n> for inline interfaces)
        self.exported_ifaces = {it.get("owner_key", it["iface"]) for it in self.desc["items"] if it["dir"] == "export" and it["iface"]}
        if any(f.get("async") for it in self.desc["items"] for f in it["funcs"]):
            self.status, self.detail = "unsupported", "world has async functions (no native async host)"
            return
        # prototypes by (direction, section label), in order
        secs = {}
        for p in self.hdr.protos:
            if p.section:
                secs.setdefault(p.section, []).append(p)
        idx = 0
        for it in self.desc["items"]:
            lab = ("Imported" if it["dir"] == "import" else "Exported", it["iface"] if it["iface"] else self.desc["world"])
            protos = secs.get(lab, [])
            if len(protos) != len(it["funcs"]):
                raise Tie("header section %r declares %d functions, the world has %d there" % (lab, len(protos), len(it["funcs"])))
            for f, proto in zip(it["funcs"], protos):
                if it["dir"] == "import":
                    core = self.src.imports.get((f["import_module"], f["import_name"]))
                    if core is None:
                        raise Tie("no __import_module__/__import_name__ declaration for %s %s" % (f["import_module"], f["import_name"]))
                else:
                    core = self.src.exports.get(f["export_name"])
                    if core is None:
                        raise Tie("no __export_name__ definition for " + f["export_name"])
                fn = Func(idx, it, f, proto, core, self.hdr, self.cfg_words)
                idx += 1
                why = excluded_reason(fn, self.exported_ifaces)
                if why:
                    self.skipped.append((fn.label(), why))
                else:
                    self.funcs.append(fn)
        self.status = "scraped"

    def oty(self, t):
        return oracle_ty(t, self.utf16)


def spec(*fields):
    return "SPEC\x1d" + "\x1d".join(str(f) for f in fields)


def parse_layout(s):
    m = re.match(r"size=(\d+) align=(\d+) flat=\[(.*)\]$", s)
    if not m:
        raise Tie("oracle layout reply: " + s[:200])
    return int(m.group(1)), int(m.group(2)), m.group(3).split()


class Call:
    def __init__(self, unit, fn, k):
        self.unit, self.fn, self.k = unit, fn, k
        self.args_s = self.ret_s = None      # oracle value strings
        self.host_allocs = []                # (size, align, addr, hex)
        self.flat = []                       # flat core values handed to the callee (export) / returned (import)
        self.indirect = False                # parameters spilled to memory
        self.retptr = False
        self.obs = {}
        self.args_addr = 0
        self.ret_img = ""

    def region(self):
        return ARENA_BASE + self.k * CALL_REGION


def plan_units(units, exe_o, calls_per_func, max_calls):
    """Oracle batches 1-3 for all units: values, layouts, allocations, images."""
    # batch 1: layouts + values
    req, who = [], []
    for u in units:
        if u.status != "scraped":
            continue
        for fn in u.funcs:
            pt = u.oty(fn.params_tuple_ty()) if fn.params else None
            rt = u.oty(fn.result) if fn.result is not None else None
            seed = int(hashlib.sha256(("%d|%s|%s" % (u.seed, u.key(), fn.label())).encode()).hexdigest()[:7], 16)
            n = calls_per_func
            if pt:
                req += [spec("layout", PW, pt), spec("gen", pt, seed, n)]
                who += [(u, fn, "playout"), (u, fn, "pgen")]
            if rt:
                req += [spec("layout", PW, rt), spec("gen", rt, seed + 1, n)]
                who += [(u, fn, "rlayout"), (u, fn, "rgen")]
    rep = vf.run_filter([exe_o], req) if req else []
    info = {}
    for (u, fn, what), r in zip(who, rep):
        if r.startswith("MODEL-EXN") or r in ("BAD-SPEC-COMMAND", "ILL-TYPED"):
            u.status, u.detail = "tie", "oracle refused %s of %s: %s" % (what, fn.label(), r[:200])
            continue
        info[(id(fn), what)] = r
    for u in units:
        if u.status != "scraped":
            continue
        k = 0
        for fn in u.funcs:
            fn.playout = parse_layout(info[(id(fn), "playout")]) if fn.params else (0, 1, [])
            fn.rlayout = parse_layout(info[(id(fn), "rlayout")]) if fn.result is not None else (0, 1, [])
            fn.indirect = len(fn.playout[2]) > MAX_FLAT_PARAMS
            fn.retptr = len(fn.rlayout[2]) > MAX_FLAT_RESULTS
            pv = info[(id(fn), "pgen")].split("\x1e") if fn.params else ["{}"] * calls_per_func
            rv = info[(id(fn), "rgen")].split("\x1e") if fn.result is not None else [None] * calls_per_func
            pairs = list(zip(pv, rv))
            if u.forced is not None:
                pairs = [(f["args"], f["ret"]) for f in u.forced if f["label"] == fn.label()]
            for a, r in pairs:
                if k >= max_calls:
                    break
                c = Call(u, fn, k)
                c.args_s, c.ret_s = a, r
                c.args_v = parse_val(a)
                c.ret_v = parse_val(r) if r is not None else None
                u.calls.append(c)
                k += 1
        u.status = "planned"
    # batch 2: allocations the host has to make
    req, who = [], []
    for u in units:
        if u.status != "planned":
            continue
        for c in u.calls:
            fn = c.fn
            if fn.dir == "export" and fn.params:
                req.append(spec("allocs", PW, u.oty(fn.params_tuple_ty()), c.args_s, "mem" if fn.indirect else "flat"))
                who.append(c)
            elif fn.dir == "import" and fn.result is not None:
                req.append(spec("allocs", PW, u.oty(fn.result), c.ret_s, "mem" if fn.retptr else "flat"))
                who.append(c)
    rep = vf.run_filter([exe_o], req) if req else []
    req2, who2 = [], []
    for c, r in zip(who, rep):
        u, fn = c.unit, c.fn
        if r in ("ILL-TYPED", "BAD-SPEC-COMMAND") or r.startswith("MODEL-EXN"):
            u.status, u.detail = "tie", "oracle allocs failed for %s: %s" % (fn.label(), r[:200])
            continue
        c.allocs_reply = r
        nxt = c.region()
        if fn.dir == "export" and fn.indirect:
            c.args_addr = nxt
            c.host_allocs.append([fn.playout[0], fn.playout[1], nxt, None])
            nxt += (fn.playout[0] + 15) // 16 * 16
        elif fn.dir == "import":
            c.args_addr = 0
        presets = []
        for a in r.split():
            sz, al = (int(x) for x in a.split(":"))
            nxt = (nxt + 15) // 16 * 16
            c.host_allocs.append([sz, al, nxt, None])
            presets.append(nxt)
            nxt += sz
        if nxt - c.region() > CALL_REGION // 2:
            u.status, u.detail = "tie", "value too large for the per-call host region"
            continue
        if fn.dir == "export":
            mode, addr, t, v = ("mem", c.args_addr, fn.params_tuple_ty(), c.args_s) if fn.indirect else ("flat", c.region() + CALL_REGION // 2, fn.params_tuple_ty(), c.args_s)
        else:
            c.img_addr = c.region() + CALL_REGION // 2
            mode, addr, t, v = ("mem" if fn.retptr else "flat", c.img_addr, fn.result, c.ret_s)
        req2.append(spec("lower", PW, u.oty(t), v, mode, addr, " ".join(str(p) for p in presets)))
        who2.append(c)
    rep2 = vf.run_filter([exe_o], req2) if req2 else []
    for c, r in zip(who2, rep2):
        u, fn = c.unit, c.fn
        m = re.match(r"flat=(.*)\|writes=(.*)\|next=(\d+)$", r)
        if not m:
            u.status, u.detail = "tie", "oracle lower failed for %s: %s" % (fn.label(), r[:200])
            continue
        c.flat = [int(x) for x in m.group(1).split()]
        segs = {}
        for sgm in [x for x in m.group(2).split(";") if x]:
            a, hx = sgm.split(":")
            segs[int(a)] = hx
        for ha in c.host_allocs:
            if ha[0] > 0:
                if ha[2] not in segs:
                    u.status, u.detail = "tie", "oracle produced no image for host block %d of %s" % (ha[2], fn.label())
                    break
                ha[3] = segs[ha[2]]
        if fn.dir == "import" and fn.retptr:
            c.ret_img = segs.get(c.img_addr, "")
    for u in units:
        if u.status == "planned":
            u.status = "ready"


# =============================================================================================== test program
def c_str(s):
    return '"' + s.replace("\\", "\\\\").replace('"', '\\"') + '"'


def flat_arg(cty, bits):
    n, p = cty.name, cty.nptr
    if p:
        return "(%s %s)(uintptr_t)%dULL" % (n, "*" * p, bits)
    if n == "int32_t":
        return "(int32_t)%dU" % (bits & 0xFFFFFFFF)
    if n == "int64_t":
        return "(int64_t)%dULL" % (bits & 0xFFFFFFFFFFFFFFFF)
    if n == "float":
        return "gr_f32_bits(%dU)" % (bits & 0xFFFFFFFF)
    if n == "double":
        return "gr_f64_bits(%dULL)" % bits
    if n == "size_t":
        return "(size_t)%dULL" % bits
    raise Tie("core parameter type " + repr(cty))


def flat_obs(cty, idx, expr):
    n, p = cty.name, cty.nptr
    if p:
        return "gr_flat_i(%d, (uint64_t)(uintptr_t)(%s));" % (idx, expr)
    if n == "float":
        return "gr_flat_f32(%d, %s);" % (idx, expr)
    if n == "double":
        return "gr_flat_f64(%d, %s);" % (idx, expr)
    if n == "int32_t":
        return "gr_flat_i(%d, (uint64_t)(uint32_t)(%s));" % (idx, expr)
    if n in ("int64_t", "size_t", "uint32_t", "uint64_t"):
        return "gr_flat_i(%d, (uint64_t)(%s));" % (idx, expr)
    raise Tie("core value type " + repr(cty))


def cdecl(cty, name):
    return "%s %s%s" % (cty.name, "*" * cty.nptr, name)


def emit_free(u, t, cty, ptr_expr, out, ind="  "):
    """Release a value the user code owns, the way crates/c/README.md documents it: through the generated *_free
    helper of its type.  `ptr_expr` is a pointer to the value."""
    if not owns_heap(t):
        return
    h = u.hdr.free_helper(cty.name)
    if h:
        out.append("%s%s(%s);" % (ind, h, ptr_expr))
    else:
        out.append('%sgr_note("no-free-helper %s");' % (ind, cty.name))


def emit_unit(u):
    g, hdr, src = u.gen, u.hdr, u.src
    o = []
    w = o.append
    w('#include "%s"' % u.hname)
    w('#include "gr_rt.h"')
    w("extern void *cabi_realloc(void *ptr, size_t old_size, size_t align, size_t new_size);")
    if src.force_link:
        w("void %s(void) {}" % src.force_link)
    w("typedef struct { size_t size, align; uintptr_t addr; const char *hex; } gr_alloc_t;")
    w("typedef struct { int n; const gr_alloc_t *allocs; const char *ret_hex; uint64_t ret_flat; } gr_plan_t;")
    w("static const gr_plan_t *gr_cur;")
    w("static int gr_user_call = -1;")
    w("static void gr_host_result(void) {")
    w('  if (!gr_cur) { gr_error("import called outside a planned call"); return; }')
    w("  for (int i = 0; i < gr_cur->n; i++) {")
    w("    void *p = gr_host_alloc(cabi_realloc, gr_cur->allocs[i].size, gr_cur->allocs[i].align, gr_cur->allocs[i].addr);")
    w("    if (gr_cur->allocs[i].size) gr_hex_to(p, gr_cur->allocs[i].hex);")
    w("  }")
    w("}")
    # ---- mock host: every declared core import
    planned_imports = {(fn.f["import_module"], fn.f["import_name"]): fn for fn in u.funcs if fn.dir == "import"}
    w("static int32_t gr_handles[4096]; static int gr_nhandles;")
    for (mod, name), d in src.imports.items():
        ps = ", ".join(cdecl(t, "a%d" % i) for i, t in enumerate(d["params"])) or "void"
        w("%s(%s) {" % (cdecl(d["ret"], d["symbol"]), ps))
        fn = planned_imports.get((mod, name))
        lab = c_str(mod + "|" + name)
        if fn is not None:
            nflat = 1 if fn.indirect else len(fn.playout[2])
            if len(d["params"]) != nflat + (1 if fn.retptr else 0):
                raise Tie("core import %s has %d parameters; the canonical ABI gives %d" % (d["symbol"], len(d["params"]), nflat + (1 if fn.retptr else 0)))
            w("  gr_phase(\"host-import %d\");" % fn.idx)
            for i in range(nflat):
                w("  " + flat_obs(d["params"][i], i, "a%d" % i))
            if fn.indirect:
                w("  gr_dump_range((const void *)a0, %d);" % fn.playout[0])
            w("  gr_dump_live();")
            w("  gr_host_result();")
            if fn.retptr:
                w("  if (gr_cur) gr_hex_to((void *)a%d, gr_cur->ret_hex);" % nflat)
            elif fn.result is not None:
                rt = d["ret"]
                if rt.name == "float" and not rt.nptr:
                    w("  return gr_f32_bits((uint32_t)(gr_cur ? gr_cur->ret_flat : 0));")
                elif rt.name == "double" and not rt.nptr:
                    w("  return gr_f64_bits(gr_cur ? gr_cur->ret_flat : 0);")
                elif rt.nptr:
                    w("  return (%s %s)(uintptr_t)(gr_cur ? gr_cur->ret_flat : 0);" % (rt.name, "*" * rt.nptr))
                else:
                    w("  return (%s)(gr_cur ? gr_cur->ret_flat : 0);" % rt.name)
        elif "[resource-drop]" in name:
            w("  gr_res_event(\"drop\", %s, (int64_t)a0);" % lab)
        elif "[resource-new]" in name:
            w("  gr_handles[gr_nhandles] = a0; gr_res_event(\"new\", %s, (int64_t)a0);" % lab)
            w("  return 1000 + gr_nhandles++;")
        elif "[resource-rep]" in name:
            w("  gr_res_event(\"rep\", %s, (int64_t)a0);" % lab)
            w("  return (a0 >= 1000 && a0 < 1000 + gr_nhandles) ? gr_handles[a0 - 1000] : 0;")
        else:
            w("  gr_error(\"unplanned core import called: %%s\", %s);" % lab)
            if not (d["ret"].name == "void" and d["ret"].nptr == 0):
                w("  return (%s %s)0;" % (d["ret"].name, "*" * d["ret"].nptr))
        w("}")
    # ---- user side: destructors of exported resources
    for p in hdr.protos:
        if p.name.endswith("_destructor") and not p.extern and p.section is None and len(p.params) == 1:
            w("%s { gr_res_event(\"user-dtor\", %s, (int64_t)(uintptr_t)%s); }" % (p.text(), c_str(p.name), p.params[0][1]))
    # ---- user side: exported functions
    by_fn = {}
    for c in u.calls:
        by_fn.setdefault(id(c.fn), []).append(c)
    all_exports = []
    for it_fn in u.funcs:
        if it_fn.dir == "export":
            all_exports.append(it_fn)
    defined = set()
    for fn in all_exports:
        defined.add(fn.proto.name)
        emit_export_impl(u, fn, by_fn.get(id(fn), []), o)
    # exported functions this engine skipped still need a definition for the link
    for it in u.desc["items"]:
        pass
    for p in hdr.protos:
        if p.section and p.section[0] == "Exported" and p.name not in defined:
            w("%s { gr_error(\"skipped export called\"); %s }" % (p.text(), "" if (p.ret.name == "void" and not p.ret.nptr) else
                                                                   "%s %sr; memset(&r, 0, sizeof r); return r;" % (p.ret.name, "*" * p.ret.nptr)))
    # ---- user side: import callers
    for c in u.calls:
        if c.fn.dir == "import":
            emit_import_call(u, c, o)
    # ---- declarations of the core export wrappers
    for name, d in src.exports.items():
        ps = ", ".join(cdecl(t, "a%d" % i) for i, (t, _) in enumerate(d["params"])) or "void"
        w("extern %s(%s);" % (cdecl(d["ret"], d["symbol"]), ps))
    # ---- main
    w("int main(void) {")
    w("#ifdef GR_LINEBUF")
    w("  setvbuf(stdout, NULL, _IOLBF, 0);")
    w("#else")
    w("  static char buf[1 << 20]; setvbuf(stdout, buf, _IOFBF, sizeof buf);")
    w("#endif")
    w("  gr_init();")
    emit_layout_probes(u, o)
    for c in u.calls:
        if c.fn.dir == "import":
            w("  gr_import_call_%d();" % c.k)
        else:
            emit_export_call(u, c, o)
    emit_resource_scenario(u, o)
    w("  gr_phase(\"END\"); gr_live_summary();")
    w("  fflush(stdout);")
    w("  return 0;")
    w("}")
    return "\n".join(o) + "\n"


def emit_export_impl(u, fn, calls, o):
    g = u.gen
    w = o.append
    w(fn.proto.text() + " {")
    w("  gr_phase(\"user-args\");")
    frees = []
    for (cty, cname), (pn, pt), of in zip(fn.cparams, fn.params, fn.opt_flat):
        if of:
            payload = strip_alias(pt)["t"]
            w("  gr_leaf('o', %s != NULL ? 1 : 0);" % cname)
            w("  if (%s != NULL) {" % cname)
            g.walk(payload, CTy(cty.name, 0), "(*%s)" % cname, o, "    ")
            w("  }")
            tmp = []
            emit_free(u, payload, CTy(cty.name, 0), cname, tmp, "    ")
            if tmp:
                frees += ["  if (%s != NULL) {" % cname] + tmp + ["  }"]
        elif cty.nptr:
            g.walk(pt, CTy(cty.name, 0), "(*%s)" % cname, o)
            emit_free(u, pt, CTy(cty.name, 0), cname, frees)
        else:
            g.walk(pt, cty, cname, o)
    w("  gr_phase(\"user-free\");")
    o.extend(frees)
    w("  gr_phase(\"user-build\");")
    kind = fn.kind
    if kind == "scalar":
        w("  %s; memset(&gr_r, 0, sizeof gr_r);" % cdecl(fn.proto.ret, "gr_r"))
    elif kind in ("option-bool", "result-bool"):
        w("  bool gr_r = 0;")
    w("  switch (gr_user_call) {")
    for c in calls:
        w("    case %d: {" % c.k)
        v = c.ret_v
        if kind == "scalar":
            g.build(fn.result, fn.proto.ret, "gr_r", v, o, "      ")
        elif kind == "retptr":
            cty, cname = fn.cret[0]
            g.build(fn.result, CTy(cty.name, 0), "(*%s)" % cname, v, o, "      ")
        elif kind == "option-bool":
            cty, cname = fn.cret[0]
            w("      gr_r = %d;" % v[1])
            if v[1]:
                g.build(strip_alias(fn.result)["t"], CTy(cty.name, 0), "(*%s)" % cname, v[2], o, "      ")
        elif kind == "result-bool":
            t = strip_alias(fn.result)
            w("      gr_r = %d;" % (1 if v[1] == 0 else 0))
            slots = [x for x in ("ok", "err") if t[x] is not None]
            which = "ok" if v[1] == 0 else "err"
            if t[which] is not None:
                cty, cname = fn.cret[slots.index(which)]
                g.build(t[which], CTy(cty.name, 0), "(*%s)" % cname, v[2], o, "      ")
        w("      break; }")
    w("    default: gr_error(\"export called outside a planned call\"); break;")
    w("  }")
    w("  gr_phase(\"user-ret\");")
    if kind in ("scalar", "option-bool", "result-bool"):
        w("  return gr_r;")
    w("}")


def emit_export_call(u, c, o):
    fn, d = c.fn, c.fn.core
    w = o.append
    w("  { /* call %d: %s */" % (c.k, fn.label()))
    w("    gr_phase(\"C%d X setup\");" % c.k)
    for (sz, al, addr, hx) in c.host_allocs:
        w("    gr_host_alloc(cabi_realloc, %d, %d, %dULL);" % (sz, al, addr))
        if sz:
            w("    gr_hex_to((void *)%dULL, \"%s\");" % (addr, hx))
    nflat = 1 if fn.indirect else len(fn.playout[2])
    if len(d["params"]) != nflat:
        raise Tie("core export %s has %d parameters; the canonical ABI gives %d" % (d["symbol"], len(d["params"]), nflat))
    vals = [c.args_addr] if fn.indirect else c.flat
    if len(vals) != nflat:
        raise Tie("oracle produced %d flat values for %s, expected %d" % (len(vals), fn.label(), nflat))
    args = ", ".join(flat_arg(t, b) for (t, _), b in zip(d["params"], vals))
    w("    gr_user_call = %d;" % c.k)
    w("    gr_phase(\"C%d X call\");" % c.k)
    rt = d["ret"]
    isvoid = rt.name == "void" and rt.nptr == 0
    if fn.result is not None and isvoid:
        raise Tie("core export %s returns void but the function has a result" % d["symbol"])
    w("    %s%s(%s);" % ("" if isvoid else cdecl(rt, "r") + " = ", d["symbol"], args))
    w("    gr_user_call = -1;")
    w("    gr_phase(\"C%d X read\");" % c.k)
    if not isvoid:
        w("    " + flat_obs(rt, 0, "r"))
        if fn.retptr:
            w("    gr_dump_range((const void *)r, %d);" % fn.rlayout[0])
    w("    gr_dump_live();")
    w("    gr_phase(\"C%d X post\");" % c.k)
    post = u.src.exports.get(fn.f["post_return_name"])
    if post is not None:
        w("    %s(%s);" % (post["symbol"], "" if isvoid else "r"))
    else:
        w("    gr_note(\"no-post-return\");")
    w("    gr_phase(\"C%d X end\"); gr_live_summary();" % c.k)
    w("  }")


def emit_import_call(u, c, o):
    fn, g = c.fn, u.gen
    w = o.append
    allocs = [a for a in c.host_allocs]
    w("static const gr_alloc_t gr_allocs_%d[] = { %s {0,0,0,0} };" % (
        c.k, "".join('{%d, %d, %dULL, "%s"}, ' % (sz, al, addr, hx or "") for sz, al, addr, hx in allocs)))
    w("static const gr_plan_t gr_plan_%d = { %d, gr_allocs_%d, \"%s\", %dULL };" % (
        c.k, len(allocs), c.k, c.ret_img if fn.retptr else "", (c.flat[0] if (fn.result is not None and not fn.retptr and c.flat) else 0)))
    w("static void gr_import_call_%d(void) { /* %s */" % (c.k, fn.label()))
    w("  gr_phase(\"C%d I build\");" % c.k)
    args, frees, copies = [], [], []
    for i, ((cty, cname), (pn, pt), of) in enumerate(zip(fn.cparams, fn.params, fn.opt_flat)):
        v = c.args_v[1][i]
        a = "a%d" % i
        if of:
            payload = strip_alias(pt)["t"]
            w("  %s %s; memset(&%s, 0, sizeof %s);" % (cty.name, a, a, a))
            if v[1]:
                g.build(payload, CTy(cty.name, 0), a, v[2], o)
                args.append("&" + a)
                emit_free(u, payload, CTy(cty.name, 0), "&" + a, frees)
            else:
                args.append("NULL")
        else:
            base = CTy(cty.name, 0)
            w("  %s %s; memset(&%s, 0, sizeof %s);" % (cty.name, a, a, a))
            g.build(pt, base, a, v, o)
            if cty.nptr:
                args.append("&" + a)
                emit_free(u, pt, base, "&" + a, frees)
            else:
                args.append(a)
        copies.append(a)
    for a in copies:
        w("  __typeof__(%s) %s_copy; memcpy(&%s_copy, &%s, sizeof %s);" % (a, a, a, a, a))
    w("  gr_snapshot();")
    w("  gr_cur = &gr_plan_%d;" % c.k)
    w("  gr_phase(\"C%d I call\");" % c.k)
    kind = fn.kind
    retfree = []
    walk = []
    if kind == "void":
        w("  %s(%s);" % (fn.proto.name, ", ".join(args)))
    elif kind == "scalar":
        w("  %s = %s(%s);" % (cdecl(fn.proto.ret, "r"), fn.proto.name, ", ".join(args)))
        g.walk(fn.result, fn.proto.ret, "r", walk)
    elif kind == "retptr":
        cty, _ = fn.cret[0]
        w("  %s r; memset(&r, 0, sizeof r);" % cty.name)
        w("  %s(%s);" % (fn.proto.name, ", ".join(args + ["&r"])))
        g.walk(fn.result, CTy(cty.name, 0), "r", walk)
        emit_free(u, fn.result, CTy(cty.name, 0), "&r", retfree)
    elif kind == "option-bool":
        cty, _ = fn.cret[0]
        payload = strip_alias(fn.result)["t"]
        w("  %s r; memset(&r, 0, sizeof r);" % cty.name)
        w("  bool some = %s(%s);" % (fn.proto.name, ", ".join(args + ["&r"])))
        walk.append("  gr_leaf('o', some ? 1 : 0);")
        walk.append("  if (some) {")
        g.walk(payload, CTy(cty.name, 0), "r", walk, "    ")
        walk.append("  }")
        tmp = []
        emit_free(u, payload, CTy(cty.name, 0), "&r", tmp, "    ")
        if tmp:
            retfree += ["  if (some) {"] + tmp + ["  }"]
    elif kind == "result-bool":
        t = strip_alias(fn.result)
        slots = [x for x in ("ok", "err") if t[x] is not None]
        extra = []
        for x, (cty, _) in zip(slots, fn.cret):
            w("  %s r_%s; memset(&r_%s, 0, sizeof r_%s);" % (cty.name, x, x, x))
            extra.append("&r_" + x)
        w("  bool isok = %s(%s);" % (fn.proto.name, ", ".join(args + extra)))
        walk.append("  gr_leaf('r', isok ? 0 : 1);")
        for x, (cty, _) in zip(slots, fn.cret):
            cond = "isok" if x == "ok" else "!isok"
            walk.append("  if (%s) {" % cond)
            g.walk(t[x], CTy(cty.name, 0), "r_" + x, walk, "    ")
            walk.append("  }")
            tmp = []
            emit_free(u, t[x], CTy(cty.name, 0), "&r_" + x, tmp, "    ")
            if tmp:
                retfree += ["  if (%s) {" % cond] + tmp + ["  }"]
    w("  gr_cur = NULL;")
    w("  gr_phase(\"C%d I after\");" % c.k)
    w("  gr_snapshot_check();")
    for a in copies:
        w("  if (memcmp(&%s_copy, &%s, sizeof %s) != 0) gr_note(\"arg-object-modified %s\");" % (a, a, a, a))
    w("  gr_phase(\"C%d I result\");" % c.k)
    o.extend(walk)
    w("  gr_phase(\"C%d I free-ret\");" % c.k)
    o.extend(retfree)
    w("  gr_phase(\"C%d I free-args\");" % c.k)
    o.extend(frees)
    w("  gr_phase(\"C%d I end\"); gr_live_summary();" % c.k)
    w("}")


def emit_resource_scenario(u, o):
    """C11, resource half.  Exported resources: the user code creates instances (X_new), reads the representation back
    (X_rep), and the host drops the owned handle: a component-model host then calls the destructor through the export the
    component encoder wires, i.e. the one carrying wit-parser's canonical name `<iface>#[dtor]<resource>`; natively we
    call exactly that function iff the generated code defines it.  Imported resources: the user drops owned handles
    through the generated X_drop_own, which must reach the host's [resource-drop] exactly once."""
    w = o.append
    u.res_plan = []
    rng = vf.Rng(u.seed ^ 0x5151)
    all_canon = [x["dtor"] for i2 in u.desc["items"] if i2["dir"] == "export" for x in i2["resources"]]
    for it in u.desc["items"]:
        for r in it["resources"]:
            w("  gr_phase(\"R %s %s|%s\");" % (it["dir"], it["iface"], r["name"]))
            if it["dir"] == "export":
                canon = r["dtor"]
                d = u.src.exports.get(canon)
                newd = u.src.imports.get(tuple(r["new"]))
                repd = u.src.imports.get(tuple(r["rep"]))
                n = rng.range(1, 3)
                reps = [rng.range(1, 1 << 20) * 8 for _ in range(n)]
                plan = {"kind": "exported", "iface": it["iface"], "resource": r["name"], "canonical": canon, "wired": d is not None,
                        "reps": reps, "dtor_exports": sorted(x for x in u.src.exports if "#[dtor]" in x), "roundtrip": []}
                u.res_plan.append(plan)
                new_fn = rep_fn = None
                if newd and repd and newd["symbol"].startswith("__wasm_import_") and newd["symbol"].endswith("_new"):
                    base = newd["symbol"][len("__wasm_import_"):-len("_new")]
                    pn, pr = u.hdr.proto(base + "_new"), u.hdr.proto(base + "_rep")
                    if pn and pr and len(pn.params) == 1 and len(pr.params) == 1:
                        new_fn, rep_fn = pn, pr
                for rep in reps:
                    if new_fn:
                        pt = new_fn.params[0][0]
                        w("  { %s = %s((%s %s)(uintptr_t)%dULL);" % (cdecl(new_fn.ret, "h"), new_fn.name, pt.name, "*" * pt.nptr, rep))
                        w("    gr_res_event(\"rep-back\", \"-\", (int64_t)(uintptr_t)%s(h)); }" % rep_fn.name)
                        plan["roundtrip"].append((rep, rep))
                    w("  gr_res_event(\"host-drop\", %s, %d);" % (c_str(canon), rep))
                    if d is not None:
                        pt = d["params"][0][0]
                        w("  %s((%s %s)(uintptr_t)%dULL);" % (d["symbol"], pt.name, "*" * pt.nptr, rep))
            else:
                dd = u.src.imports.get(tuple(r["drop"]))
                if not dd or not (dd["symbol"].startswith("__wasm_import_") and dd["symbol"].endswith("_drop")):
                    continue
                base = dd["symbol"][len("__wasm_import_"):-len("_drop")]
                p = u.hdr.proto(base + "_drop_own")
                if not p or len(p.params) != 1:
                    continue
                hs = [rng.range(1, 1 << 30) for _ in range(rng.range(1, 2))]
                u.res_plan.append({"kind": "imported", "iface": it["iface"], "resource": r["name"], "handles": hs, "drop_fn": p.name,
                                   "drop_import": "%s|%s" % tuple(r["drop"])})
                ms = u.gen.struct(p.params[0][0], "own handle", 1)
                for h in hs:
                    w("  { %s; memset(&h, 0, sizeof h); h.%s = (int32_t)%dU; %s(h); }" % (cdecl(p.params[0][0], "h"), ms[0].name, h, p.name))


# =============================================================================================== build + run
def build_rt(asan):
    os.makedirs(OUT_ROOT, exist_ok=True)
    obj = os.path.join(OUT_ROOT, "gr_rt%s.o" % ("_asan" if asan else ""))
    srcs = [os.path.join(RT_DIR, f) for f in ("gr_rt.c", "gr_rt.h")]
    if os.path.exists(obj) and all(os.path.getmtime(obj) >= os.path.getmtime(s) for s in srcs):
        return True, obj, ""
    with vf.Lock("genrun_c_rt"):
        rc, out = vf.sh(["clang", "-O0", "-g", "-Wall", "-Wextra", "-Werror"] + (["-fsanitize=address,undefined"] if asan else []) +
                        ["-c", srcs[0], "-o", obj + ".tmp"], timeout=120)
        if rc == 0:
            os.replace(obj + ".tmp", obj)
    return rc == 0, obj, out


def build_and_run(u, rundir, rt_obj, asan):
    d = os.path.join(rundir, u.key().replace("/", "_"))
    os.makedirs(d, exist_ok=True)
    u.dir = d
    for n, c in u.files.items():
        open(os.path.join(d, n), "w").write(c)
    open(os.path.join(d, "gr_main.c"), "w").write(u.test_c)
    open(os.path.join(d, "world.wit"), "w").write(u.wit)
    # thorough tier: ASan + UBSan (recovering, so every call is still judged; reports are merged into the transcript, which
    # is line-buffered in this mode).  The bool/enum load checks are off: the generated option/result flattening copies the
    # payload slot unconditionally (`*ret = option.val` also when is_some is false), i.e. it reads an uninitialised local;
    # that is reported as an observation, it cannot change a transported value.
    san = ["-fsanitize=address,undefined", "-fno-sanitize=bool,enum", "-fsanitize-recover=undefined", "-g", "-DGR_LINEBUF"] if asan else []
    exe = os.path.join(d, "t")
    # one clang invocation: the generated file (unmodified) + the emitted test program; gr_prelude.h only renames the
    # allocator entry points (the emitted program never calls them by their libc names)
    rc, out = vf.sh(["clang", "-O0", "-w", "-I", d, "-I", RT_DIR] + san + ["-include", os.path.join(RT_DIR, "gr_prelude.h"),
                    os.path.join(d, u.cname), os.path.join(d, "gr_main.c"), rt_obj, "-o", exe], timeout=600)
    if rc != 0:
        # tell the two translation units apart for the report
        rc1, out1 = vf.sh(["clang", "-O0", "-w", "-fsyntax-only", "-I", d, "-I", RT_DIR, "-include", os.path.join(RT_DIR, "gr_prelude.h"),
                           os.path.join(d, u.cname)], timeout=300)
        u.status, u.detail = ("build-fail-generated" if rc1 != 0 else "build-fail-test"), out[-3000:]
        return
    if asan:
        rc, so = vf.sh("%s 2>&1" % exe.replace(" ", "\\ "), timeout=300, shell=True,
                       env={"ASAN_OPTIONS": "detect_leaks=0:abort_on_error=0:log_path=stdout", "UBSAN_OPTIONS": "print_stacktrace=0:log_path=stdout"})
        se = "\n".join(l for l in so.split("\n") if "runtime error:" in l or "AddressSanitizer" in l or "SUMMARY:" in l)
    else:
        rc, so, se = vf.sh2([exe], timeout=120)
    u.rc, u.stdout, u.stderr = rc, so, se
    open(os.path.join(d, "transcript.txt"), "w").write(so)
    if se:
        open(os.path.join(d, "stderr.txt"), "w").write(se)
    u.status = "ran"


# =============================================================================================== analysis
def split_phases(text):
    """-> list of (phase name, [lines])"""
    ph = [("START", [])]
    for l in text.split("\n"):
        if l.startswith("P "):
            ph.append((l[2:], []))
        elif l:
            ph[-1][1].append(l)
    return ph


def analyse_unit(u, exe_o):
    """Fills c.obs for every call; returns oracle lift requests to run (batched by the caller)."""
    phases = split_phases(u.stdout)
    blocks = {}      # id -> (addr, size, kind)
    per_call = {}
    cur = None
    u.tail = []
    u.res_events = []
    crashed = u.rc != 0
    for name, lines in phases:
        m = re.match(r"C(\d+) ([XI]) (\S+)$", name)
        if m:
            cur = int(m.group(1))
            sub = m.group(3)
            per_call.setdefault(cur, []).append((sub, lines))
        elif name.startswith("user-") or name.startswith("host-import"):
            if cur is not None:
                per_call[cur].append((name, lines))
        elif name.startswith("R "):
            cur = None
            u.res_events.append((name[2:], lines))
        elif name == "END":
            cur = None
            u.tail = lines
        else:
            if cur is not None:
                per_call[cur].append((name, lines))
    u.completed = any(n == "END" for n, _ in phases)
    reqs = []
    for c in u.calls:
        ob = c.obs = {"phases": per_call.get(c.k, []), "errors": [], "notes": []}
        names = [n for n, _ in ob["phases"]]
        ob["reached_end"] = "end" in names
        allocs, frees, logs, flats, segs = {}, {}, {}, {}, {}
        for n, lines in ob["phases"]:
            for l in lines:
                if "runtime error:" in l or "ERROR: AddressSanitizer" in l:
                    ob.setdefault("sanitizer", []).append((n, l[:400]))
                    continue
                if len(l) < 2 or l[1] != " " or l[0] not in "AFLVSEKDZ":
                    continue        # body of a sanitizer report
                tag, rest = l[0], l[2:]
                if tag == "A":
                    i, addr, sz, kind = rest.split()
                    allocs.setdefault(n, []).append((int(i), int(addr), int(sz), kind))
                elif tag == "F":
                    if rest != "null":
                        frees.setdefault(n, []).append(int(rest))
                elif tag == "L":
                    logs.setdefault(n, []).append(rest)
                elif tag == "V":
                    i, v = rest.split()
                    flats.setdefault(n, {})[int(i)] = int(v)
                elif tag == "S":
                    segs.setdefault(n, []).append(rest)
                elif tag == "E":
                    ob["errors"].append((n, rest))
                elif tag == "K":
                    ob["notes"].append((n, rest))
                elif tag == "D":
                    ob.setdefault("res", []).append((n, rest))
        ob.update({"allocs": allocs, "frees": frees, "logs": logs, "flats": flats, "segs": segs})
        fn = c.fn
        if not ob["reached_end"]:
            continue
        if fn.dir == "export":
            if fn.result is not None:
                rd = flats.get("read", {})
                sg = ";".join(segs.get("read", []))
                if fn.retptr:
                    reqs.append((c, "ret", spec("lift", PW, u.oty(fn.result), "mem", rd.get(0, 0), sg)))
                else:
                    reqs.append((c, "ret", spec("lift", PW, u.oty(fn.result), "flat", rd.get(0, 0), sg)))
        else:
            hp = [n for n in names if n.startswith("host-import")]
            ob["import_phase"] = hp
            if len(hp) == 1 and fn.params:
                fl = flats.get(hp[0], {})
                sg = ";".join(segs.get(hp[0], []))
                if fn.indirect:
                    reqs.append((c, "args", spec("lift", PW, u.oty(fn.params_tuple_ty()), "mem", fl.get(0, 0), sg)))
                else:
                    n = len(fn.playout[2])
                    reqs.append((c, "args", spec("lift", PW, u.oty(fn.params_tuple_ty()), "flat", " ".join(str(fl.get(i, 0)) for i in range(n)), sg)))
    return reqs


def expected_args_log(u, c):
    fn = c.fn
    out = []
    for (pn, pt), v, of in zip(fn.params, c.args_v[1], fn.opt_flat):
        out += expected_log(pt, v, u.utf16)
    return out


def expected_ret_log(u, c):
    fn = c.fn
    if fn.result is None:
        return []
    return expected_log(fn.result, c.ret_v, u.utf16)


def judge_values(u, c):
    """C10 on one completed call -> list of (what, expected, actual)"""
    ob, fn = c.obs, c.fn
    bad = []
    if fn.dir == "export":
        got = ob["logs"].get("user-args", [])
        exp = expected_args_log(u, c)
        if got != exp:
            bad.append(("arguments received by the C implementation differ from what the host sent", exp, got))
        if fn.result is not None:
            lifted = ob.get("lift_ret")
            if lifted != c.ret_s:
                bad.append(("result lifted by the host differs from what the C implementation returned", c.ret_s, lifted))
    else:
        hp = ob.get("import_phase", [])
        if len(hp) != 1:
            bad.append(("the generated import wrapper called the core import %d times" % len(hp), 1, len(hp)))
            return bad
        if fn.params:
            lifted = ob.get("lift_args")
            if lifted != c.args_s:
                bad.append(("arguments lifted by the host differ from what the C caller passed", c.args_s, lifted))
        got = ob["logs"].get("result", [])
        exp = expected_ret_log(u, c)
        if got != exp:
            bad.append(("result received by the C caller differs from what the host returned", exp, got))
    return bad


def judge_memory(u, c):
    """C11 on one completed call -> list of (class, what)"""
    ob, fn = c.obs, c.fn
    bad = []
    A = lambda n: ob["allocs"].get(n, [])
    F = lambda n: ob["frees"].get(n, [])
    for n, e in ob["errors"]:
        cls = e.split()[0]
        bad.append((cls, "%s during phase %s" % (e, n)))
    if fn.dir == "export":
        host = [a[0] for a in A("setup")]
        during_call = []
        user_alloc = []
        call_phases = ["call", "user-args", "user-free", "user-build", "user-ret"]
        for n in call_phases:
            during_call += F(n)
            user_alloc += [a[0] for a in A(n)]
        post = F("post")
        # arguments: the export owns them; the documented rule (free helper on each argument) must release exactly them
        missing = sorted(set(host) - set(during_call))
        extra = sorted(set(during_call) - set(host))
        nohelper = [t for _, t in ob["notes"] if t.startswith("no-free-helper")]
        if missing:
            bad.append(("args-leak" if not nohelper else "args-leak-no-helper",
                        "%d of %d argument blocks still allocated after the export returned (blocks %s)%s" % (len(missing), len(host), missing, "; " + ", ".join(nohelper) if nohelper else "")))
        if extra:
            bad.append(("call-freed-foreign", "blocks %s freed during the call are not argument blocks" % extra))
        # result: post-return frees exactly what the implementation allocated for the result
        if sorted(post) != sorted(user_alloc):
            cls = "post-return-leak" if set(post) < set(user_alloc) else "post-return-mismatch"
            if any(t == "no-post-return" for _, t in ob["notes"]):
                cls = "post-return-missing"
            bad.append((cls, "post-return freed blocks %s; the returned value owns blocks %s" % (sorted(post), sorted(user_alloc))))
        if A("post") or A("read"):
            bad.append(("post-return-alloc", "allocation during read/post-return"))
    else:
        built = [a[0] for a in A("build")]
        hp = ob.get("import_phase", [])
        host = [a[0] for n in hp for a in A(n)]
        for n in ["call"] + hp:
            if F(n):
                bad.append(("import-freed-args", "blocks %s freed while the import was being called" % F(n)))
        for n, t in ob["notes"]:
            if t.startswith("snap-freed") or t.startswith("snap-modified") or t.startswith("arg-object-modified"):
                bad.append(("import-args-touched", t))
        fr = F("free-ret")
        if sorted(fr) != sorted(host):
            nohelper = [t for n, t in ob["notes"] if t.startswith("no-free-helper") and n == "free-ret"]
            cls = "free-helper-leak" if set(fr) < set(host) else "free-helper-mismatch"
            if nohelper:
                cls = "free-helper-missing"
            bad.append((cls, "the free helper of the result released blocks %s; the host allocated %s for it%s" % (sorted(fr), sorted(host), "; " + ", ".join(nohelper) if nohelper else "")))
        fa = F("free-args")
        if sorted(fa) != sorted(built):
            nohelper = [t for n, t in ob["notes"] if t.startswith("no-free-helper") and n == "free-args"]
            cls = "free-helper-leak" if set(fa) < set(built) else "free-helper-mismatch"
            if nohelper:
                cls = "free-helper-missing"
            bad.append((cls, "the free helpers of the arguments released blocks %s; the caller had allocated %s%s" % (sorted(fa), sorted(built), "; " + ", ".join(nohelper) if nohelper else "")))
    return bad


def expected_drops(u, c):
    """autodrop: borrows of IMPORTED resources received by an export are released by the bindings at return."""
    fn = c.fn
    if fn.dir != "export":
        return []
    out = []
    for (pn, pt), v in zip(fn.params, c.args_v[1]):
        for res, owner, h in handles_in(pt, v, "borrow"):
            if owner not in u.exported_ifaces:
                out.append(h)
    return sorted(out)


def observed_drops(c):
    out = []
    for n, rest in c.obs.get("res", []):
        what, which, v = rest.split(" ", 2)
        if what == "drop":
            out.append(int(v) & 0xFFFFFFFF)
    return sorted(out)


# =============================================================================================== top level
def run_batch(units, tier_asan=False, calls_per_func=3, max_calls=60, tag="run", log=None):
    """units: list of Unit (status 'new').  Generates, plans, builds, runs, analyses.  Returns stats dict."""
    t0 = time.time()
    ok, exe_d, lg = vf.cargo_build("cdescribe")
    if not ok:
        raise RuntimeError("cdescribe build failed:\n" + lg[-3000:])
    import abitie
    b = abitie.build()
    if not b[3]:
        raise RuntimeError("oracle driver build failed:\n" + str(b[5])[-3000:])
    exe_o = b[4]
    ok, rt_obj, lg = build_rt(tier_asan)
    if not ok:
        raise RuntimeError("runtime build failed:\n" + lg[-3000:])
    lines = ["\x1e".join([u.cfg_words, u.world or "", u.wit.replace("\n", "\x1f")]) for u in units]
    replies = vf.run_filter([exe_d], lines) if lines else []
    for u, r in zip(units, replies):
        try:
            u.load(r)
        except Tie as e:
            u.status, u.detail = "tie", str(e)
    t1 = time.time()
    plan_units(units, exe_o, calls_per_func, max_calls)
    t2 = time.time()
    rundir = os.path.join(OUT_ROOT, tag)
    shutil.rmtree(rundir, ignore_errors=True)
    os.makedirs(rundir, exist_ok=True)
    ready = []
    for u in units:
        if u.status != "ready":
            continue
        try:
            u.test_c = emit_unit(u)
            ready.append(u)
        except Tie as e:
            u.status, u.detail = "tie", str(e)
    with concurrent.futures.ThreadPoolExecutor(max_workers=vf.NCPU) as ex:
        list(ex.map(lambda u: build_and_run(u, rundir, rt_obj, tier_asan), ready))
    t3 = time.time()
    reqs = []
    for u in ready:
        if u.status == "ran":
            reqs += analyse_unit(u, exe_o)
    rep = vf.run_filter([exe_o], [r[2] for r in reqs]) if reqs else []
    for (c, what, _), r in zip(reqs, rep):
        c.obs["lift_" + what] = r
    t4 = time.time()
    return {"t_generate": round(t1 - t0, 2), "t_plan": round(t2 - t1, 2), "t_build_run": round(t3 - t2, 2), "t_lift": round(t4 - t3, 2),
            "rundir": rundir}


# =============================================================================================== shrinking / replay
def synth_wit(f, direction, both=False):
    """A minimal WIT package holding just function `f` (a cdescribe function description) and the named types it
    mentions, in one interface that the world imports / exports (`both`: imports and exports)."""
    import witgen
    defs, order, names = {}, [], {}

    def nm(n):
        return witgen.esc(n)

    def define(name, key, text_fn):
        if name in names and names[name] != key:
            i = 2
            while "%s-v%d" % (name, i) in names and names["%s-v%d" % (name, i)] != key:
                i += 1
            name = "%s-v%d" % (name, i)
        if name not in names:
            names[name] = key
            defs[name] = None
            defs[name] = text_fn(name)
            order.append(name)
        return nm(name)

    def ty(t):
        k = t["k"]
        if k in PRIM_C or k == "string":
            return k
        if k == "errctx":
            return "error-context"
        n = t.get("name")
        key = json.dumps(t, sort_keys=True)
        o = lambda x: ty(x) if x is not None else "_"
        if k == "alias":
            inner = ty(t["t"])
            return define(n, key, lambda nn: "  type %s = %s;\n" % (nm(nn), inner))
        if k == "record":
            fs = ["    %s: %s,\n" % (nm(a), ty(b)) for a, b in t["fields"]]
            return define(n, key, lambda nn: "  record %s {\n%s  }\n" % (nm(nn), "".join(fs)))
        if k == "variant":
            cs = ["    %s%s,\n" % (nm(a), "(%s)" % ty(b) if b is not None else "") for a, b in t["cases"]]
            return define(n, key, lambda nn: "  variant %s {\n%s  }\n" % (nm(nn), "".join(cs)))
        if k == "enum":
            return define(n, key, lambda nn: "  enum %s { %s }\n" % (nm(nn), ", ".join(nm(c) for c in t["cases"])))
        if k == "flags":
            return define(n, key, lambda nn: "  flags %s { %s }\n" % (nm(nn), ", ".join(nm(c) for c in t["flags"])))
        if k in ("own", "borrow"):
            r = define(t["res"], "resource:%s" % t["rid"], lambda nn: "  resource %s;\n" % nm(nn))
            e = r if k == "own" else "borrow<%s>" % r
        elif k == "tuple":
            e = "tuple<%s>" % ", ".join(ty(x) for x in t["items"])
        elif k == "option":
            e = "option<%s>" % ty(t["t"])
        elif k == "result":
            if t["ok"] is None and t["err"] is None:
                e = "result"
            elif t["err"] is None:
                e = "result<%s>" % ty(t["ok"])
            else:
                e = "result<%s, %s>" % (o(t["ok"]), ty(t["err"]))
        elif k == "list":
            e = "list<%s>" % ty(t["t"])
        elif k == "fixed":
            e = "list<%s, %d>" % (ty(t["t"]), t["n"])
        elif k == "map":
            e = "map<%s, %s>" % (ty(t["key"]), ty(t["value"]))
        elif k in ("future", "stream"):
            e = k if t["t"] is None else "%s<%s>" % (k, ty(t["t"]))
        else:
            raise Tie("synth: " + k)
        if n and k not in ("own", "borrow"):
            return define(n, key, lambda nn: "  type %s = %s;\n" % (nm(nn), e))
        return e

    kind = f["kind"]
    params = f["params"][1:] if kind == "method" else f["params"]
    ps = ", ".join("%s: %s" % (nm(a), ty(b)) for a, b in params)
    res = ty(f["result"]) if f["result"] is not None else None
    fname = f["name"]
    if kind == "func":
        body = "  %s: func(%s)%s;\n" % (nm(fname), ps, " -> " + res if res else "")
    else:
        rname = f["resource"]
        # the resource may already have been defined as a plain `resource r;` through a handle type: replace it
        item = fname.split(".", 1)[1] if "." in fname else ""
        if kind == "constructor":
            inner = "    constructor(%s)%s;\n" % (ps, "" if strip_alias(f["result"])["k"] == "own" else " -> " + res)
        elif kind == "method":
            inner = "    %s: func(%s)%s;\n" % (nm(item), ps, " -> " + res if res else "")
        else:
            inner = "    %s: static func(%s)%s;\n" % (nm(item), ps, " -> " + res if res else "")
        txt = "  resource %s {\n%s  }\n" % (nm(rname), inner)
        if rname in defs:
            defs[rname] = txt
        else:
            names[rname] = "resource"
            defs[rname] = txt
            order.insert(0, rname)
        body = ""
    wit = "package t:p;\n\ninterface i {\n%s%s}\n\nworld w {\n%s%s}\n" % (
        "".join(defs[n] for n in order), body,
        "  import i;\n" if (direction == "import" or both) else "", "  export i;\n" if (direction == "export" or both) else "")
    return wit, "w"


def unit_from_replay(obj, uid="replay"):
    u = Unit(uid, obj["wit"], obj.get("world", ""), obj.get("cfg_name", "cfg"), obj.get("cfg_words", ""), obj.get("seed", 1))
    if obj.get("calls") is not None:
        u.forced = obj["calls"]
    return u


def replay_obj(u, calls=None):
    return {"engine": "genrun_c", "wit": u.wit, "world": u.world, "cfg_name": u.cfg_name, "cfg_words": u.cfg_words, "seed": u.seed,
            "calls": None if calls is None else [{"label": c.fn.label(), "args": c.args_s, "ret": c.ret_s} for c in calls]}


def shrink_case(u, c, still_fails, tag):
    """Minimise a failing call: (1) the single call in its world, (2) the single function alone in a synthesised
    world, (3) smaller values.  `still_fails(unit) -> bool` re-judges a freshly run unit.  Returns a replay object."""
    best = replay_obj(u, [c])
    def attempt(obj, name):
        v = unit_from_replay(obj, uid="%s-%s" % (tag, name))
        try:
            run_batch([v], tag="%s-%s" % (tag, name))
        except Exception:
            return False
        return v.status == "ran" and still_fails(v)
    if not attempt(best, "s1"):
        return replay_obj(u, u.calls)       # needs the whole history
    both = any(it["dir"] != c.fn.dir and it["iface"] == c.fn.iface and c.fn.iface for it in u.desc["items"])
    for b in ([False, True] if both else [False]):
        try:
            wit, world = synth_wit(c.fn.f, c.fn.dir, b)
        except Tie:
            continue
        lab = "%s t:p/i#%s" % (c.fn.dir, c.fn.name)
        cand = dict(best, wit=wit, world=world, calls=[{"label": lab, "args": c.args_s, "ret": c.ret_s}])
        if attempt(cand, "s2%d" % b):
            best = cand
            break
    return best


# =============================================================================================== tie of Core/CLayout.v
def coq_ty(t):
    t = strip_alias(t)
    k = t["k"]
    prim = {"bool": "TBool", "u8": "TU8", "s8": "TS8", "u16": "TU16", "s16": "TS16", "u32": "TU32", "s32": "TS32", "u64": "TU64",
            "s64": "TS64", "f32": "TF32", "f64": "TF64", "char": "TChar", "string": "TString", "errctx": "TErrCtx"}
    if k in prim:
        return prim[k]
    o = lambda x: "(Some %s)" % coq_ty(x) if x is not None else "None"
    if k == "record":
        return "(TRecord [%s])" % "; ".join(coq_ty(f[1]) for f in t["fields"])
    if k == "tuple":
        return "(TTuple [%s])" % "; ".join(coq_ty(x) for x in t["items"])
    if k == "variant":
        return "(TVariant [%s])" % "; ".join(o(c[1]) for c in t["cases"])
    if k == "enum":
        return "(TEnum %d)" % len(t["cases"])
    if k == "flags":
        return "(TFlags %d)" % len(t["flags"])
    if k == "option":
        return "(TOption %s)" % coq_ty(t["t"])
    if k == "result":
        return "(TResult %s %s)" % (o(t["ok"]), o(t["err"]))
    if k == "list":
        return "(TList %s)" % coq_ty(t["t"])
    if k == "map":
        return "(TMap %s %s)" % (coq_ty(t["key"]), coq_ty(t["value"]))
    if k == "own":
        return "TOwn"
    if k == "borrow":
        return "TBorrow"
    if k in ("future", "stream"):
        return "(%s %s)" % ("TFuture" if k == "future" else "TStream", o(t["t"]))
    raise Tie("coq_ty: " + k)


def layout_probes(u, t, cty, out):
    """(WIT subtree, C typedef name) pairs reachable from a parameter/result, matched positionally against the header.
    Types containing a borrow of an EXPORTED resource are left out: that is a C pointer (4 bytes on wasm32, where it
    coincides with the canonical i32; 8 bytes on the native target this probe runs on)."""
    t0 = strip_alias(t)
    k = t0["k"]
    g = u.gen
    if cty.nptr or g.is_exported_borrow(cty):
        return
    if any(s["k"] == "borrow" and s["owner"] in u.exported_ifaces for s in subtypes(t0)):
        if k in ("record", "tuple", "variant", "option", "result"):
            pass        # descend: members without such a borrow are still probed
        else:
            return
    if k in ("errctx", "fixed"):
        return
    if not any(s["k"] == "borrow" and s["owner"] in u.exported_ifaces for s in subtypes(t0)):
        out.append((t0, cty.name))
    try:
        if k in ("record", "tuple"):
            fs = [f[1] for f in t0["fields"]] if k == "record" else t0["items"]
            for f, m in zip(fs, g.struct(cty, k, len(fs))):
                layout_probes(u, f, m.ty, out)
        elif k == "list":
            ms = g.struct(cty, "list", 2)
            layout_probes(u, t0["t"], CTy(ms[0].ty.name, 0), out)
        elif k in ("variant", "option", "result"):
            _, pay = g.variant_members(t0, cty)
            for i, c in enumerate(variant_cases(t0)):
                if c is not None:
                    layout_probes(u, c, pay[i][1], out)
    except Tie:
        pass


def emit_layout_probes(u, o):
    seen, probes = set(), []
    for fn in u.funcs:
        for (cty, _), (_, pt), of in zip(fn.cparams, fn.params, fn.opt_flat):
            tmp = []
            layout_probes(u, strip_alias(pt)["t"] if of else pt, CTy(cty.name, 0), tmp)
            probes += tmp
        if fn.kind == "scalar":
            layout_probes(u, fn.result, fn.proto.ret, probes)
        elif fn.kind == "retptr":
            layout_probes(u, fn.result, CTy(fn.cret[0][0].name, 0), probes)
    u.layout_probes = []
    for t, cname in probes:
        key = (coq_ty(t), cname)
        if key in seen:
            continue
        seen.add(key)
        o.append("  printf(\"Z %d %%zu %%zu\\n\", sizeof(%s), (size_t)_Alignof(%s));" % (len(u.layout_probes), cname, cname))
        u.layout_probes.append((key[0], cname))


def check_layout_model(units, tag):
    """Evaluates c_size 8 / c_align 8 of Core/CLayout.v's c_repr with coqc on every probed type and compares with what
    clang computed for the generated typedef.  -> (n compared, [mismatch descriptions], log)"""
    obs = []
    for u in units:
        if u.status != "ran":
            continue
        got = {}
        for l in u.stdout.split("\n"):
            if l.startswith("Z "):
                i, s, a = l.split()[1:]
                got[int(i)] = (int(s), int(a))
        for i, (term, cname) in enumerate(getattr(u, "layout_probes", [])):
            if i in got:
                obs.append((term, cname, got[i], u.key()))
    terms = sorted({o[0] for o in obs})
    if not terms:
        return 0, [], "no probes"
    d = os.path.join(OUT_ROOT, tag)
    os.makedirs(d, exist_ok=True)
    f = os.path.join(d, "LayoutTie.v")
    with open(f, "w") as fh:
        fh.write("From Coq Require Import List NArith.\nFrom WB Require Import Wit.Ty Canon.Spec Core.CLayout.\nImport ListNotations.\nLocal Open Scope N_scope.\n")
        for i, t in enumerate(terms):
            fh.write("Definition p%d : ty := %s.\n" % (i, t))
            fh.write('Goal True. idtac "@@ %d". Abort.\nEval vm_compute in (c_size 8 (c_repr p%d), c_align 8 (c_repr p%d)).\n' % (i, i, i))
    rc, out = vf.sh(["coqc", "-Q", os.path.join(vf.COQ, "theories"), "WB", f], cwd=d, timeout=600)
    if rc != 0:
        return 0, ["coqc failed on the layout tie file: " + out[-800:]], out
    model = {}
    for m in re.finditer(r"@@ (\d+)\s+=\s*\(\s*(\d+),\s*(\d+)\s*\)", out):
        model[terms[int(m.group(1))]] = (int(m.group(2)), int(m.group(3)))
    bad = []
    for term, cname, got, where in obs:
        if model.get(term) != got:
            bad.append("%s: clang gives sizeof/alignof(%s) = %s, Core/CLayout.v gives %s for %s" % (where, cname, got, model.get(term), term[:300]))
    return len(obs), bad, out


# =============================================================================================== C11: free-helper audit
HELPER_DEF = re.compile(r"^void (\w+_free)\((\w+) \*(\w+)\) \{\n(.*?)^\}", re.S | re.M)


def helper_bodies(u):
    if not hasattr(u, "_helpers"):
        u._helpers = {m.group(1): (m.group(2), m.group(4)) for m in HELPER_DEF.finditer(u.files[u.cname])}
    return u._helpers


def direct_members(u, t, cty):
    """[(WIT member type, member CTy)] of the immediate components of t, matched positionally against the header"""
    g = u.gen
    t0 = strip_alias(t)
    k = t0["k"]
    out = []
    if k in ("record", "tuple"):
        fs = [f[1] for f in t0["fields"]] if k == "record" else t0["items"]
        out = [(f, m.ty) for f, m in zip(fs, g.struct(cty, k, len(fs)))]
    elif k == "list":
        ms = g.struct(cty, "list", 2)
        out = [(t0["t"], CTy(ms[0].ty.name, 0))]
    elif k == "map":
        ms = g.struct(cty, "map", 2)
        ent = g.struct(CTy(ms[0].ty.name, 0), "map entry", 2)
        out = [(t0["key"], ent[0].ty), (t0["value"], ent[1].ty)]
    elif k in ("variant", "option", "result"):
        _, pay = g.variant_members(t0, cty)
        out = [(c, pay[i][1]) for i, c in enumerate(variant_cases(t0)) if c is not None]
    return out


def audit_free_helper(u, t, cty, depth=0):
    """Why does releasing a value of type t through its generated helper leak?  Static look at the generated text.
    -> list of (cause, C type, detail); cause 'member-helper-not-called' names the mechanism of crates/c define_dtor/free:
    a member type owns memory and HAS a generated *_free helper, yet the enclosing helper does not call it (or the
    enclosing helper was not generated because it would only have consisted of such calls)."""
    out = []
    if depth > 8 or not owns_heap(t):
        return out
    t0 = strip_alias(t)
    if t0["k"] == "string":
        return out
    name = cty.name
    # follow typedef aliases to the helper-bearing name
    h = u.hdr.free_helper(name)
    bodies = helper_bodies(u)
    try:
        members = direct_members(u, t, cty)
    except Tie:
        return out
    heap_members = [(mt, mc) for mt, mc in members if owns_heap(mt)]
    def member_helper(mt, mc):
        return u.hdr.free_helper(mc.name)
    if h is None:
        d = u.hdr.typedefs.get(name)
        if d and d[0] == "alias":
            return audit_free_helper(u, t, CTy(d[1].name, 0), depth + 1)
        missing = [mc.name for mt, mc in heap_members if not member_helper(mt, mc)]
        if heap_members and not missing:
            out.append(("member-helper-not-called", name, "no %s helper although members %s have helpers" % (name, [mc.name for _, mc in heap_members])))
        elif missing:
            # no helper because a member has none either: the member's own entry (below) carries the cause
            out.append(("cascade", name, "no %s helper because members %s have none" % (name, missing)))
        else:
            out.append(("helper-missing", name, "no free helper for heap-owning type"))
    else:
        body = bodies.get(h, ("", ""))[1]
        for mt, mc in heap_members:
            mh = member_helper(mt, mc)
            if mh and not re.search(r"\b%s\(" % re.escape(mh), body):
                out.append(("member-helper-not-called", name, "%s does not call %s" % (h, mh)))
    for mt, mc in heap_members:
        out += audit_free_helper(u, mt, mc, depth + 1)
    return out


def free_targets(u, c):
    """(WIT type, CTy) of the values the user code of call c releases through free helpers, per ledger phase"""
    fn = c.fn
    args, ret = [], []
    for (cty, _), (_, pt), of in zip(fn.cparams, fn.params, fn.opt_flat):
        if of:
            args.append((strip_alias(pt)["t"], CTy(cty.name, 0)))
        elif cty.nptr:
            args.append((pt, CTy(cty.name, 0)))
    if fn.kind == "retptr":
        ret.append((fn.result, CTy(fn.cret[0][0].name, 0)))
    elif fn.kind == "option-bool":
        ret.append((strip_alias(fn.result)["t"], CTy(fn.cret[0][0].name, 0)))
    elif fn.kind == "result-bool":
        t = strip_alias(fn.result)
        for x, (cty, _) in zip([x for x in ("ok", "err") if t[x] is not None], fn.cret):
            ret.append((t[x], CTy(cty.name, 0)))
    return args, ret


# =============================================================================================== C11: resources
def judge_resources(u):
    """-> [(key class, what, plan entry)] from the resource scenario transcript"""
    bad = []
    ev = {}
    for name, lines in getattr(u, "res_events", []):
        ev[name] = [l[2:].split(" ", 2) for l in lines if l.startswith("D ")] + [["E", l[2:], ""] for l in lines if l.startswith("E ")]
    for p in getattr(u, "res_plan", []):
        lines = ev.get("%s %s|%s" % ("export" if p["kind"] == "exported" else "import", p["iface"], p["resource"]))
        if lines is None:
            continue        # the program died before this scenario (reported elsewhere)
        if p["kind"] == "exported":
            for rep in p["reps"]:
                n = sum(1 for w, _, v in lines if w == "user-dtor" and int(v) == rep)
                if n != 1:
                    if not p["wired"]:
                        import witgen  # noqa
                        snake = p["resource"].replace("-", "_")
                        alt = "%s#[dtor]%s" % (p["iface"], snake)
                        if snake != p["resource"] and alt in p["dtor_exports"]:
                            bad.append(("c:dtor-export-name:snake-case",
                                        "resource `%s` exported by `%s`: the component encoder wires the destructor through the export named `%s` "
                                        "(wit-parser wasm_export_name), the generated C defines `%s` instead, so dropping an owned handle runs the user "
                                        "destructor %d times instead of once" % (p["resource"], p["iface"], p["canonical"], alt, n), p))
                        else:
                            bad.append(("c:dtor-export-missing", "no export named `%s`; exports with [dtor]: %s" % (p["canonical"], p["dtor_exports"]), p))
                    else:
                        bad.append(("c:dtor-count", "user destructor of `%s` ran %d times for one drop of rep %d" % (p["resource"], n, rep), p))
                    break
            for rep, back in p.get("roundtrip", []):
                got = [int(v) for w, _, v in lines if w == "rep-back"]
                if rep not in got:
                    bad.append(("c:resource-rep-roundtrip", "X_rep(X_new(%d)) returned %s" % (rep, got), p))
                    break
        else:
            for h in p["handles"]:
                n = sum(1 for w, which, v in lines if w == "drop" and which == p["drop_import"] and int(v) & 0xFFFFFFFF == h)
                others = [(w, which, v) for w, which, v in lines if w == "drop" and not (which == p["drop_import"])]
                if n != 1 or others:
                    bad.append(("c:imported-drop-own", "%s(%d) reached the host's %s %d times (other drops: %s)" % (p["drop_fn"], h, p["drop_import"], n, others), p))
                    break
    return bad


# =============================================================================================== tie of Core/COwnership.v
def coq_ty_o(t, utf16):
    t = strip_alias(t)
    if t["k"] == "string" and utf16:
        return "(TList TU16)"
    k = t["k"]
    if k in ("record", "tuple", "variant", "option", "result", "list", "map"):
        o = lambda x: "(Some %s)" % coq_ty_o(x, utf16) if x is not None else "None"
        if k == "record":
            return "(TRecord [%s])" % "; ".join(coq_ty_o(f[1], utf16) for f in t["fields"])
        if k == "tuple":
            return "(TTuple [%s])" % "; ".join(coq_ty_o(x, utf16) for x in t["items"])
        if k == "variant":
            return "(TVariant [%s])" % "; ".join(o(c[1]) for c in t["cases"])
        if k == "option":
            return "(TOption %s)" % coq_ty_o(t["t"], utf16)
        if k == "result":
            return "(TResult %s %s)" % (o(t["ok"]), o(t["err"]))
        if k == "list":
            return "(TList %s)" % coq_ty_o(t["t"], utf16)
        return "(TMap %s %s)" % (coq_ty_o(t["key"], utf16), coq_ty_o(t["value"], utf16))
    return coq_ty(t)


def coq_val(v):
    k = v[0]
    if k == "b":
        return "(VBool %s)" % ("true" if v[1] else "false")
    if k == "n":
        return "(VNum (%d)%%Z)" % v[1]
    if k == "f":
        return "(VFloat %d)" % v[1]
    if k == "s":
        return "(VStr [%s])" % "; ".join(str(x) for x in v[1])
    if k == "l":
        return "(VList [%s])" % "; ".join(coq_val(x) for x in v[1])
    if k == "r":
        return "(VRec [%s])" % "; ".join(coq_val(x) for x in v[1])
    if k == "v":
        return "(VVar %d %s)" % (v[1], "(Some %s)" % coq_val(v[2]) if v[2] is not None else "None")
    if k == "F":
        return "(VFlags [%s])" % "; ".join("true" if b else "false" for b in v[1])
    raise AssertionError(k)


def check_ownership_model(units, tag, limit=120):
    """Core/COwnership.v [owned 8 t v] (evaluated by coqc) against the oracle's `allocs` for the same value, and
    [release 8 (fun _ => true) t v] as a multiset against the same list.  -> (n, [mismatches])"""
    cases = []
    for u in units:
        if u.status != "ran":
            continue
        for c in u.calls:
            if getattr(c, "allocs_reply", None) is None or len(cases) >= limit:
                continue
            fn = c.fn
            t, v = (fn.params_tuple_ty(), c.args_v) if fn.dir == "export" else (fn.result, c.ret_v)
            if any(s["k"] in ("fixed", "errctx") for s in subtypes(t)):
                continue
            if not c.allocs_reply.strip():
                if len(cases) % 4:
                    continue
            cases.append((coq_ty_o(t, u.utf16), coq_val(v), c.allocs_reply.split(), u.key() + " " + fn.label()))
    if not cases:
        return 0, []
    d = os.path.join(OUT_ROOT, tag)
    os.makedirs(d, exist_ok=True)
    f = os.path.join(d, "OwnTie.v")
    with open(f, "w") as fh:
        fh.write("From Coq Require Import List NArith ZArith.\nFrom WB Require Import Wit.Ty Canon.Spec Core.COwnership.\nImport ListNotations.\nLocal Open Scope N_scope.\n")
        for i, (t, v, _, _) in enumerate(cases):
            fh.write("Definition t%d : ty := %s.\nDefinition v%d : val := %s.\n" % (i, t, i, v))
            fh.write('Goal True. idtac "@@ %d". Abort.\nEval vm_compute in (owned 8 t%d v%d, release 8 (fun _ => true) t%d v%d).\n' % (i, i, i, i, i))
    rc, out = vf.sh(["coqc", "-Q", os.path.join(vf.COQ, "theories"), "WB", f], cwd=d, timeout=900)
    if rc != 0:
        return 0, ["coqc failed on the ownership tie file: " + out[-800:]]
    bad = []
    chunks = re.split(r"@@ (\d+)", out)
    got = {}
    for j in range(1, len(chunks) - 1, 2):
        body = chunks[j + 1]
        m = re.search(r"=\s*\((.*)\)\s*:\s*list", body, re.S)
        txt = m.group(1) if m else body
        # split the pair "([..], [..])" at the top-level comma between the two lists
        depth, cut = 0, None
        for pos, ch in enumerate(txt):
            if ch == "[":
                depth += 1
            elif ch == "]":
                depth -= 1
                if depth == 0 and cut is None:
                    cut = pos + 1
        a, b = txt[:cut], txt[cut:]
        pa = [(int(x), int(y)) for x, y in re.findall(r"\(\s*(\d+),\s*(\d+)\s*\)", a)]
        pb = [(int(x), int(y)) for x, y in re.findall(r"\(\s*(\d+),\s*(\d+)\s*\)", b)]
        got[int(chunks[j])] = (pa, pb)
    for i, (t, v, allocs, where) in enumerate(cases):
        exp = [tuple(int(x) for x in a.split(":")) for a in allocs]
        if i not in got:
            bad.append("%s: no model output" % where)
            continue
        own, rel = got[i]
        if own != exp:
            bad.append("%s: Spec allocs %s, COwnership.owned %s" % (where, exp, own))
        elif sorted(rel) != sorted(exp):
            bad.append("%s: Spec allocs %s, COwnership.release %s" % (where, exp, rel))
    return len(cases), bad
