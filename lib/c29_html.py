"""C29 scrapers — TRUSTED GLUE, kept deliberately simple.

html_tokens(html)    anchor-relevant tokens of an HTML text in document order, for the Coq-verified checker
                     Valid/HtmlLinks.check:  ("A", href or None, [ids])  for every <a ...> start tag (ids = values of
                     its id= and name= attributes), ("/",) for every </a>, ("I", id) for an id= on any other element.
                     Tags are recognised by a regular expression over the raw text; HTML comments are skipped;
                     attribute values are entity-unescaped (html.unescape).  Text content needs no care: the
                     renderer escapes '<' in text and code.
doc_blocks(wit)      the doc comments of a WIT text: consecutive `///` lines -> (kind of the documented item, its
                     name, [text after the slashes, stripped of surrounding whitespace]) with leading/trailing blank
                     lines of the comment dropped.
authored_targets(..) link targets "#x" that the doc-comment authors wrote themselves (markdown `](#x)` or
                     raw `href="#x"`), which the generator passes through verbatim.
doc_present(..)      THE doc-text statement: the comment's lines occur as CONSECUTIVE lines of the generated .md file,
                     each equal to the comment line up to surrounding whitespace; the first one may be preceded by the
                     generator's own `<p>` marker (used for field/case/alias docs)."""
import re, html as _html

_TAG = re.compile(r"<!--.*?-->|<(/?)([A-Za-z][A-Za-z0-9]*)((?:\s+[^<>]*?)?)\s*/?>", re.S)
_ATTR = re.compile(r"""([A-Za-z_:][-A-Za-z0-9_:.]*)\s*=\s*(?:"([^"]*)"|'([^']*)'|([^\s"'=<>`]+))""")


def html_tokens(text):
    toks = []
    for m in _TAG.finditer(text):
        if m.group(0).startswith("<!--"):
            continue
        close, name, attrs = m.group(1), m.group(2).lower(), m.group(3) or ""
        if close:
            if name == "a":
                toks.append(("/",))
            continue
        href, ids = None, []
        for a in _ATTR.finditer(attrs):
            k = a.group(1).lower()
            v = _html.unescape(a.group(2) if a.group(2) is not None else a.group(3) if a.group(3) is not None else a.group(4))
            if k == "href" and href is None:
                href = v
            elif k in ("id", "name"):
                ids.append(v)
        if name == "a":
            toks.append(("A", href, ids))
        else:
            for i in ids:
                toks.append(("I", i))
    return toks


def encode(tokens, authored):
    ts = []
    for t in tokens:
        if t[0] == "A":
            ts.append("\x1c".join(["A", "1" if t[1] is not None else "0", t[1] or ""] + list(t[2])))
        elif t[0] == "/":
            ts.append("/")
        else:
            ts.append("I\x1c" + t[1])
    return "\x1d".join(sorted(authored)) + "\x1e" + "\x1d".join(ts)


def decode_errors(line):
    if line == "OK":
        return []
    return [tuple(e.split("|", 1)) for e in line.split("\x1e")]


def nested_pairs(tokens):
    """classification help only: (outer href, inner href, prior) for every <a href> start tag inside an open <a href>;
    prior = another <a href> element was already opened (and closed) inside that same outer element before
    (the autolink-inside-link situation in which the generator's boolean has been cleared)."""
    stack, out = [], []          # stack entries: [href or None, number of <a href> children so far]
    for t in tokens:
        if t[0] == "A":
            if t[1] is not None:
                outer = next((e for e in reversed(stack) if e[0] is not None), None)
                if outer is not None:
                    out.append((outer[0], t[1], outer[1] > 0))
                    outer[1] += 1
            stack.append([t[1], 0])
        elif t[0] == "/":
            if stack:
                stack.pop()
    return out


def nested_pairs_idx(tokens):
    """like nested_pairs, plus the document-order index (among all <a href> start tags) of the OUTER link, so that
    two links with the same href but written differently (reference link + autolink to the same URL) are told apart"""
    stack, out, n = [], [], 0     # stack entries: [href or None, children so far, index among <a href> tags]
    for t in tokens:
        if t[0] == "A":
            idx = None
            if t[1] is not None:
                idx = n
                n += 1
                outer = next((e for e in reversed(stack) if e[0] is not None), None)
                if outer is not None:
                    out.append((outer[0], t[1], outer[1] > 0, outer[2]))
                    outer[1] += 1
            stack.append([t[1], 0, idx])
        elif t[0] == "/":
            if stack:
                stack.pop()
    return out


def href_order(tokens):
    """hrefs of the <a href> start tags in document order"""
    return [t[1] for t in tokens if t[0] == "A" and t[1] is not None]


_DOC = re.compile(r"^(\s*)///(.*)$")
_TYPEKW = ("record ", "variant ", "enum ", "flags ", "resource ", "type ")


def _item(line):
    s = line.strip()
    for kw in ("interface ", "world "):
        if s.startswith(kw):
            return kw.strip(), s[len(kw):].split("{")[0].strip().lstrip("%")
    for kw in _TYPEKW:
        if s.startswith(kw):
            return "type", re.split(r"[ {;=]", s[len(kw):].strip())[0].lstrip("%")
    m = re.match(r"(?:(?:import|export)\s+)?(%?[A-Za-z][A-Za-z0-9-]*)\s*:\s*(?:static\s+)?(?:async\s+)?func\b", s)
    if m:
        return "func", m.group(1).lstrip("%")
    if s.startswith("constructor("):
        return "func", "constructor"
    m = re.match(r"(%?[A-Za-z][A-Za-z0-9-]*)", s)
    return "field", (m.group(1).lstrip("%") if m else s[:20])


def doc_blocks(wit, with_owner=False):
    """with_owner: 4-tuples (kind, name, lines, owner) where owner = name of the enclosing top-level
    `interface` block (column 0 ... closing `}` at column 0) or None."""
    lines = wit.split("\n")
    out, i, owner = [], 0, None
    while i < len(lines):
        m = _DOC.match(lines[i])
        if not m:
            l = lines[i]
            mo = re.match(r"interface\s+%?([A-Za-z][A-Za-z0-9-]*)\s*\{", l)
            if mo and not l.rstrip().endswith("}"):
                owner = mo.group(1)
            elif l.startswith("}"):
                owner = None
            i += 1
            continue
        blk = []
        while i < len(lines) and _DOC.match(lines[i]):
            blk.append(_DOC.match(lines[i]).group(2).strip())
            i += 1
        while blk and blk[0] == "":
            blk.pop(0)
        while blk and blk[-1] == "":
            blk.pop()
        j = i
        while j < len(lines) and lines[j].strip() == "":
            j += 1
        kind, name = _item(lines[j]) if j < len(lines) else ("eof", "")
        if j >= len(lines) or lines[j].strip().startswith("}"):
            continue                                   # a doc comment that documents nothing (wit-parser drops it)
        if blk:
            out.append((kind, name, blk, name if (kind == "interface" and owner is None) else owner) if with_owner else (kind, name, blk))
    return out


def authored_targets(wit):
    t = set()
    for _, _, blk in doc_blocks(wit):
        for l in blk:
            t.update(re.findall(r"\]\(#([^)\s]*)\)", l))
            t.update(re.findall(r"""href\s*=\s*["']#([^"']*)["']""", l))
    return t


def authored_hrefs(wit):
    """every link destination written by a doc-comment author: markdown `](dest ...)`, autolinks `<scheme:...>`,
    raw `href="dest"` (used only to ATTRIBUTE a nesting to its author, never to excuse a generated link)"""
    t = set()
    for _, _, blk in doc_blocks(wit):
        for l in blk:
            for d in re.findall(r"\]\(\s*(<[^>]*>|[^)\s]*)", l):
                t.add(d[1:-1] if d.startswith("<") else d)
            t.update(re.findall(r"<([A-Za-z][A-Za-z0-9+.-]*:[^\s<>]*)>", l))
            t.update(re.findall(r"""href\s*=\s*["']([^"']*)["']""", l))
    return t | refdef_hrefs(wit)


def raw_html_hrefs(wit):
    t = set()
    for _, _, blk in doc_blocks(wit):
        for l in blk:
            t.update(re.findall(r"""href\s*=\s*["']([^"']*)["']""", l))
    return t


def refdef_hrefs(wit):
    """destinations of markdown reference definitions `[label]: dest` written in doc comments"""
    t = set()
    for _, _, blk in doc_blocks(wit):
        for l in blk:
            m = re.match(r"\[[^\]]+\]:\s*(<[^>]*>|\S+)", l)
            if m:
                d = m.group(1)
                t.add(d[1:-1] if d.startswith("<") else d)
    return t


def docs_have_raw_close(wit):
    return any("</a>" in l.lower() for _, _, blk in doc_blocks(wit) for l in blk)


def doc_present(md_lines_stripped, blk):
    n = len(blk)
    first = (blk[0], "<p>" + blk[0])
    for j in range(len(md_lines_stripped) - n + 1):
        if md_lines_stripped[j] in first and all(md_lines_stripped[j + k] == blk[k] for k in range(1, n)):
            return True
    return False
