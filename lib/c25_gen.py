"""C25: seeded generator of call sequences for wit_bindgen_core::Source, the line-protocol codec, and the
property's own statements (pure text predicates, independent of the Coq model) used by the search leg."""

# ------------------------------------------------------------------------------------------ codec
_ENC = {"\n": "\\n", "\r": "\\r", "\t": "\\t", " ": "\\s", "\\": "\\\\", ",": "\\c", "|": "\\p"}
_DEC = {"n": "\n", "r": "\r", "t": "\t", "s": " ", "\\": "\\", "c": ",", "p": "|"}


def enc(s):
    out = []
    for ch in s:
        if ch in _ENC:
            out.append(_ENC[ch])
        elif ord(ch) < 0x21 or ord(ch) > 0x7e:
            out.append("\\x%02x" % ord(ch))
        else:
            out.append(ch)
    return "".join(out)


def dec(s):
    out, i = [], 0
    while i < len(s):
        if s[i] == "\\":
            c = s[i + 1]
            if c == "x":
                out.append(chr(int(s[i + 2:i + 4], 16))); i += 4
            else:
                out.append(_DEC[c]); i += 2
        else:
            out.append(s[i]); i += 1
    return "".join(out)


def parse_case(line):
    """-> list of ops; op = (kind, arg) with kind in p l w W i d s q a; arg: str | [str] | int | [ops]"""
    ops = []
    for tok in line.split(" "):
        if not tok:
            continue
        ops.append(parse_op(tok))
    return ops


def parse_op(tok):
    k, arg = tok.split(":", 1)
    if k == "a":
        return ("a", [parse_op(t) for t in arg.split(",") if t])
    if k in ("p", "l", "W"):
        return (k, dec(arg))
    if k == "w":
        return (k, [dec(x) for x in arg.split("|")])
    if k in ("i", "d", "s"):
        return (k, int(arg))
    if k == "q":
        return (k, None)
    raise ValueError(tok)


def show_op(op):
    k, a = op
    if k == "a":
        return "a:" + ",".join(show_op(o) for o in a)
    if k in ("p", "l", "W"):
        return k + ":" + enc(a)
    if k == "w":
        return k + ":" + "|".join(enc(x) for x in a)
    if k in ("i", "d", "s"):
        return "%s:%d" % (k, a)
    return "q:"


def show_case(ops):
    return " ".join(show_op(o) for o in ops)


def parse_out(line):
    """real/model output line -> None (panic) or (buffer text, [ints])"""
    if line == "PANIC" or line.startswith("MODEL-EXN"):
        return None
    b, o = line.rsplit(" ", 1)
    return dec(b), ([] if o == "-" else [int(x) for x in o.split(",")])


def text_events(ops):
    """Flatten to a list of ('t', text, literal?) and ('i'|'d'|'s', n) events in call order (no append)."""
    ev = []
    for k, a in ops:
        if k == "p":
            ev.append(("t", a, False))
        elif k == "l":
            ev.append(("t", a, True))
        elif k == "w":
            for x in a:
                ev.append(("t", x, False))
        elif k == "W":
            ev.append(("t", a, False)); ev.append(("t", "\n", False))
        elif k in ("i", "d", "s"):
            ev.append((k, a))
        elif k == "a":
            raise ValueError("append")
    return ev


def concat_text(ops):
    out = []
    for k, a in ops:
        if k == "a":
            out.append(concat_text(a))
        elif k in ("p", "l"):
            out.append(a)
        elif k == "w":
            out.extend(a)
        elif k == "W":
            out.append(a + "\n")
    return "".join(out)


# ------------------------------------------------------------------------------------------ the statements
WS = "\t\n\x0b\x0c\r "


def lstrip_ws(s):
    return s.lstrip(WS)


def norm_lines(t):
    return [lstrip_ws(l) for l in t.split("\n")]


def text_preserved(ops, buf):
    """'the buffer holds exactly the appended text with only the whitespace at the start of lines changed'"""
    return norm_lines(buf) == norm_lines(concat_text(ops))


def spec_indent(ops):
    """Declarative reading of 'each line's indentation follows the nesting of braces that open at line ends and
    close at line starts outside line comments' on the concatenated text.  Returns (list per input line of
    expected depth or None when the line is blank / mixes literal and interpreted text, reason or None).
    reason != None: the spec has no defined answer (depth underflow)."""
    # lines of the concatenated text with per-line flags and the depth adjustments that precede the line start
    lines = [[]]          # list of list of (char, literal?)
    adj = [[]]            # adj[k] = adjustments seen while line k is current (apply to lines after k... see below)
    for e in text_events(ops):
        if e[0] == "t":
            for ch in e[1]:
                if ch == "\n":
                    lines.append([]); adj.append([])
                else:
                    lines[-1].append((ch, e[2]))
        else:
            adj[-1].append((e[0], e[1], len(lines[-1]) == 0))
    depth = 0
    exp = []
    for k, ln in enumerate(lines):
        # adjustments made before any character of this line was appended act on this line; later ones on the next
        pre = [a for a in adj[k] if a[2]]
        post = [a for a in adj[k] if not a[2]]
        for kind, n, _ in pre:
            if kind == "i": depth += n
            elif kind == "d":
                if n > depth: return exp, "deindent-underflow"
                depth -= n
            else: depth = n
        s = "".join(c for c, _ in ln)
        t = s.strip(WS)
        lit = [f for _, f in ln]
        if t == "":
            exp.append(None)
        elif all(lit):
            exp.append(depth)
        elif any(lit):
            exp.append(None)
            # mixed line: brace events are those of the interpreted part only; no defined expectation -> treat as opaque
            return exp, "mixed-literal-line"
        else:
            comment = t.startswith("//")
            closes = (not comment) and t.startswith("}")
            opens = (not comment) and t.endswith("{")
            if closes:
                if depth == 0: return exp, "brace-underflow"
                depth -= 1
            exp.append(depth)
            if opens: depth += 1
        for kind, n, _ in post:
            if kind == "i": depth += n
            elif kind == "d":
                if n > depth: return exp, "deindent-underflow"
                depth -= n
            else: depth = n
    return exp, None


def indent_follows_braces(ops, buf):
    """None if holds / not applicable, else (line index, expected depth, actual leading white space)."""
    exp, why = spec_indent(ops)
    out = buf.split("\n")
    for k, d in enumerate(exp):
        if d is None or k >= len(out):
            continue
        lead = out[k][:len(out[k]) - len(lstrip_ws(out[k]))]
        if lead != "  " * d:
            return (k, d, lead)
    return None


def char_balanced(t):
    d = 0
    for ch in t:
        if ch == "{": d += 1
        elif ch == "}":
            d -= 1
            if d < 0: return False
    return d == 0


def mask_literals(ops):
    """same call sequence with every '{', '}', '/' inside literal fragments replaced by 'x'"""
    tr = str.maketrans("{}/", "xxx")
    out = []
    for k, a in ops:
        if k == "l":
            out.append((k, a.translate(tr)))
        elif k == "a":
            out.append((k, mask_literals(a)))
        else:
            out.append((k, a))
    return out


def literal_transparent(o1, o2):
    """o1 = real result of ops, o2 = real result of mask_literals(ops)."""
    if o1 is None or o2 is None:
        return o1 is None and o2 is None
    (b1, q1), (b2, q2) = o1, o2
    if q1 != q2 or len(b1) != len(b2):
        return False
    return all(x == y or (x in "{}/" and y == "x") for x, y in zip(b1, b2))


# ------------------------------------------------------------------------------------------ generator
WORDS = ["x", "y;", "foo()", "a = b;", "if c", "else", "fn f()", "let v =", "return", "match e", "1,", "}", "{", "{", "}",
         "} else {", "};", "})", "({", "{}", "//", "// c", "/// doc {", "// }", "/", "\"{\"", "=> {", "},", "x // t {", "struct S"]
SEPS = [" ", " ", " ", "", "  ", "   ", "\t"]


def gen_line(rng, ws_lead=True):
    n = rng.weighted([(0, 2), (1, 6), (2, 6), (3, 4), (4, 2)])
    parts = []
    if ws_lead and rng.chance(1, 4):
        parts.append(rng.choice(["  ", " ", "    ", "\t", "        "]))
    for i in range(n):
        if i:
            parts.append(rng.choice(SEPS))
        parts.append(rng.choice(WORDS))
    if rng.chance(1, 8):
        parts.append(rng.choice([" ", "  ", "\t"]))
    return "".join(parts)


def gen_block_lines(rng, depth=0, budget=6):
    """structured, mostly valid code: properly nested blocks, one statement per line"""
    out = []
    n = rng.range(1, 3)
    for _ in range(n):
        k = rng.below(10)
        if k < 4 or budget <= 0:
            out.append(rng.choice(["x;", "let a = 1;", "foo(a, b);", "// note", "/// doc", "", "return a;", "a { b }", "// {", "// }"]))
        elif k < 8:
            out.append(rng.choice(["if c {", "fn f() {", "match e {", "{", "loop {", "impl T for U {"]))
            out.extend(gen_block_lines(rng, depth + 1, budget - 2))
            if rng.chance(1, 4):
                out.append("} else {")
                out.extend(gen_block_lines(rng, depth + 1, budget - 3))
            out.append(rng.choice(["}", "}", "};", "})", "},"]))
        elif k == 8:
            out.append("x = {"); out.append("1,"); out.append("};")
        else:
            out.append("")
    return out


def split_random(rng, text, maxparts=6):
    if not text:
        return [text]
    k = rng.range(0, min(maxparts - 1, len(text) - 1))
    cuts = sorted({rng.range(1, len(text) - 1) for _ in range(k)}) if len(text) > 1 else []
    parts, prev = [], 0
    for c in cuts:
        parts.append(text[prev:c]); prev = c
    parts.append(text[prev:])
    return parts


def split_lines_random(rng, lines, indent_src=False):
    """split a list of lines into fragments at line boundaries (whole-line fragments)"""
    frags, cur = [], []
    for l in lines:
        cur.append(((rng.choice(["", "  ", "    ", "\t"]) if indent_src and rng.chance(1, 3) else "") + l))
        if rng.chance(1, 2):
            frags.append(cur); cur = []
    if cur:
        frags.append(cur)
    return ["\n".join(f) + "\n" for f in frags]


def text_op(rng, f, lit_p=8):
    k = rng.below(100)
    if k < lit_p:
        return ("l", f)
    if k < lit_p + 8:
        return ("w", split_random(rng, f, 3)) if "|" not in f else ("p", f)
    if k < lit_p + 12 and "\n" not in f:
        return ("W", f)
    return ("p", f)


MAL = ["\r", "\r\n", "\x0b", "\x0c", "\t", "\x00", "\x7f", "\x1b", "a\r", "\r\r\n", "|", ",", "\\", ":"]


def gen_ops(rng, mode, allow_append=True):
    """mode: 'aligned' (whole-line fragments of structured code), 'pieces' (structured code cut anywhere),
    'free' (random tokens, any shape), 'malformed' (CR, VT/FF, control characters, protocol metacharacters)."""
    ops = []
    explicit = 0

    def misc():
        nonlocal explicit
        k = rng.below(10)
        if k < 3:
            n = rng.range(0, 3); explicit += n; return ("i", n)
        if k < 6:
            n = rng.range(0, max(0, explicit)) if rng.chance(9, 10) else rng.range(0, 4)
            explicit = max(0, explicit - n); return ("d", n)
        if k < 7:
            return ("s", rng.range(0, 4))
        return ("q", None)

    if mode == "aligned":
        lines = gen_block_lines(rng)
        for f in split_lines_random(rng, lines, indent_src=rng.chance(1, 2)):
            ops.append(text_op(rng, f))
            if rng.chance(1, 6):
                ops.append(misc())
    elif mode == "pieces":
        lines = gen_block_lines(rng)
        text = "\n".join(lines) + ("\n" if rng.chance(3, 4) else "")
        for f in split_random(rng, text, rng.range(2, 9)):
            ops.append(text_op(rng, f))
            if rng.chance(1, 8):
                ops.append(misc())
    else:
        n = rng.range(1, 9)
        for _ in range(n):
            k = rng.below(10)
            if k < 7:
                nl = rng.weighted([(1, 6), (2, 3), (3, 1)])
                f = "\n".join(gen_line(rng) for _ in range(nl))
                if rng.chance(1, 2):
                    f += "\n"
                if rng.chance(1, 10):
                    f = rng.choice(["", "\n", "\n\n", " ", "  \n", "}", "{", " }", "  ", "}\n", "{\n"])
                if mode == "malformed":
                    parts = split_random(rng, f, 4)
                    f = "".join(p + (rng.choice(MAL) if rng.chance(1, 2) else "") for p in parts)
                ops.append(text_op(rng, f, lit_p=12))
            elif k < 9:
                ops.append(misc())
            elif allow_append:
                ops.append(("a", [o for o in gen_ops(rng, "free", allow_append=False) if o[0] != "a"][:4]))
    return ops


PROBES = [("q", None), ("s", 2), ("l", "z"), ("p", "{"), ("q", None)]


def gen_case(rng):
    mode = rng.weighted([("aligned", 3), ("pieces", 3), ("free", 5), ("malformed", 1)])
    return mode, gen_ops(rng, mode)


def gen_balanced_case(rng):
    """pre-ops ; q ; push_str(block) ; q   with a character-balanced block (line-structured or not)"""
    pre = gen_ops(rng, rng.choice(["aligned", "free", "pieces"]), allow_append=False)[: rng.range(0, 4)]
    if rng.chance(2, 3):
        pre.append(("p", "\n"))
    kind = rng.weighted([("lines", 3), ("chars", 2)])
    if kind == "lines":
        block = "\n".join(gen_block_lines(rng)) + "\n"
    else:
        toks = []
        d = 0
        for _ in range(rng.range(2, 9)):
            t = rng.choice(["a", "{", "}", "\n", " ", "b;", "{", "}"])
            if t == "}" and d == 0:
                t = "c"
            d += (t == "{") - (t == "}")
            toks.append(t)
        toks.append("}" * d if rng.chance(1, 2) else "\n" + "}\n" * d)
        block = "".join(toks)
    return kind, pre, block
