"""C28: seeded generator of WIT packages full of structurally equal and NEAR-equal types.

A package is built from a pool of abstract *shapes* (record / variant / enum / flags / alias of an anonymous
compound / resource) whose components are primitives, anonymous compounds or references to earlier shapes.
Mutated copies of a shape (renamed field, reordered fields or cases, a primitive changed deep inside, a payload
toggled, a field dropped) are further shapes.  Every interface instantiates a subset of the shapes, each one
either as a local definition (fresh or same type name), as `use other.{t}` / `use other.{t as u}`, or as a local
alias chain `type a = t; type b = a`; so the same shape shows up under different ids, equal-shaped resources are
distinct unless `use`d, and types that look the same textually differ because they mention different resources.
Functions (imports and exports, interface level and world level, resource methods/statics) use the types
directly and wrapped in anonymous compounds, return `result<_, e>` directly and through aliases.

    w = gen_family_world(rng, features)   ->  object with .text, .world, .meta (histogram of what was produced)
"""
PR = ["bool", "u8", "s8", "u16", "s16", "u32", "s32", "u64", "s64", "f32", "f64", "char", "string"]
KEYS = ["u8", "u32", "s64", "char", "string", "bool"]
FN = ["a", "b", "c", "x", "y", "id", "name", "kind", "left", "right", "the-val", "n1", "data"]
TN = ["t", "u", "item", "node", "thing", "my-type", "shape", "e", "rec-a", "info", "v", "w", "err", "payload"]


class FW:
    def __init__(self):
        self.text, self.world, self.meta = "", "", {}


class _G:
    def __init__(self, rng, features):
        self.r = rng
        self.f = set(features)
        self.shapes = []   # list of shape tuples
        self.hist = {}

    def h(self, k, n=1):
        self.hist[k] = self.hist.get(k, 0) + n

    # ---------------------------------------------------------------- abstract shapes
    def comp(self, depth, nshapes, allow_ref=True):
        r = self.r
        ch = [("prim", 6)]
        if allow_ref and nshapes:
            ch.append(("ref", 6))
        if depth > 0:
            ch += [("list", 2), ("opt", 2), ("tup", 2), ("result", 2)]
            if "maps" in self.f:
                ch.append(("map", 1))
            if "fixed" in self.f:
                ch.append(("fixed", 1))
            if "futures" in self.f:
                ch.append(("future", 1))
            if "streams" in self.f:
                ch.append(("stream", 1))
        if "errctx" in self.f:
            ch.append(("errctx", 1))
        k = r.weighted(ch)
        if k == "prim":
            return ("prim", r.choice(PR))
        if k == "errctx":
            return ("prim", "error-context")
        if k == "ref":
            j = r.below(nshapes)
            if self.shapes[j][0] == "res":
                return ("own", j)
            return ("ref", j)
        if k == "list":
            return ("list", self.comp(depth - 1, nshapes))
        if k == "opt":
            return ("opt", self.comp(depth - 1, nshapes))
        if k == "tup":
            return ("tup", [self.comp(depth - 1, nshapes) for _ in range(r.range(1, 3))])
        if k == "result":
            a = self.comp(depth - 1, nshapes) if r.chance(2, 3) else None
            b = self.comp(depth - 1, nshapes) if r.chance(2, 3) else None
            return ("result", a, b)
        if k == "map":
            return ("map", r.choice(KEYS), self.comp(depth - 1, nshapes))
        if k == "fixed":
            return ("fixed", self.comp(depth - 1, nshapes), r.choice([1, 2, 3, 4]))
        if k == "future":
            return ("future", self.comp(depth - 1, nshapes) if r.chance(3, 4) else None)
        if k == "stream":
            return ("stream", self.comp(depth - 1, nshapes) if r.chance(3, 4) else None)
        raise AssertionError(k)

    def names(self, n):
        pool = list(FN)
        out = []
        for _ in range(n):
            x = pool.pop(self.r.below(len(pool)))
            out.append(x)
        return out

    def new_shape(self):
        r = self.r
        n = len(self.shapes)
        ch = [("rec", 5), ("var", 4), ("enum", 2), ("flags", 2), ("alias", 4)]
        if "resources" in self.f:
            ch.append(("res", 2))
        k = r.weighted(ch)
        if k == "rec":
            return ("rec", [(nm, self.comp(2, n)) for nm in self.names(r.range(1, 4))])
        if k == "var":
            return ("var", [(nm, self.comp(2, n) if r.chance(1, 2) else None) for nm in self.names(r.range(1, 4))])
        if k == "enum":
            return ("enum", self.names(r.range(1, 4)))
        if k == "flags":
            return ("flags", self.names(r.range(1, 4)))
        if k == "alias":
            return ("alias", self.comp(3, n))
        return ("res",)

    def mutate_comp(self, c):
        """change something deep inside a component"""
        r = self.r
        k = c[0]
        if k == "prim":
            alt = [p for p in PR if p != c[1]]
            return ("prim", r.choice(alt))
        if k in ("ref", "own"):
            cands = [j for j, s in enumerate(self.shapes) if (s[0] == "res") == (k == "own") and j != c[1]]
            if cands:
                return (k, r.choice(cands))
            return ("prim", "u8")
        if k in ("list", "opt"):
            if r.chance(1, 4):
                return ("opt" if k == "list" else "list", c[1])
            return (k, self.mutate_comp(c[1]))
        if k == "tup":
            xs = list(c[1])
            i = r.below(len(xs))
            if r.chance(1, 4) and len(xs) > 1:
                xs.pop(i)
            else:
                xs[i] = self.mutate_comp(xs[i])
            return ("tup", xs)
        if k == "result":
            a, b = c[1], c[2]
            if a is not None and (b is None or r.chance(1, 2)):
                return ("result", self.mutate_comp(a) if r.chance(2, 3) else None, b)
            if b is not None:
                return ("result", a, self.mutate_comp(b) if r.chance(2, 3) else None)
            return ("result", ("prim", "u8"), None)
        if k == "map":
            if r.chance(1, 3):
                return ("map", r.choice([x for x in KEYS if x != c[1]]), c[2])
            return ("map", c[1], self.mutate_comp(c[2]))
        if k == "fixed":
            if r.chance(1, 3):
                return ("fixed", c[1], c[2] + 1)
            return ("fixed", self.mutate_comp(c[1]), c[2])
        if k in ("future", "stream"):
            if c[1] is None:
                return (k, ("prim", "u8"))
            return (k, self.mutate_comp(c[1]) if r.chance(3, 4) else None)
        return c

    def mutate(self, s):
        r = self.r
        k = s[0]
        if k in ("rec", "var"):
            items = list(s[1])
            m = r.weighted([("rename", 3), ("reorder", 3), ("deep", 4), ("drop", 1), ("payload", 2 if k == "var" else 0)])
            i = r.below(len(items))
            if m == "rename":
                used = {x for x, _ in items}
                new = r.choice([x for x in FN if x not in used])
                items[i] = (new, items[i][1])
            elif m == "reorder" and len(items) > 1:
                j = (i + 1 + r.below(len(items) - 1)) % len(items)
                items[i], items[j] = items[j], items[i]
            elif m == "drop" and len(items) > 1:
                items.pop(i)
            elif m == "payload":
                items[i] = (items[i][0], None if items[i][1] is not None else ("prim", r.choice(PR)))
            else:
                m = "deep"
                if items[i][1] is None:
                    items[i] = (items[i][0], ("prim", r.choice(PR)))
                else:
                    items[i] = (items[i][0], self.mutate_comp(items[i][1]))
            self.h("mut-" + m)
            return (k, items)
        if k in ("enum", "flags"):
            items = list(s[1])
            i = r.below(len(items))
            if r.chance(1, 2) and len(items) > 1:
                j = (i + 1 + r.below(len(items) - 1)) % len(items)
                items[i], items[j] = items[j], items[i]
                self.h("mut-reorder")
            else:
                items[i] = r.choice([x for x in FN if x not in items])
                self.h("mut-rename")
            return (k, items)
        if k == "alias":
            self.h("mut-deep")
            return ("alias", self.mutate_comp(s[1]))
        return s

    # ---------------------------------------------------------------- rendering
    def render_comp(self, c, env):
        k = c[0]
        if k == "prim":
            return c[1]
        if k == "ref":
            return env[c[1]]
        if k == "own":
            return env[c[1]] if self.r.chance(1, 2) else "own<%s>" % env[c[1]]
        if k == "list":
            return "list<%s>" % self.render_comp(c[1], env)
        if k == "opt":
            return "option<%s>" % self.render_comp(c[1], env)
        if k == "tup":
            return "tuple<%s>" % ", ".join(self.render_comp(x, env) for x in c[1])
        if k == "result":
            a, b = c[1], c[2]
            if a is None and b is None:
                return "result"
            if b is None:
                return "result<%s>" % self.render_comp(a, env)
            return "result<%s, %s>" % ("_" if a is None else self.render_comp(a, env), self.render_comp(b, env))
        if k == "map":
            return "map<%s, %s>" % (c[1], self.render_comp(c[2], env))
        if k == "fixed":
            return "list<%s, %d>" % (self.render_comp(c[1], env), c[2])
        if k in ("future", "stream"):
            return k if c[1] is None else "%s<%s>" % (k, self.render_comp(c[1], env))
        raise AssertionError(k)

    def deps(self, c, acc):
        if c is None:
            return
        k = c[0]
        if k in ("ref", "own"):
            acc.add(c[1])
        elif k in ("list", "opt", "future", "stream"):
            self.deps(c[1], acc)
        elif k == "tup":
            for x in c[1]:
                self.deps(x, acc)
        elif k == "result":
            self.deps(c[1], acc)
            self.deps(c[2], acc)
        elif k == "map":
            self.deps(c[2], acc)
        elif k == "fixed":
            self.deps(c[1], acc)

    def shape_deps(self, s):
        acc = set()
        if s[0] in ("rec", "var"):
            for _, c in s[1]:
                self.deps(c, acc)
        elif s[0] == "alias":
            self.deps(s[1], acc)
        return acc

    def fresh(self, used, base=None):
        r = self.r
        for _ in range(100):
            n = base or r.choice(TN)
            if n in used or base is None and r.chance(1, 2):
                n = (base or r.choice(TN)) + "-v" + str(r.below(10))
            if n not in used:
                used.add(n)
                return n
        i = 0
        while "z%d" % i in used:
            i += 1
        used.add("z%d" % i)
        return "z%d" % i

    def world(self):
        r = self.r
        nbase = r.range(2, 5)
        for _ in range(nbase):
            self.shapes.append(self.new_shape())
        for _ in range(r.range(1, 5)):
            j = r.below(len(self.shapes))
            if self.shapes[j][0] == "res":
                self.shapes.append(("res",))     # a second resource of the same (empty) shape
                self.h("mut-resource-copy")
            else:
                self.shapes.append(self.mutate(self.shapes[j]))
        # occasionally shapes that refer to the mutated ones
        for _ in range(r.range(0, 3)):
            self.shapes.append(self.new_shape())
        out = ["package t:eqv;\n\n"]
        ifaces = []     # {name, env: shape idx -> local name, names: set, resources: set of local names, funcs}
        top = set()
        nif = r.range(2, 4)
        # "independent copies" mode: no `use` at all, one chosen shape (and its dependencies) defined locally in
        # EVERY interface, 3..5 interfaces => three or more independently defined structurally equal types
        indep = r.chance(1, 3)
        forced = None
        if indep:
            nif = r.range(3, 5)
            cands = [j for j, s in enumerate(self.shapes) if s[0] != "res"]
            forced = r.choice(cands) if cands else None
            self.h("independent-copies-world")
        for ii in range(nif):
            iname = self.fresh(top, "i%d" % ii)
            used = set()
            env = {}
            body = []
            uses = {}   # src iface name -> [clauses]
            resources = {}
            want = [j for j in range(len(self.shapes)) if r.chance(1, 2)]
            if not want:
                want = [r.below(len(self.shapes))]
            if forced is not None and forced not in want:
                want.append(forced)
            # dependency closure, in index order (dependencies have smaller indices)
            need = set(want)
            changed = True
            while changed:
                changed = False
                for j in list(need):
                    for d in self.shape_deps(self.shapes[j]):
                        if d not in need:
                            need.add(d)
                            changed = True
            defs = []
            for j in sorted(need):
                s = self.shapes[j]
                srcs = [x for x in ifaces if j in x["env"]]
                if srcs and not indep and r.chance(1, 2):
                    src = r.choice(srcs)
                    sn = src["env"][j]
                    if sn not in used and r.chance(2, 3):
                        used.add(sn)
                        uses.setdefault(src["name"], []).append(sn)
                        env[j] = sn
                        self.h("use")
                    else:
                        ln = self.fresh(used)
                        uses.setdefault(src["name"], []).append("%s as %s" % (sn, ln))
                        env[j] = ln
                        self.h("use-as")
                    if s[0] == "res":
                        resources[env[j]] = True
                else:
                    # same type name as elsewhere when possible (equal names in different interfaces)
                    base = None
                    if srcs and r.chance(1, 2):
                        base = srcs[0]["env"][j]
                    ln = self.fresh(used, base)
                    env[j] = ln
                    k = s[0]
                    self.h("def-" + k)
                    if k == "rec":
                        defs.append("  record %s {\n%s  }\n" % (ln, "".join("    %s: %s,\n" % (fn, self.render_comp(c, env)) for fn, c in s[1])))
                    elif k == "var":
                        defs.append("  variant %s {\n%s  }\n" % (ln, "".join(
                            "    %s%s,\n" % (cn, "" if c is None else "(%s)" % self.render_comp(c, env)) for cn, c in s[1])))
                    elif k == "enum":
                        defs.append("  enum %s {\n%s  }\n" % (ln, "".join("    %s,\n" % x for x in s[1])))
                    elif k == "flags":
                        defs.append("  flags %s {\n%s  }\n" % (ln, "".join("    %s,\n" % x for x in s[1])))
                    elif k == "alias":
                        defs.append("  type %s = %s;\n" % (ln, self.render_comp(s[1], env)))
                    else:
                        resources[ln] = True
                        items = []
                        if r.chance(1, 2):
                            items.append("    constructor(x: u32);\n")
                        if r.chance(1, 2):
                            items.append("    get: func() -> u32;\n")
                        if r.chance(1, 3):
                            items.append("    make: static func() -> %s;\n" % ln)
                        if r.chance(1, 3):
                            items.append("    cmp: func(other: borrow<%s>) -> bool;\n" % ln)
                        defs.append("  resource %s {\n%s  }\n" % (ln, "".join(items)) if items else "  resource %s;\n" % ln)
                # alias chains on top of an instance
                if r.chance(1, 4):
                    cur = env[j]
                    for _ in range(r.range(1, 3)):
                        an = self.fresh(used)
                        defs.append("  type %s = %s;\n" % (an, cur))
                        cur = an
                        self.h("alias-chain-link")
                    if r.chance(1, 2) and s[0] != "res":
                        env[j] = cur
            for src, cl in uses.items():
                body.append("  use %s.{%s};\n" % (src, ", ".join(cl)))
            body += defs
            # functions
            locs = [(env[j], self.shapes[j][0]) for j in env]
            fused = set()

            def texpr(param, depth=1):
                ch = [("prim", 2), ("named", 8)]
                if depth > 0:
                    ch += [("list", 2), ("opt", 2), ("tup", 2), ("res", 2)]
                k = r.weighted(ch)
                if k == "prim":
                    return r.choice(PR)
                if k == "named":
                    nm, kk = r.choice(locs)
                    if kk == "res" and param and r.chance(1, 2):
                        return "borrow<%s>" % nm
                    return nm
                if k == "list":
                    return "list<%s>" % texpr(param, depth - 1)
                if k == "opt":
                    return "option<%s>" % texpr(param, depth - 1)
                if k == "tup":
                    return "tuple<%s>" % ", ".join(texpr(param, depth - 1) for _ in range(r.range(1, 3)))
                a = texpr(False, depth - 1) if r.chance(2, 3) else "_"
                return "result<%s, %s>" % (a, texpr(False, depth - 1))
            nres_alias = 0
            for _ in range(r.range(1, 4)):
                fn = self.fresh(fused, "f")
                ps = ", ".join("p%d: %s" % (q, texpr(True)) for q in range(r.range(0, 3)))
                m = r.weighted([("none", 2), ("plain", 5), ("result", 4), ("result-alias", 3)])
                if m == "none":
                    body.append("  %s: func(%s);\n" % (fn, ps))
                elif m == "plain":
                    body.append("  %s: func(%s) -> %s;\n" % (fn, ps, texpr(False)))
                elif m == "result":
                    nm = r.choice(locs)[0]
                    body.append("  %s: func(%s) -> result<%s, %s>;\n" % (fn, ps, texpr(False), nm))
                    self.h("fn-result-direct")
                else:
                    # result type behind a name; sometimes behind a second alias (=> the known error-flag class)
                    nm = r.choice(locs)[0]
                    rn = self.fresh(used, "res%d" % nres_alias)
                    nres_alias += 1
                    body.append("  type %s = result<%s, %s>;\n" % (rn, texpr(False, 0), nm))
                    if r.chance(1, 2):
                        rn2 = self.fresh(used, "ares%d" % nres_alias)
                        body.append("  type %s = %s;\n" % (rn2, rn))
                        rn = rn2
                        self.h("fn-result-through-alias")
                    else:
                        self.h("fn-result-named")
                    body.append("  %s: func(%s) -> %s;\n" % (fn, ps, rn))
            out.append("interface %s {\n%s}\n\n" % (iname, "".join(body)))
            ifaces.append({"name": iname, "env": env, "resnames": resources})
        # worlds
        nworlds = 2 if r.chance(1, 4) else 1
        wnames = []
        for wi in range(nworlds):
            wname = self.fresh(top, "w%d" % wi)
            wnames.append(wname)
            wb = []
            some = False
            # order of the import/export statements relative to the definition order (= id order): as defined,
            # fully reversed (live types are then visited in DESCENDING id order), or shuffled
            order = list(ifaces)
            om = r.weighted([("defined", 2), ("reversed", 3), ("shuffled", 2)])
            if om == "reversed":
                order.reverse()
            elif om == "shuffled":
                for q in range(len(order) - 1, 0, -1):
                    z = r.below(q + 1)
                    order[q], order[z] = order[z], order[q]
            self.h("world-order-" + om)
            for it in order:
                m = r.weighted([("import", 3), ("export", 3), ("both", 2), ("skip", 1)])
                if indep and m == "skip":
                    m = "import"
                if om == "reversed" and indep and r.chance(1, 2):
                    m = "import"       # all on the import side: one strictly descending run
                if m in ("import", "both"):
                    wb.append("  import %s;\n" % it["name"])
                    some = True
                if m in ("export", "both"):
                    wb.append("  export %s;\n" % it["name"])
                    some = True
            if not some:
                wb.append("  import %s;\n" % ifaces[0]["name"])
            # world-level use + functions over anonymous compounds
            wused = set()
            wl = []
            src = r.choice(ifaces)
            cands = [(n, self.shapes[j][0]) for j, n in src["env"].items() if self.shapes[j][0] != "res"]
            if cands and r.chance(2, 3):
                picks = []
                for n, kk in cands:
                    if r.chance(1, 2) and n not in wused:
                        if r.chance(1, 3):
                            ln = self.fresh(wused)
                            picks.append("%s as %s" % (n, ln))
                            wl.append(ln)
                        else:
                            wused.add(n)
                            picks.append(n)
                            wl.append(n)
                if picks:
                    wb.append("  use %s.{%s};\n" % (src["name"], ", ".join(picks)))
            for q in range(r.range(0, 3)):
                d = r.choice(["import", "export"])
                fn = self.fresh(wused, "wf%d" % q)

                def wt():
                    k = r.weighted([("prim", 3), ("named", 6 if wl else 0), ("tup", 2), ("list", 2), ("opt", 1)])
                    if k == "prim":
                        return r.choice(PR)
                    if k == "named":
                        return r.choice(wl)
                    if k == "tup":
                        return "tuple<%s>" % ", ".join(r.choice(wl) if wl and r.chance(1, 2) else r.choice(PR) for _ in range(r.range(1, 3)))
                    if k == "list":
                        return "list<%s>" % (r.choice(wl) if wl and r.chance(1, 2) else r.choice(PR))
                    return "option<%s>" % (r.choice(wl) if wl and r.chance(1, 2) else r.choice(PR))
                ps = ", ".join("p%d: %s" % (z, wt()) for z in range(r.range(0, 2)))
                if r.chance(1, 3) and wl:
                    wb.append("  %s %s: func(%s) -> result<%s, %s>;\n" % (d, fn, ps, wt(), r.choice(wl)))
                elif r.chance(1, 2):
                    wb.append("  %s %s: func(%s) -> %s;\n" % (d, fn, ps, wt()))
                else:
                    wb.append("  %s %s: func(%s);\n" % (d, fn, ps))
            out.append("world %s {\n%s}\n\n" % (wname, "".join(wb)))
        w = FW()
        w.text = "".join(out)
        w.world = r.choice(wnames)
        self.h("worlds", nworlds)
        self.h("shapes", len(self.shapes))
        w.meta = {"hist": dict(self.hist), "interfaces": len(ifaces), "worlds": nworlds}
        return w


ALL_FEATURES = ["resources", "futures", "streams", "fixed", "maps", "errctx"]


def gen_family_world(rng, features=None):
    if features is None:
        features = [f for f in ALL_FEATURES if rng.chance(1, 2)]
    return _G(rng, features).world()
