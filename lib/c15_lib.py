"""C15 helpers (work package det-nopanic).

scan_sites(): every place in the generator crates of the CURRENT working tree where a binding whose declared type is
HashMap/HashSet (std, unordered; IndexMap/BTreeMap are ordered and excluded) is ITERATED: `for … in x`, `.iter()`,
`.iter_mut()`, `.keys()`, `.values()`, `.values_mut()`, `.drain()`, `.into_iter()`, `.into_keys()`, `.into_values()`,
`.retain(`, `.extend(x)`-from-a-hash-collection.  A site is named `crate/file:fn:<source line, whitespace removed>` (no line
numbers, so unrelated edits do not move it).  The committed list with the ordering argument of each site is
corpus/C15-sites.txt; a site that is not in it breaks the tie.
"""
import os, re, glob
import vf
import c16_lib as L

CRATES = ["core", "rust", "c", "cpp", "csharp", "go", "d", "moonbit", "markdown"]
ITER_METHODS = ["iter", "iter_mut", "keys", "values", "values_mut", "drain", "into_iter", "into_keys", "into_values", "retain",
                "difference", "symmetric_difference", "intersection", "union"]


def _files(crate):
    base = os.path.join(vf.REPO, "crates", crate, "src")
    out = []
    for d, _, fs in os.walk(base):
        for f in sorted(fs):
            if f.endswith(".rs"):
                out.append(os.path.join(d, f))
    return sorted(out)


def _cfg_test_cut(txt):
    """Drop `#[cfg(test)] mod … { … }` blocks (unit tests are not on the way to output)."""
    while True:
        m = re.search(r"#\[cfg\(test\)\]\s*mod\s+\w+\s*\{", txt)
        if not m:
            return txt
        j = L.match_brace(txt, m.end() - 1)
        txt = txt[:m.start()] + "\n" * txt.count("\n", m.start(), j + 1) + txt[j + 1:]


NOT_HASH_RECEIVERS = {"tuple", "record", "variant", "resolve", "iface", "interface", "world", "func", "ty", "t", "r", "flags", "enum_"}


def hash_fields(txt):
    """Struct fields declared `name: HashMap<…>` / `name: HashSet<…>` (one per line, as rustfmt lays them out)."""
    return set(re.findall(r"^\s*(?:pub(?:\([a-z]+\))?\s+)?([a-z_][a-z0-9_]*)\s*:\s*(?:std::collections::)?Hash(?:Map|Set)\s*<[^;{}\n]*,[ \t]*$", txt, flags=re.M))


def local_is_hash(fn_text, name, fields=()):
    """`name` is a local or a parameter of hash type in this fn (text from the `fn` line up to the site): declared with a
    hash type, built by HashMap/HashSet::new/collect, or taken/cloned out of a hash-typed struct field."""
    n = re.escape(name)
    if fields:
        fa = "|".join(re.escape(f) for f in sorted(fields, key=len, reverse=True))
        if re.search(r"\blet\s+(?:mut\s+)?%s\s*=\s*(?:std::)?mem::(?:take|replace)\(\s*&mut\s+[A-Za-z0-9_.#]*\.(?:%s)\b" % (n, fa), fn_text) or \
           re.search(r"\blet\s+(?:mut\s+)?%s\s*=\s*[A-Za-z0-9_.#]*\.(?:%s)\.clone\(\)" % (n, fa), fn_text):
            return True
    pats = [r"\blet\s+(?:mut\s+)?%s\s*:\s*[^=;]*\bHash(?:Map|Set)\b" % n,
            r"\blet\s+(?:mut\s+)?%s\s*(?::[^=;]*)?=\s*[^;]*?\bHash(?:Map|Set)\s*(?:::<[^;]*?>)?::(?:new|with_capacity|default|from)\b" % n,
            r"\blet\s+(?:mut\s+)?%s\s*(?::[^=;]*)?=[^;]*?collect::<\s*Hash(?:Map|Set)\b" % n,
            r"\b%s\s*:\s*&?\s*(?:'[a-z_]+\s+)?(?:mut\s+)?(?:std::collections::)?Hash(?:Map|Set)\b" % n]
    return any(re.search(p, fn_text, flags=re.S) for p in pats)


def _fn_start(lines, i):
    for k in range(i, -1, -1):
        m = re.match(r"\s*(?:pub(?:\([a-z]+\))?\s+)?(?:async\s+)?(?:unsafe\s+)?fn\s+([A-Za-z0-9_]+)", lines[k])
        if m:
            return k, m.group(1)
    return 0, "?"


def scan_sites():
    """-> (sorted list of site strings, {crate: sorted field names}, number of HashMap/HashSet type mentions)"""
    sites, names_by_crate, ndecl = set(), {}, 0
    ident = r"[a-z_][a-z0-9_]*"
    path = r"(?:(?:r#)?[A-Za-z_][A-Za-z0-9_]*(?:\(\))?\s*\.\s*)*"      # self.r#gen.  /  other.
    meth = "|".join(ITER_METHODS)
    pats = [
        re.compile(r"(?<![A-Za-z0-9_.\]#])(%s)(%s)\s*\.\s*(?:%s)\s*\(" % (path, ident, meth)),
        re.compile(r"\bfor\b[^;{]*?\bin\s+(?:&\s*(?:mut\s+)?)?(%s)(%s)\s*\{" % (path, ident)),
        re.compile(r"\bfor\b[^;{]*?\bin\s+(?:std::)?(?:mem::)?take\(\s*&mut\s+(%s)(%s)\s*\)\s*\{" % (path, ident)),
        re.compile(r"\.\s*extend\s*\(\s*(?:&\s*)?(%s)(%s)\s*(?:\.\s*(?:iter|into_iter|drain|clone)\s*\(\s*\))?\s*\)" % (path, ident)),
    ]
    for crate in CRATES:
        texts, fields = {}, set()
        for p in _files(crate):
            t = _cfg_test_cut(L.strip_rust_comments(open(p).read()))
            texts[p] = t
            fields |= hash_fields(t)
            ndecl += len(re.findall(r"\bHash(?:Map|Set)\b\s*(?:<|::)", t))
        names_by_crate[crate] = sorted(fields)
        for p, t in texts.items():
            rel = os.path.relpath(p, vf.REPO)
            lines = t.split("\n")
            for pat in pats:
                for m in pat.finditer(t):
                    pth, name = m.group(1), m.group(2)
                    ln = t.count("\n", 0, m.start(2))
                    k, fn = _fn_start(lines, ln)
                    if pth.strip():
                        recv = re.sub(r"\(\)|r#|\s", "", pth).rstrip(".").split(".")[-1]
                        if name not in fields or recv in NOT_HASH_RECEIVERS:
                            continue
                    else:
                        if not local_is_hash("\n".join(lines[k:ln + 1]), name, fields):
                            continue
                    text = re.sub(r"\s+", "", lines[ln])[:110]
                    sites.add("%s:%s:%s" % (rel, fn, text))
    return sorted(sites), names_by_crate, ndecl


def read_committed(path=None):
    """corpus/C15-sites.txt: `<site> | <class> | <argument>`; returns {site: (class, argument)}"""
    path = path or os.path.join(vf.ROOT, "corpus", "C15-sites.txt")
    out = {}
    if os.path.exists(path):
        for line in open(path):
            line = line.rstrip("\n")
            if not line.strip() or line.startswith("#"):
                continue
            parts = [x.strip() for x in line.split(" | ")]
            out[parts[0]] = (parts[1] if len(parts) > 1 else "?", parts[2] if len(parts) > 2 else "")
    return out
