"""genrun-rust: the engine shared by C05–C08.

Generated Rust bindings (wit-bindgen-rust as a library, via harness/crates/genlib) are compiled NATIVELY
(x86-64, no wasm engine exists here) into guest crates under build/genrun/<repo-tag>/, and driven by a
"spec host": the Coq canonical-ABI oracle (Canon/Spec.v, extracted, served by build/ocaml/abi_driver at
pw = 8) prepares every argument image and reads every result image.  See DESIGN.md section 5 "C05".

Pieces (all instantiated from templates in harness/genrun_rust/):
  witdump   Rust tool: structural dump (JSON) of a world as the real wit-parser resolves it + Rust identifiers
  rt.rs     native runtime of a guest crate: counting/poisoning allocator, script reader, observation log,
            Conv traits, mock-host import dispatcher, line protocol main loop
  per (world, option set): one module = generated bindings (non-wasm import shims rewritten to call the mock
            host) + a generated guest implementation (walkers that log every received leaf, builders that
            return script-chosen values) + dispatch glue calling the real `extern "C"` export symbols.
"""
import hashlib, json, os, re, shutil, subprocess, sys, time

import vf

TEMPL = os.path.join(vf.HARNESS, "genrun_rust")
PW = 8


def repo_tag():
    return hashlib.sha256(os.path.realpath(vf.REPO).encode()).hexdigest()[:10]


def base_dir():
    d = os.path.join(vf.BUILD, "genrun", repo_tag())
    os.makedirs(d, exist_ok=True)
    return d


def _write_if_different(path, text):
    if os.path.exists(path) and open(path).read() == text:
        return False
    os.makedirs(os.path.dirname(path), exist_ok=True)
    with open(path, "w") as fh:
        fh.write(text)
    return True


def _cargo(cwd, args, target_dir, env=None, timeout=3000, lock="genrun"):
    lockfile = os.path.join(cwd, "Cargo.lock")
    if not os.path.exists(lockfile):
        shutil.copy(os.path.join(vf.REPO, "Cargo.lock"), lockfile)
    cmd = ["cargo"] + args + ["--offline", "--target-dir", target_dir]
    with vf.Lock(lock + "-" + repo_tag()):
        return vf.sh(cmd, cwd=cwd, timeout=timeout, env=env or {})


# ------------------------------------------------------------------------------------------ witdump
def build_witdump():
    d = os.path.join(base_dir(), "tools", "witdump")
    repo = os.path.realpath(vf.REPO)
    toml = """[package]
name = "witdump"
version = "0.0.0"
edition = "2021"
[workspace]
[dependencies]
wit-bindgen-core = { path = "%s/crates/core" }
wit-bindgen-rust = { path = "%s/crates/rust" }
wit-parser = "0.257.0"
heck = "0.5"
anyhow = "1"
[profile.dev]
opt-level = 1
debug = false
""" % (repo, repo)
    _write_if_different(os.path.join(d, "Cargo.toml"), toml)
    _write_if_different(os.path.join(d, "src", "main.rs"), open(os.path.join(TEMPL, "witdump", "src", "main.rs")).read())
    tdir = os.path.join(vf.BUILD, "genrun", "target-tools")   # shared by all repo tags: registry deps compile once
    rc, out = _cargo(d, ["build"], tdir, lock="genrun-tools")
    return rc == 0, os.path.join(tdir, "debug", "witdump"), out


def dump_worlds(exe, worlds):
    """worlds: list of (world_name, wit_text) -> list of dict | ("err", msg)"""
    lines = ["%s\x1e%s" % (w or "", t.replace("\n", "\x1f")) for w, t in worlds]
    outs = vf.run_filter([exe], lines)
    res = []
    for o in outs:
        if o.startswith("err "):
            res.append(("err", o[4:]))
        else:
            res.append(json.loads(o))
    return res


def install_tool(exe, name):
    """the target dir is shared by all repo tags, so keep a per-tag copy of the executable"""
    d = os.path.join(base_dir(), "bin")
    os.makedirs(d, exist_ok=True)
    dst = os.path.join(d, name)
    if not os.path.exists(dst) or open(dst, "rb").read() != open(exe, "rb").read():
        tmp = dst + ".tmp%d" % os.getpid()
        shutil.copy(exe, tmp)
        os.replace(tmp, dst)
    return dst


# ------------------------------------------------------------------------------------------ types
INTS = {"u8": (8, False), "s8": (8, True), "u16": (16, False), "s16": (16, True), "u32": (32, False),
        "s32": (32, True), "u64": (64, False), "s64": (64, True)}
RUST_PRIM = {"bool": "bool", "u8": "u8", "s8": "i8", "u16": "u16", "s16": "i16", "u32": "u32", "s32": "i32",
             "u64": "u64", "s64": "i64", "f32": "f32", "f64": "f64", "char": "char"}
HANDLES = ("own", "borrow", "future", "stream", "errctx")


def sx(t):
    """oracle type syntax (the one harness/crates/absdump prints)"""
    k = t["k"]
    if k in INTS or k in ("bool", "f32", "f64", "char", "string", "errctx", "own", "borrow"):
        return k
    if k == "list":
        return "(list %s)" % sx(t["t"])
    if k == "fixed":
        return "(fixed %s %d)" % (sx(t["t"]), t["n"])
    if k == "map":
        return "(map %s %s)" % (sx(t["key"]), sx(t["val"]))
    if k == "option":
        return "(option %s)" % sx(t["t"])
    if k == "result":
        return "(result %s %s)" % (sx(t["ok"]) if t["ok"] else "_", sx(t["err"]) if t["err"] else "_")
    if k == "tuple":
        return "(tuple %s)" % " ".join(sx(x) for x in t["ts"])
    if k == "record":
        return "(record %s)" % " ".join(sx(f["t"]) for f in t["fields"])
    if k == "variant":
        return "(variant %s)" % " ".join(sx(c["t"]) if c["t"] else "_" for c in t["cases"])
    if k == "enum":
        return "(enum %d)" % len(t["cases"])
    if k == "flags":
        return "(flags %d)" % len(t["flags"])
    if k in ("future", "stream"):
        return "(%s %s)" % (k, sx(t["t"]) if t["t"] else "_")
    raise ValueError("sx: " + k)


def tuple_ty(ts):
    return {"k": "tuple", "ts": list(ts)}


def walk_types(t, f):
    """pre-order visit"""
    f(t)
    k = t["k"]
    for key in ("t", "key", "val", "ok", "err"):
        if isinstance(t.get(key), dict):
            walk_types(t[key], f)
    for x in t.get("ts", []):
        walk_types(x, f)
    for x in t.get("fields", []):
        walk_types(x["t"], f)
    if k == "variant":
        for c in t["cases"]:
            if c["t"]:
                walk_types(c["t"], f)


def kinds_of(t):
    s = set()
    walk_types(t, lambda x: s.add(x["k"]))
    return s


# ------------------------------------------------------------------------------------------ values
# ("b", bool) ("n", int) ("f", bits) ("s", bytes) ("l", [v]) ("r", [v]) ("v", case, payload|None) ("fl", [bool])
STRINGS = ["", "a", "wit", "hello world", "héllo", "日本語", "\U0010ffff", "\x00", "a\nb\t\"c\"", "ÿĀ",
           "x" * 17, "\U0001f980 crab"]


def rand_int(rng, bits, signed):
    lo, hi = (-(1 << (bits - 1)), (1 << (bits - 1)) - 1) if signed else (0, (1 << bits) - 1)
    c = rng.below(8)
    if c == 0:
        return lo
    if c == 1:
        return hi
    if c == 2:
        return 0
    if c == 3:
        return -1 if signed else 1 << (bits - 1)
    if c == 4:
        return rng.range(0, 200) - (100 if signed else 0) if signed else rng.range(0, 200) & hi
    return lo + rng.below(hi - lo + 1)


def rand_float_bits(rng, bits):
    exp, man = (8, 23) if bits == 32 else (11, 52)
    c = rng.below(8)
    allexp = ((1 << exp) - 1) << man
    if c == 0:
        return 0
    if c == 1:
        return 1 << (bits - 1)                           # -0.0
    if c == 2:
        return allexp                                    # +inf
    if c == 3:
        return allexp | (1 << (man - 1))                 # canonical quiet NaN
    if c == 4:
        return allexp | 1 | (rng.below(2) << (bits - 1))  # signalling NaN with payload
    if c == 5:
        return allexp | (1 << (man - 1)) | rng.below(1 << 20) | (rng.below(2) << (bits - 1))  # quiet NaN with payload
    return rng.below(1 << bits)


def rand_char(rng):
    c = rng.below(8)
    if c == 0:
        return 0
    if c == 1:
        return 0xD7FF
    if c == 2:
        return 0xE000
    if c == 3:
        return 0x10FFFF
    if c == 4:
        return rng.range(32, 126)
    x = rng.below(0x110000)
    return 65 if 0xD800 <= x < 0xE000 else x


def rand_len(rng, budget):
    if budget[0] <= 0:
        return 0
    n = rng.weighted([(0, 3), (1, 4), (2, 3), (3, 2), (5, 1), (9, 1)])
    return n


class HandleSource:
    """hands out handle numbers for own/borrow/future/stream/error-context leaves; records them"""
    def __init__(self):
        self.next = 1
        self.made = []

    def fresh(self, kind, t):
        h = self.next
        self.next += 1
        self.made.append((kind, h, t))
        return h


def gen_value(rng, t, budget=None, handles=None):
    """well-typed random value; `budget` = [remaining node allowance] keeps values small"""
    if budget is None:
        budget = [60]
    budget[0] -= 1
    k = t["k"]
    if k == "bool":
        return ("b", rng.chance(1, 2))
    if k in INTS:
        return ("n", rand_int(rng, *INTS[k]))
    if k == "f32":
        return ("f", rand_float_bits(rng, 32))
    if k == "f64":
        return ("f", rand_float_bits(rng, 64))
    if k == "char":
        return ("n", rand_char(rng))
    if k == "string":
        s = rng.choice(STRINGS) if rng.chance(3, 4) else "".join(chr(rng.range(32, 126)) for _ in range(rng.range(1, 12)))
        return ("s", s.encode("utf-8"))
    if k in HANDLES:
        return ("n", handles.fresh(k, t) if handles is not None else rng.range(1, 1000))
    if k == "list":
        return ("l", [gen_value(rng, t["t"], budget, handles) for _ in range(rand_len(rng, budget))])
    if k == "fixed":
        return ("l", [gen_value(rng, t["t"], budget, handles) for _ in range(t["n"])])
    if k == "map":
        out, seen = [], set()
        for _ in range(rand_len(rng, budget)):
            kv = gen_value(rng, t["key"], budget, handles)
            if repr(kv) in seen:
                continue
            seen.add(repr(kv))
            out.append(("r", [kv, gen_value(rng, t["val"], budget, handles)]))
        return ("l", out)
    if k == "option":
        if rng.chance(1, 3) or budget[0] <= 0:
            return ("v", 0, None)
        return ("v", 1, gen_value(rng, t["t"], budget, handles))
    if k == "result":
        i = rng.below(2)
        pt = t["ok"] if i == 0 else t["err"]
        return ("v", i, gen_value(rng, pt, budget, handles) if pt else None)
    if k == "tuple":
        return ("r", [gen_value(rng, x, budget, handles) for x in t["ts"]])
    if k == "record":
        return ("r", [gen_value(rng, f["t"], budget, handles) for f in t["fields"]])
    if k == "variant":
        n = len(t["cases"])
        i = rng.choice([0, n - 1, rng.below(n), rng.below(n)])
        pt = t["cases"][i]["t"]
        return ("v", i, gen_value(rng, pt, budget, handles) if pt else None)
    if k == "enum":
        n = len(t["cases"])
        return ("v", rng.choice([0, n - 1, rng.below(n)]), None)
    if k == "flags":
        n = len(t["flags"])
        c = rng.below(4)
        if c == 0:
            return ("fl", [False] * n)
        if c == 1:
            return ("fl", [True] * n)
        return ("fl", [rng.chance(1, 2) for _ in range(n)])
    raise ValueError("gen_value: " + k)


def show(v):
    """oracle value syntax"""
    k = v[0]
    if k == "b":
        return "true" if v[1] else "false"
    if k == "n":
        return str(v[1])
    if k == "f":
        return "f:%d" % v[1]
    if k == "s":
        return '"%s"' % ",".join(str(b) for b in v[1])
    if k == "l":
        return "[%s]" % " ".join(show(x) for x in v[1])
    if k == "r":
        return "{%s}" % " ".join(show(x) for x in v[1])
    if k == "v":
        return "#%d" % v[1] + ("(%s)" % show(v[2]) if v[2] is not None else "")
    if k == "fl":
        return "<%s>" % "".join("1" if b else "0" for b in v[1])
    raise ValueError(k)


def parse_value(s):
    pos = [0]
    n = len(s)

    def skip():
        while pos[0] < n and s[pos[0]] == " ":
            pos[0] += 1

    def token():
        st = pos[0]
        while pos[0] < n and s[pos[0]] not in " ]})(":
            pos[0] += 1
        return s[st:pos[0]]

    def many(close):
        out = []
        while True:
            skip()
            if s[pos[0]] == close:
                pos[0] += 1
                return out
            out.append(one())

    def one():
        skip()
        c = s[pos[0]]
        if c == "[":
            pos[0] += 1
            return ("l", many("]"))
        if c == "{":
            pos[0] += 1
            return ("r", many("}"))
        if c == '"':
            e = s.index('"', pos[0] + 1)
            body = s[pos[0] + 1:e]
            pos[0] = e + 1
            return ("s", bytes(int(x) for x in body.split(",")) if body else b"")
        if c == "<":
            e = s.index(">", pos[0])
            body = s[pos[0] + 1:e]
            pos[0] = e + 1
            return ("fl", [ch == "1" for ch in body])
        if c == "#":
            pos[0] += 1
            i = int(token())
            if pos[0] < n and s[pos[0]] == "(":
                pos[0] += 1
                v = one()
                skip()
                pos[0] += 1
                return ("v", i, v)
            return ("v", i, None)
        t = token()
        if t == "true":
            return ("b", True)
        if t == "false":
            return ("b", False)
        if t.startswith("f:"):
            return ("f", int(t[2:]))
        return ("n", int(t))
    return one()


M64 = (1 << 64) - 1


def encode(t, v, out=None):
    """value -> script/log words (pre-order)"""
    if out is None:
        out = []
    k = t["k"]
    if k == "bool":
        out.append(1 if v[1] else 0)
    elif k in INTS or k == "char" or k in HANDLES:
        out.append(v[1] & M64)
    elif k in ("f32", "f64"):
        out.append(v[1])
    elif k == "string":
        out.append(len(v[1]))
        out.extend(v[1])
    elif k == "list":
        out.append(len(v[1]))
        for x in v[1]:
            encode(t["t"], x, out)
    elif k == "fixed":
        for x in v[1]:
            encode(t["t"], x, out)
    elif k == "map":
        out.append(len(v[1]))
        for e in v[1]:
            encode(t["key"], e[1][0], out)
            encode(t["val"], e[1][1], out)
    elif k == "option":
        out.append(v[1])
        if v[1] == 1:
            encode(t["t"], v[2], out)
    elif k == "result":
        out.append(v[1])
        pt = t["ok"] if v[1] == 0 else t["err"]
        if pt:
            encode(pt, v[2], out)
    elif k == "tuple":
        for x, tt in zip(v[1], t["ts"]):
            encode(tt, x, out)
    elif k == "record":
        for x, f in zip(v[1], t["fields"]):
            encode(f["t"], x, out)
    elif k == "variant":
        out.append(v[1])
        pt = t["cases"][v[1]]["t"]
        if pt:
            encode(pt, v[2], out)
    elif k == "enum":
        out.append(v[1])
    elif k == "flags":
        bits = sum(1 << i for i, b in enumerate(v[1]) if b)
        out.append(bits & M64)
        if len(v[1]) > 64:
            out.append(bits >> 64)
    else:
        raise ValueError("encode: " + k)
    return out


class DecodeError(Exception):
    """klass: what kind of leaf the log got wrong (used in violation keys)"""
    def __init__(self, msg, klass="log-unparseable"):
        Exception.__init__(self, msg)
        self.klass = klass


def decode(t, words, pos=None):
    """log words -> value; raises DecodeError when the stream does not parse as a value of type t"""
    top = pos is None
    if pos is None:
        pos = [0]

    def nxt():
        if pos[0] >= len(words):
            raise DecodeError("log too short")
        pos[0] += 1
        return words[pos[0] - 1]
    k = t["k"]
    if k == "bool":
        w = nxt()
        if w > 1:
            raise DecodeError("bool %d" % w)
        v = ("b", w == 1)
    elif k in INTS:
        bits, signed = INTS[k]
        w = nxt()
        if signed and w >= 1 << 63:
            w -= 1 << 64
        v = ("n", w)
    elif k == "char" or k in HANDLES:
        v = ("n", nxt())
    elif k in ("f32", "f64"):
        v = ("f", nxt())
    elif k == "string":
        n = nxt()
        if n > len(words):
            raise DecodeError("string length %d" % n)
        v = ("s", bytes(nxt() & 255 for _ in range(n)))
    elif k == "list":
        n = nxt()
        if n > len(words):
            raise DecodeError("list length %d" % n)
        v = ("l", [decode(t["t"], words, pos) for _ in range(n)])
    elif k == "fixed":
        v = ("l", [decode(t["t"], words, pos) for _ in range(t["n"])])
    elif k == "map":
        n = nxt()
        if n > len(words):
            raise DecodeError("map length %d" % n)
        es = []
        for _ in range(n):
            a = decode(t["key"], words, pos)
            b = decode(t["val"], words, pos)
            es.append(("r", [a, b]))
        v = ("l", es)
    elif k == "option":
        i = nxt()
        if i > 1:
            raise DecodeError("option discriminant %d" % i)
        v = ("v", i, decode(t["t"], words, pos) if i == 1 else None)
    elif k == "result":
        i = nxt()
        if i > 1:
            raise DecodeError("result discriminant %d" % i)
        pt = t["ok"] if i == 0 else t["err"]
        v = ("v", i, decode(pt, words, pos) if pt else None)
    elif k == "tuple":
        v = ("r", [decode(x, words, pos) for x in t["ts"]])
    elif k == "record":
        v = ("r", [decode(f["t"], words, pos) for f in t["fields"]])
    elif k == "variant":
        i = nxt()
        if i >= len(t["cases"]):
            raise DecodeError("variant discriminant %d" % i)
        pt = t["cases"][i]["t"]
        v = ("v", i, decode(pt, words, pos) if pt else None)
    elif k == "enum":
        i = nxt()
        if i >= len(t["cases"]):
            raise DecodeError("enum discriminant %d" % i)
        v = ("v", i, None)
    elif k == "flags":
        n = len(t["flags"])
        bits = nxt()
        if n > 64:
            bits |= nxt() << 64
        if bits >> n:
            raise DecodeError("flag bits beyond the %d declared flags: %x" % (n, bits), "flags")
        v = ("fl", [bool((bits >> i) & 1) for i in range(n)])
    else:
        raise DecodeError("decode: " + k)
    if top and pos[0] != len(words):
        raise DecodeError("log has %d extra words" % (len(words) - pos[0]))
    return v


def canon(t, v):
    """canonical form for comparison: map entries sorted by key (a map is unordered)"""
    k = t["k"]
    if k == "map":
        es = [("r", [canon(t["key"], e[1][0]), canon(t["val"], e[1][1])]) for e in v[1]]
        es.sort(key=lambda e: repr(e[1][0]))
        return ("l", es)
    if k in ("list", "fixed"):
        return ("l", [canon(t["t"], x) for x in v[1]])
    if k == "option":
        return ("v", v[1], canon(t["t"], v[2]) if v[1] == 1 else None)
    if k == "result":
        pt = t["ok"] if v[1] == 0 else t["err"]
        return ("v", v[1], canon(pt, v[2]) if pt else None)
    if k == "tuple":
        return ("r", [canon(x, y) for x, y in zip(t["ts"], v[1])])
    if k == "record":
        return ("r", [canon(f["t"], y) for f, y in zip(t["fields"], v[1])])
    if k == "variant":
        pt = t["cases"][v[1]]["t"] if v[1] < len(t["cases"]) else None
        return ("v", v[1], canon(pt, v[2]) if pt else None)
    if k == "s":
        return v
    return (v[0], bytes(v[1])) if v[0] == "s" else v


def count_leaves(v):
    if v[0] in ("l", "r"):
        return 1 + sum(count_leaves(x) for x in v[1])
    if v[0] == "v":
        return 1 + (count_leaves(v[2]) if v[2] is not None else 0)
    return 1


def diff_path(t, a, b):
    """kinds on the path from the root of type t to the first place where values a and b differ (None if equal)"""
    if a == b:
        return None
    k = t["k"]
    if a[0] != b[0]:
        return [k]
    if k in ("list", "fixed", "map"):
        if len(a[1]) != len(b[1]):
            return [k, "#len"]
        et = t["t"] if k != "map" else {"k": "tuple", "ts": [t["key"], t["val"]]}
        for x, y in zip(a[1], b[1]):
            d = diff_path(et, x, y)
            if d:
                return [k] + d
        return [k]
    if k in ("tuple", "record"):
        ts = t["ts"] if k == "tuple" else [f["t"] for f in t["fields"]]
        if len(a[1]) != len(b[1]):
            return [k]
        for tt, x, y in zip(ts, a[1], b[1]):
            d = diff_path(tt, x, y)
            if d:
                return [k] + d
        return [k]
    if k in ("option", "result", "variant"):
        if a[1] != b[1]:
            return [k, "#case"]
        pt = t["t"] if k == "option" else ((t["ok"] if a[1] == 0 else t["err"]) if k == "result" else t["cases"][a[1]]["t"])
        if pt and a[2] is not None and b[2] is not None:
            d = diff_path(pt, a[2], b[2])
            if d:
                return [k] + d
        return [k]
    return [k]


def class_of_path(path):
    """stable class of a mismatch.  Products and sums are transparent.  If the differing place lies inside a heap buffer
    (string bytes, list/map elements or length) the class is the fixed-length-list nesting above the OUTERMOST heap buffer
    followed by `heap` (e.g. `heap`, `fixed/heap`); otherwise the fixed nesting followed by the scalar kind that differs
    (`u8`, `fixed/f32`, `discriminant`)."""
    if not path:
        return "?"
    conts = []
    for k in path[:-1]:
        if k in ("list", "map"):
            return "/".join(conts + ["heap"])
        if k == "fixed":
            conts.append(k)
    leaf = path[-1]
    if leaf in ("#len", "string", "list", "map"):
        # the length of a fixed-length list cannot differ; #len belongs to the list/map/string just above
        return "/".join(conts + ["heap"])
    if leaf == "#case":
        leaf = "discriminant"
    return "/".join(conts + [leaf])


# ------------------------------------------------------------------------------------------ option sets
class OptSet:
    """one configuration of the Rust generator (the quantifier of C05)"""
    def __init__(self, ownership="owning", std_feature=False, merge=False, hashmap=False, raw_strings=False, asyncmode=None):
        self.ownership, self.std_feature, self.merge, self.hashmap, self.raw_strings = ownership, std_feature, merge, hashmap, raw_strings
        self.asyncmode = asyncmode

    def words(self, prefix):
        w = ["--generate-all", "--export-prefix", prefix, "--ownership=" + self.ownership]
        if self.std_feature:
            w.append("--std-feature")
        if self.merge:
            w.append("--merge-structurally-equal-types")
        if self.hashmap:
            w.append("--map-type=std::collections::HashMap")
        if self.raw_strings:
            w.append("--raw-strings")
        if self.asyncmode:
            w += ["--async", self.asyncmode]
        return " ".join(w)

    def tag(self):
        return "%s%s%s%s%s%s" % ("O" if self.ownership == "owning" else "B", "s" if self.std_feature else "-", "m" if self.merge else "-",
                                 "h" if self.hashmap else "-", "r" if self.raw_strings else "-", ("a:" + self.asyncmode) if self.asyncmode else "")

    def as_dict(self):
        return {"ownership": self.ownership, "std_feature": self.std_feature, "merge_structurally_equal_types": self.merge,
                "map_type": "HashMap" if self.hashmap else "BTreeMap", "raw_strings": self.raw_strings, "async": self.asyncmode}

    @staticmethod
    def from_dict(d):
        return OptSet(d["ownership"], d["std_feature"], d["merge_structurally_equal_types"], d["map_type"] == "HashMap", d["raw_strings"], d.get("async"))


def all_optsets():
    out = []
    for own in ("owning", "borrowing"):
        for std in (False, True):
            for merge in (False, True):
                for hm in (False, True):
                    for raw in (False, True):
                        out.append(OptSet(own, std, merge, hm, raw))
    return out


# ------------------------------------------------------------------------------------------ Rust code generation
UNSUPPORTED_KINDS_V1 = {"future", "stream", "errctx", "resource", "unknown"}


class Unsupported(Exception):
    pass


class Cg:
    """Generates the guest side of one (world, option set): implementation of every exported trait (walk the
    received values into the log, build the script-chosen result), callers of every imported function, and the
    dispatch glue that calls the real `extern "C"` export symbols."""

    def __init__(self, dump, opt, prefix, resources=False):
        self.d, self.opt, self.prefix = dump, opt, prefix
        self.B = "bindings"
        self.n = 0
        self.resources = resources

    def fresh(self, p="v"):
        self.n += 1
        return "%s%d" % (p, self.n)

    def path(self, t):
        if t.get("path") is None:
            raise Unsupported("named type %s without a module path" % t.get("wit"))
        return "::".join([self.B] + t["path"] + [t["rust"]])

    def check_supported(self, t):
        def f(x):
            if x["k"] in UNSUPPORTED_KINDS_V1:
                raise Unsupported(x["k"])
            if x["k"] in ("own", "borrow") and not self.resources:
                raise Unsupported(x["k"])
            if x["k"] == "flags" and len(x["flags"]) > 128:
                raise Unsupported("flags>128")
        walk_types(t, f)

    # -- the owned rendering of a type (what exports receive and every function returns)
    def owned(self, t, lt="'_"):
        k = t["k"]
        if k in RUST_PRIM:
            return RUST_PRIM[k]
        if k == "string":
            return "Vec<u8>" if self.opt.raw_strings else "String"
        if k == "list":
            return "Vec<%s>" % self.owned(t["t"], lt)
        if k == "fixed":
            return "[%s; %d]" % (self.owned(t["t"], lt), t["n"])
        if k == "map":
            m = "std::collections::HashMap" if self.opt.hashmap else "wit_bindgen::rt::Map"
            return "%s<%s, %s>" % (m, self.owned(t["key"], lt), self.owned(t["val"], lt))
        if k == "option":
            return "Option<%s>" % self.owned(t["t"], lt)
        if k == "result":
            return "Result<%s, %s>" % (self.owned(t["ok"], lt) if t["ok"] else "()", self.owned(t["err"], lt) if t["err"] else "()")
        if k == "tuple":
            return "(%s,)" % ", ".join(self.owned(x, lt) for x in t["ts"])
        if k in ("record", "variant", "enum", "flags"):
            return self.path(t)
        if k == "own":
            return self.path(t["res"])
        if k == "borrow":
            r = t["res"]
            if r["exported"]:
                return "%sBorrow<%s>" % (self.path(r), lt)
            return "&%s%s" % ("" if lt == "'_" else lt + " ", self.path(r))
        raise Unsupported("owned: " + k)

    # -- walker: statements logging every leaf reachable from the reference expression e
    def walk(self, e, t):
        k = t["k"]
        if k == "bool" or k in ("u8", "u16", "u32", "u64"):
            return "L::w(*(%s) as u64);" % e
        if k in ("s8", "s16", "s32", "s64"):
            return "L::w(*(%s) as i64 as u64);" % e
        if k == "char":
            return "L::w(*(%s) as u32 as u64);" % e
        if k in ("f32", "f64"):
            return "L::w((*(%s)).to_bits() as u64);" % e
        if k == "string":
            return "L::bytes(AsRef::<[u8]>::as_ref(%s));" % e
        if k == "list":
            x = self.fresh("x")
            return "L::w((%s).len() as u64); for %s in (%s).iter() { %s }" % (e, x, e, self.walk(x, t["t"]))
        if k == "fixed":
            x = self.fresh("x")
            return "for %s in (%s).iter() { %s }" % (x, e, self.walk(x, t["t"]))
        if k == "map":
            a, b = self.fresh("k"), self.fresh("x")
            return "L::w((%s).len() as u64); for (%s, %s) in (%s).iter() { %s %s }" % (e, a, b, e, self.walk(a, t["key"]), self.walk(b, t["val"]))
        if k == "option":
            x = self.fresh("x")
            return "match %s { Some(%s) => { L::w(1); %s } None => { L::w(0); } }" % (e, x, self.walk(x, t["t"]))
        if k == "result":
            x, y = self.fresh("x"), self.fresh("x")
            ok = "Ok(%s) => { L::w(0); %s }" % ((x, self.walk(x, t["ok"])) if t["ok"] else ("_", ""))
            er = "Err(%s) => { L::w(1); %s }" % ((y, self.walk(y, t["err"])) if t["err"] else ("_", ""))
            return "match %s { %s %s }" % (e, ok, er)
        if k == "tuple":
            return " ".join(self.walk("&(%s).%d" % (e, i), x) for i, x in enumerate(t["ts"]))
        if k == "record":
            return " ".join(self.walk("&(%s).%s" % (e, f["rust"]), f["t"]) for f in t["fields"])
        if k == "variant":
            p = self.path(t)
            arms = []
            for i, c in enumerate(t["cases"]):
                if c["t"]:
                    x = self.fresh("x")
                    arms.append("%s::%s(%s) => { L::w(%d); %s }" % (p, c["rust"], x, i, self.walk(x, c["t"])))
                else:
                    arms.append("%s::%s => { L::w(%d); }" % (p, c["rust"], i))
            return "match %s { %s }" % (e, " ".join(arms))
        if k == "enum":
            return "L::w(*(%s) as u64);" % e
        if k == "flags":
            if len(t["flags"]) > 64:
                return "L::w((%s).bits() as u64); L::w(((%s).bits() >> 64) as u64);" % (e, e)
            return "L::w((%s).bits() as u64);" % e
        if k in ("own", "borrow"):
            if k == "borrow" and t["res"]["exported"]:
                return "L::w(crate::rt::borrow_rep(%s));" % e
            return "L::w((%s).handle() as u64);" % e
        raise Unsupported("walk: " + k)

    # -- builder: an expression producing the value the script describes, in whatever rendering is expected
    def build(self, t):
        k = t["k"]
        # NB every leaf goes through conv(): a named alias of a primitive (`type b = bool`) inside a top-borrowed
        # tuple/option/result parameter is rendered as `&B` by the generator
        if k == "bool":
            return "conv(S::next() != 0)"
        if k in INTS:
            return "conv(S::next() as %s)" % RUST_PRIM[k]
        if k == "char":
            return "conv(S::ch())"
        if k == "f32":
            return "conv(f32::from_bits(S::next() as u32))"
        if k == "f64":
            return "conv(f64::from_bits(S::next()))"
        if k == "string":
            return "conv_str(S::bytes())"
        if k == "list":
            v = self.fresh()
            return "{ let n = S::next(); let mut %s = Vec::new(); for _ in 0..n { %s.push(%s); } conv(%s) }" % (v, v, self.build(t["t"]), v)
        if k == "fixed":
            return "conv(core::array::from_fn(|_| %s))" % self.build(t["t"])
        if k == "map":
            v = self.fresh()
            return "{ let n = S::next(); let mut %s = Vec::new(); for _ in 0..n { let k = %s; let x = %s; %s.push((k, x)); } conv_map(%s) }" % (
                v, self.build(t["key"]), self.build(t["val"]), v, v)
        if k == "option":
            return "(if S::next() != 0 { Some(%s) } else { None })" % self.build(t["t"])
        if k == "result":
            return "(if S::next() == 0 { Ok(%s) } else { Err(%s) })" % (self.build(t["ok"]) if t["ok"] else "()", self.build(t["err"]) if t["err"] else "()")
        if k == "tuple":
            return "(%s,)" % ", ".join(self.build(x) for x in t["ts"])
        if k == "record":
            return "conv(%s { %s })" % (self.path(t), ", ".join("%s: %s" % (f["rust"], self.build(f["t"])) for f in t["fields"]))
        if k == "variant":
            p = self.path(t)
            arms = ["%d => %s::%s%s," % (i, p, c["rust"], "(%s)" % self.build(c["t"]) if c["t"] else "") for i, c in enumerate(t["cases"])]
            return "conv(match S::next() { %s _ => unreachable!() })" % " ".join(arms)
        if k == "enum":
            p = self.path(t)
            arms = ["%d => %s::%s," % (i, p, c) for i, c in enumerate(t["cases"])]
            return "conv(match S::next() { %s _ => unreachable!() })" % " ".join(arms)
        if k == "flags":
            p = self.path(t)
            if len(t["flags"]) > 64:
                return "conv(%s::from_bits_retain((S::next() as u128) | ((S::next() as u128) << 64)))" % p
            return "conv(%s::from_bits_retain(S::next() as _))" % p
        if k == "own":
            return "unsafe { %s::from_handle(S::next() as u32) }" % self.path(t["res"])
        if k == "borrow":
            return "conv(unsafe { %s::from_handle(S::next() as u32) })" % self.path(t["res"])
        raise Unsupported("build: " + k)


# ------------------------------------------------------------------------------------------ line-protocol subprocesses
class Proc:
    """persistent line-in/line-out child; restart on death"""
    def __init__(self, cmd, env=None, name="proc"):
        self.cmd, self.env, self.name = cmd, env, name
        self.p = None
        self.restarts = 0

    def start(self):
        e = dict(os.environ)
        if self.env:
            e.update(self.env)
        self.p = subprocess.Popen(self.cmd, stdin=subprocess.PIPE, stdout=subprocess.PIPE, stderr=subprocess.PIPE, env=e, bufsize=0)

    def ask(self, line):
        """-> response line, or None if the child died (stderr tail in self.last_err)"""
        if self.p is None or self.p.poll() is not None:
            self.start()
        try:
            self.p.stdin.write((line + "\n").encode())
            self.p.stdin.flush()
            out = self.p.stdout.readline()
        except (BrokenPipeError, OSError):
            out = b""
        if not out:
            try:
                self.p.wait(timeout=5)
            except Exception:
                self.p.kill()
            err = b""
            try:
                err = self.p.stderr.read() or b""
            except Exception:
                pass
            self.last_err = "rc=%s %s" % (self.p.returncode, err.decode(errors="replace")[-1500:])
            self.p = None
            self.restarts += 1
            return None
        return out.decode(errors="replace").rstrip("\n")

    def close(self):
        if self.p is not None and self.p.poll() is None:
            try:
                self.p.stdin.close()
                self.p.wait(timeout=5)
            except Exception:
                self.p.kill()
        self.p = None


LAST_LIFT_FAIL = {}


def heap_shape(t):
    """coarse shape of a type for violation keys: which buffer-carrying constructors it contains"""
    ks = kinds_of(t) & {"string", "list", "map", "fixed"}
    return "+".join(sorted(ks)) or "scalar"


class Oracle:
    """The canonical-ABI oracle (Coq Canon/Spec.v extracted; ocaml/abi_driver.ml `SPEC` service)."""
    def __init__(self, exe):
        self.proc = Proc([exe], name="oracle")
        self.lcache = {}
        self.calls = 0

    def ask(self, *fields):
        self.calls += 1
        r = self.proc.ask("SPEC\x1d" + "\x1d".join(str(f) for f in fields))
        if r is None:
            raise RuntimeError("oracle died: " + self.proc.last_err)
        return r

    def ask_many(self, reqs):
        """pipelined: write all request lines, then read all answers (one wake-up of the oracle instead of len(reqs))"""
        if not reqs:
            return []
        p = self.proc
        if p.p is None or p.p.poll() is not None:
            p.start()
        self.calls += len(reqs)
        data = "".join("SPEC\x1d" + "\x1d".join(str(f) for f in r) + "\n" for r in reqs).encode()
        if len(data) > 48000:      # stay clear of pipe-buffer deadlocks: fall back to one at a time
            return [self.ask(*r) for r in reqs]
        p.p.stdin.write(data)
        p.p.stdin.flush()
        out = []
        for _ in reqs:
            l = p.p.stdout.readline()
            if not l:
                raise RuntimeError("oracle died")
            out.append(l.decode(errors="replace").rstrip("\n"))
        return out

    @staticmethod
    def r_allocs(r):
        if r == "ILL-TYPED":
            raise RuntimeError("oracle: ill-typed value")
        return [tuple(int(x) for x in a.split(":")) for a in r.split()]

    @staticmethod
    def r_lift(r):
        """answer of `SPEC lift` -> value, or None when the oracle cannot lift (TRAP = the encoding is ill-formed per the spec;
        MODEL-EXN/anything unparsable = the oracle itself gave up, e.g. a garbage length of 2^60 elements).  The reason is kept
        per thread for the finding text."""
        import threading
        if r == "TRAP":
            LAST_LIFT_FAIL[threading.get_ident()] = "TRAP"
            return None
        try:
            return parse_value(r)
        except Exception:
            LAST_LIFT_FAIL[threading.get_ident()] = r[:200]
            return None

    def layout(self, t):
        s = sx(t)
        if s not in self.lcache:
            r = self.ask("layout", PW, s)
            m = re.match(r"size=(\d+) align=(\d+) flat=\[(.*)\]", r)
            if not m:
                raise RuntimeError("oracle layout %s -> %s" % (s, r))
            self.lcache[s] = (int(m.group(1)), int(m.group(2)), m.group(3).split())
        return self.lcache[s]

    def allocs(self, t, v, mode):
        r = self.ask("allocs", PW, sx(t), show(v), mode)
        if r == "ILL-TYPED":
            raise RuntimeError("oracle: ill-typed value %s : %s" % (show(v), sx(t)))
        return [tuple(int(x) for x in a.split(":")) for a in r.split()]

    def lower(self, t, v, mode, addr, presets):
        r = self.ask("lower", PW, sx(t), show(v), mode, addr, " ".join(str(p) for p in presets))
        if r == "ILL-TYPED":
            raise RuntimeError("oracle: ill-typed value %s : %s" % (show(v), sx(t)))
        f, w, nx = r.split("|")
        flat = [int(x) for x in f[5:].split()]
        writes = [(int(s.split(":")[0]), s.split(":")[1]) for s in w[7:].split(";") if s]
        return flat, writes, int(nx[5:])

    def lift(self, t, mode, src, segs):
        """-> value or None (trap / oracle failure, see r_lift)"""
        return Oracle.r_lift(self.ask("lift", PW, sx(t), mode, src, segs))

    def close(self):
        self.proc.close()


def build_oracle():
    """ocaml/abi_driver.ml (the shared SPEC service, unchanged) + the extracted Canon/Spec.v, linked against a copy of
    util.ml whose iter_lines flushes after every answer (harness/genrun_rust/oracle/util.ml) -> interactive oracle"""
    ok0, clog = vf.coq_make(["theories/Extract/ExAbi.vo"])
    if not ok0:
        return False, None, clog
    d = os.path.join(vf.BUILD, "ocaml", "genrun_oracle")
    os.makedirs(d, exist_ok=True)
    files = []
    for src in (os.path.join(vf.BUILD, "extracted", "abi_model.mli"), os.path.join(vf.BUILD, "extracted", "abi_model.ml"),
                os.path.join(TEMPL, "oracle", "util.ml"), os.path.join(vf.ROOT, "ocaml", "abi_driver.ml")):
        if not os.path.exists(src):
            return False, None, "missing " + src
        shutil.copy(src, d)
        files.append(os.path.basename(src))
    h = hashlib.sha256()
    for f in files:
        h.update(open(os.path.join(d, f), "rb").read())
    exe, stamp = os.path.join(d, "genrun_oracle"), os.path.join(d, ".stamp")
    if os.path.exists(exe) and os.path.exists(stamp) and open(stamp).read() == h.hexdigest():
        return True, exe, "up to date"
    with vf.Lock("ocaml-genrun_oracle"):
        rc, out = vf.sh(["ocamlfind", "ocamlopt", "-O3", "-w", "-a"] + files + ["-o", "genrun_oracle"], cwd=d, timeout=600)
    if rc == 0:
        open(stamp, "w").write(h.hexdigest())
    return rc == 0, exe, out


# ------------------------------------------------------------------------------------------ generated bindings post-processing
SHIM_RE = re.compile(
    r'#\[cfg\(target_arch = "wasm32"\)\]\s*#\[link\(wasm_import_module = "([^"]*)"\)\]\s*unsafe extern "C" \{\s*'
    r'#\[link_name = "([^"]*)"\]\s*fn (\w+)\(([^)]*)\)((?:\s*->\s*[^;]+)?);\s*\}\s*'
    r'#\[cfg\(not\(target_arch = "wasm32"\)\)\]\s*unsafe extern "C" fn (\w+)\(([^)]*)\)((?:\s*->\s*[^{]+)?)\s*\{ unreachable!\(\) \}')


def rewrite_shims(src):
    """Replace every generated non-wasm import shim `{ unreachable!() }` by a call of the mock host
    (crate::rt::host_import).  Returns (new source, [(wasm module, wasm name, [param types], ret type)])."""
    found = []

    def repl(m):
        mod, name, fn, params, ret = m.group(1), m.group(2), m.group(3), m.group(4), m.group(5).strip()
        assert m.group(6) == fn, (fn, m.group(6))
        tys = [p.split(":", 1)[1].strip() for p in params.split(", ") if p.strip()]
        found.append((mod, name, tys, ret))
        args = ", ".join("a%d: %s" % (i, t) for i, t in enumerate(tys))
        words = ", ".join("crate::rt::ToWord::w(a%d)" % i for i in range(len(tys)))
        call = 'crate::rt::host_import("%s", "%s", &[%s])' % (mod, name, words)
        if ret:
            rt = ret[2:].strip()
            body = "<%s as crate::rt::FromWord>::r(%s)" % (rt, call)
        else:
            body = "%s;" % call
        wasm = m.group(0)[:m.group(0).index("#[cfg(not(target_arch")]
        return '%s#[cfg(not(target_arch = "wasm32"))]\nunsafe extern "C" fn %s(%s) %s { %s }' % (wasm, fn, args, ret, body)
    out = SHIM_RE.sub(repl, src)
    return out, found


WITMAP_WORKAROUND = "#[allow(unused_imports)] use wit_bindgen::rt::WitMap as _; // genrun workaround: see C05 notes (world-level map functions)\n"


class FuncMeta:
    """one world function as the engine drives it"""
    def __init__(self, f, idx):
        self.f, self.idx = f, idx
        self.dir, self.iface, self.name, self.core_name = f["dir"], f["iface"], f["name"], f["core_name"]
        self.params = [p["t"] for p in f["params"]]
        self.result = f["result"]

    def key(self):
        return "%s:%s#%s" % (self.dir, self.iface or "$root", self.name)


def flat_of(oracle, ts):
    out = []
    for t in ts:
        out += oracle.layout(t)[2]
    return out


RUST_FLAT = {"i32": "u32", "i64": "u64", "f32": "f32", "f64": "f64"}


def make_module(dump, opt, modname, gen_src, oracle, resources=False):
    """-> (rust source of the module file, [FuncMeta], notes) ; raises Unsupported.
    With opt.asyncmode == "all" every import and export is bound async (C08): exported trait functions are `async fn`s
    that may suspend on `rt_async::pause()`, export entries are the `[async-lift]` symbols (+ `[callback]`), imports are
    awaited under `wit_bindgen::block_on`."""
    prefix = modname + "_"
    isasync = opt.asyncmode == "all"
    cg = Cg(dump, opt, prefix, resources)
    notes = []
    funcs = []
    for f in dump["funcs"]:
        if f["kind"] != "freestanding":
            raise Unsupported("function kind " + f["kind"])
        for p in f["params"]:
            cg.check_supported(p["t"])
        if f["result"]:
            cg.check_supported(f["result"])
        funcs.append(FuncMeta(f, len(funcs)))
    src, shims = rewrite_shims(gen_src)
    if "unreachable!() }" in src and re.search(r'unsafe extern "C" fn \w+\([^)]*\)[^{]*\{ unreachable!\(\) \}', src):
        raise RuntimeError("an import shim was not rewritten (generator template changed?)")
    root_map = any(f["iface"] is None and any("map" in kinds_of(t) for t in ([p["t"] for p in f["params"]] + ([f["result"]] if f["result"] else [])))
                   for f in dump["funcs"])
    if root_map:
        src = WITMAP_WORKAROUND + src
        notes.append("witmap-workaround")
    o = []
    o.append("// genrun module %s: options %s\n#![allow(warnings)]\n" % (modname, opt.tag()))
    o.append("pub mod bindings {\n%s\n}\n" % src)
    o.append("use crate::rt::{self, S, L, conv, conv_str, conv_map, marker};\n")
    o.append("pub struct G;\n")
    # ---- exported traits
    by_trait = {}
    for fm in funcs:
        fm.isasync = isasync
        if fm.dir == "export":
            by_trait.setdefault(tuple(fm.f["path"]), []).append(fm)
    for path, fms in by_trait.items():
        tr = "::".join(["bindings"] + list(path) + ["Guest"])
        o.append("impl %s for G {\n" % tr)
        for fm in fms:
            ps = ", ".join("p%d: %s" % (i, cg.owned(t)) for i, t in enumerate(fm.params))
            ret = " -> %s" % cg.owned(fm.result, "'static") if fm.result else ""
            body = ["marker(rt::M_IMPL_ENTER);"]
            if isasync:
                body.append("let npause = S::next();")
            for i, t in enumerate(fm.params):
                body.append(cg.walk("&p%d" % i, t))
            body.append("marker(rt::M_IMPL_WALKED);")
            if isasync:
                body.append("for _ in 0..npause { crate::rt_async::pause().await; }")
            if fm.result:
                body.append("let r: %s = %s;" % (cg.owned(fm.result, "'static"), cg.build(fm.result)))
                body.append("marker(rt::M_IMPL_BUILT); r")
            else:
                body.append("marker(rt::M_IMPL_BUILT);")
            o.append("  %sfn %s(%s)%s { %s }\n" % ("async " if isasync else "", fm.f["rust"], ps, ret, "\n    ".join(body)))
        o.append("}\n")
    if by_trait:
        o.append("bindings::export!(G with_types_in bindings);\n")
    # ---- export symbols and dispatch
    decls, arms, parms, cbarms = [], [], [], []
    cv = {"i32": "a[%d] as u32", "i64": "a[%d]", "f32": "f32::from_bits(a[%d] as u32)", "f64": "f64::from_bits(a[%d])"}
    for fm in funcs:
        if fm.dir != "export":
            continue
        pf = flat_of(oracle, fm.params)
        fm.params_indirect = len(pf) > 16
        cf = ["i64"] if fm.params_indirect else pf
        rf = oracle.layout(fm.result)[2] if fm.result else []
        fm.param_flat, fm.result_flat = pf, rf
        if isasync:
            # results leave through task.return: flat up to 16 core values, else one pointer
            fm.result_indirect = len(rf) > 16
            fm.has_post = False
            sym = "%s[async-lift]%s" % (prefix, fm.core_name)
            cbsym = "%s[callback][async-lift]%s" % (prefix, fm.core_name)
            for x in (sym, cbsym):
                if ('export_name = "%s"' % x) not in gen_src:
                    raise RuntimeError("export symbol %s not found in the generated code" % x)
            fm.task_return = "[task-return]" + fm.name
            decls.append('#[link_name = "%s"] fn exp_%d(%s) -> u32;' % (sym, fm.idx, ", ".join("a%d: %s" % (i, RUST_FLAT[c]) for i, c in enumerate(cf))))
            decls.append('#[link_name = "%s"] fn cb_%d(e0: u32, e1: u32, e2: u32) -> u32;' % (cbsym, fm.idx))
            arms.append("%d => exp_%d(%s) as u64," % (fm.idx, fm.idx, ", ".join(cv[c] % i for i, c in enumerate(cf))))
            cbarms.append("%d => cb_%d(e0, e1, e2)," % (fm.idx, fm.idx))
            continue
        fm.result_indirect = len(rf) > 1
        rty = "u64" if fm.result_indirect else (RUST_FLAT[rf[0]] if rf else None)
        sym = prefix + fm.core_name
        fm.has_post = ('export_name = "%scabi_post_%s"' % (prefix, fm.core_name)) in gen_src
        if ('export_name = "%s"' % sym) not in gen_src:
            raise RuntimeError("export symbol %s not found in the generated code" % sym)
        decls.append('#[link_name = "%s"] fn exp_%d(%s)%s;' % (sym, fm.idx, ", ".join("a%d: %s" % (i, RUST_FLAT[c]) for i, c in enumerate(cf)),
                                                              " -> " + rty if rty else ""))
        if fm.has_post:
            decls.append('#[link_name = "%scabi_post_%s"] fn post_%d(a: u64);' % (prefix, fm.core_name, fm.idx))
            parms.append("%d => post_%d(w)," % (fm.idx, fm.idx))
        call = "exp_%d(%s)" % (fm.idx, ", ".join(cv[c] % i for i, c in enumerate(cf)))
        if rty is None:
            arms.append("%d => { %s; 0 }" % (fm.idx, call))
        elif rty in ("f32", "f64"):
            arms.append("%d => %s.to_bits() as u64," % (fm.idx, call))
        else:
            arms.append("%d => %s as u64," % (fm.idx, call))
    o.append('extern "C" {\n  %s\n}\n' % "\n  ".join(decls))
    if isasync:
        o.append("pub fn export(k: usize, a: &[u64]) -> u64 { rt::note(\"sync-call-of-async-export\"); 0 }\n")
        o.append("pub fn aexport(k: usize, a: &[u64]) -> u64 { unsafe { match k { %s _ => { rt::note(\"no-such-export\"); 0 } } } }\n" % " ".join(arms))
        o.append("pub fn callback(k: usize, e0: u32, e1: u32, e2: u32) -> u32 { unsafe { match k { %s _ => 0 } } }\n" % " ".join(cbarms))
    else:
        o.append("pub fn export(k: usize, a: &[u64]) -> u64 { unsafe { match k { %s _ => { rt::note(\"no-such-export\"); 0 } } } }\n" % " ".join(arms))
    o.append("pub fn post(k: usize, w: u64) { unsafe { match k { %s _ => {} } } }\n" % " ".join(parms))
    # ---- import callers
    iarms = []
    for fm in funcs:
        if fm.dir != "import":
            continue
        pf = flat_of(oracle, fm.params)
        rf = oracle.layout(fm.result)[2] if fm.result else []
        fm.param_flat, fm.result_flat = pf, rf
        fm.wasm_module = fm.iface or "$root"
        if isasync:
            fm.params_indirect = len(pf) > 4            # MAX_FLAT_ASYNC_PARAMS
            fm.result_indirect = fm.result is not None  # async-lowered imports always return through memory
            shim = "[async-lower]" + fm.name
        else:
            fm.params_indirect = len(pf) > 16
            fm.result_indirect = len(rf) > 1
            shim = fm.name
        if not any(s_[0] == fm.wasm_module and s_[1] == shim for s_ in shims):
            raise RuntimeError("import shim %s %s not found in the generated code" % (fm.wasm_module, shim))
        fn = "::".join(["bindings"] + fm.f["path"] + [fm.f["rust"]])
        body = []
        for i, t in enumerate(fm.params):
            body.append("let a%d = %s;" % (i, cg.build(t)))
        body.append("marker(rt::M_CALL_START);")
        call = "%s(%s)" % (fn, ", ".join("a%d" % i for i in range(len(fm.params))))
        if isasync:
            call = "wit_bindgen::block_on(async move { %s.await })" % call
        if fm.result:
            body.append("let r = %s;" % call)
            body.append("marker(rt::M_CALL_END);")
            body.append(cg.walk("&r", fm.result))
            body.append("marker(rt::M_WALK_END); drop(r);")
        else:
            body.append("%s; marker(rt::M_CALL_END); marker(rt::M_WALK_END);" % call)
        body.append("rt::arena_clear();")
        o.append("fn imp_%d() { %s }\n" % (fm.idx, "\n  ".join(body)))
        iarms.append("%d => imp_%d()," % (fm.idx, fm.idx))
    o.append("pub fn import(k: usize) { match k { %s _ => rt::note(\"no-such-import\") } }\n" % " ".join(iarms))
    o.append("pub fn init() { %s }\n" % ("crate::rt_async::init();" if isasync else ""))
    return "".join(o), funcs, notes


# ------------------------------------------------------------------------------------------ guest crates
_TREE_HASH = {}


def tree_hash(d):
    """content hash of a source tree (path dependencies of the guest crates: part of the workspace cache key, so a complete
    workspace never needs cargo again)"""
    if d not in _TREE_HASH:
        h = hashlib.sha256()
        for root, dirs, files in os.walk(d):
            dirs[:] = sorted(x for x in dirs if x not in ("target", ".git"))
            for f in sorted(files):
                if f.endswith((".rs", ".toml")):
                    p = os.path.join(root, f)
                    h.update(os.path.relpath(p, d).encode())
                    h.update(open(p, "rb").read())
        _TREE_HASH[d] = h.hexdigest()
    return _TREE_HASH[d]


class Workspace:
    """A cargo workspace of guest crates under build/genrun/<tag>/ws-<hash>; every crate is a native binary
    holding several (world, option set) modules."""

    def __init__(self, modules, ncrates=None, extra_features=(), hook=False, rtmock=False, profile="dev"):
        """modules: dict modname -> rust source"""
        self.modules = dict(modules)
        self.hook, self.rtmock, self.profile = hook, rtmock, profile
        self.extra_features = list(extra_features)
        names = sorted(self.modules)
        n = ncrates or max(1, min(vf.NCPU, len(names)))
        # balance by source size
        bins = [[] for _ in range(n)]
        sizes = [0] * n
        for m in sorted(names, key=lambda m: -len(self.modules[m])):
            i = sizes.index(min(sizes))
            bins[i].append(m)
            sizes[i] += len(self.modules[m])
        self.crates = {"g%d" % i: sorted(b) for i, b in enumerate(bins) if b}
        rt_src = open(os.path.join(TEMPL, "rt.rs")).read()
        h = hashlib.sha256()
        h.update(rt_src.encode())
        h.update(tree_hash(os.path.join(os.path.realpath(vf.REPO), "crates", "guest-rust")).encode())
        if rtmock:
            h.update(tree_hash(os.path.join(vf.harness_dir(), "crates", "rtmock")).encode())
            h.update(open(os.path.join(TEMPL, "rt_async.rs")).read().encode())
        h.update(("%s|%s|%s|%s|cargo-layout-v2" % (hook, rtmock, profile, ",".join(self.extra_features))).encode())
        for m in names:
            h.update(m.encode())
            h.update(self.modules[m].encode())
        self.hash = h.hexdigest()[:16]
        self.dir = os.path.join(base_dir(), "ws-" + self.hash)
        self.rt_src = rt_src
        self.excluded = {}   # modname -> first compiler error
        self.exes = {}       # crate -> exe path

    def crate_of(self, mod):
        for c, ms in self.crates.items():
            if mod in ms:
                return c
        return None

    def write(self):
        repo = os.path.realpath(vf.REPO)
        feats = ["std", "bitflags"] + self.extra_features
        _write_if_different(os.path.join(self.dir, "Cargo.toml"),
                            "[workspace]\nresolver = \"2\"\nmembers = [%s]\n[profile.dev]\ndebug = false\nopt-level = 0\nincremental = false\n"
                            "[profile.release]\ndebug = false\nopt-level = 1\ndebug-assertions = false\n" % ", ".join('"%s"' % c for c in sorted(self.crates)))
        for c, ms in self.crates.items():
            live = [m for m in ms if m not in self.excluded]
            dep = 'wit-bindgen = { path = "%s/crates/guest-rust", default-features = false, features = [%s] }\n' % (repo, ", ".join('"%s"' % f for f in feats))
            if self.rtmock:
                dep += 'rtmock = { path = "%s/crates/rtmock" }\nfutures = { version = "0.3.30", default-features = false, features = ["alloc"] }\n' % vf.harness_dir()
            _write_if_different(os.path.join(self.dir, c, "Cargo.toml"),
                                "[package]\nname = \"genrun_%s\"\nversion = \"0.0.0\"\nedition = \"2021\"\n[features]\n%sstd = []\n[dependencies]\n%s" % (
                                    c, "default = [\"std\"]\n" if int(c[1:]) % 2 == 0 else "", dep))   # `--std-feature` bindings see the crate feature `std` on in every other crate
            main = ["#![allow(warnings)]", "mod rt;", "#[global_allocator]", "static GLOBAL: rt::TrackAlloc = rt::TrackAlloc;"]
            if self.rtmock:
                main.append("mod rt_async;")
                _write_if_different(os.path.join(self.dir, c, "src", "rt_async.rs"), open(os.path.join(TEMPL, "rt_async.rs")).read())
            for m in live:
                main.append("mod %s;" % m)
            main.append("fn main() { rt::main_loop(&[")
            for m in live:
                isasync = "pub fn aexport(" in self.modules[m]
                main.append("  rt::Module { name: \"%s\", export: %s::export, post: %s::post, import: %s::import, init: %s::init, aexport: %s, callback: %s }," % (
                    m, m, m, m, m, (m + "::aexport") if isasync else "rt::no_aexport", (m + "::callback") if isasync else "rt::no_callback"))
            main.append("]); }")
            _write_if_different(os.path.join(self.dir, c, "src", "main.rs"), "\n".join(main) + "\n")
            _write_if_different(os.path.join(self.dir, c, "src", "rt.rs"), self.rt_src)
            for m in ms:
                _write_if_different(os.path.join(self.dir, c, "src", m + ".rs"), self.modules[m])

    def build(self, max_rounds=4, timeout=3000):
        """build under a per-workspace lock: two checks run side by side with the same seed share workspace directories, and
        the second one must find the first one's stamp (with its exclusion list) instead of rewriting main.rs under a running
        cargo (seen once as `ERR no-such-module` from a guest binary built from mixed sources)."""
        with vf.Lock("genrun-ws-" + self.hash + "-" + repo_tag()):
            return self._build_locked(max_rounds, timeout)

    def _build_locked(self, max_rounds=4, timeout=3000):
        """cargo build (own target dir inside the workspace); modules rustc rejects are excluded (recorded with the first
        error) and the rest rebuilt.  A workspace that was built completely before is not touched again: its key covers the
        generated sources, rt.rs and the path dependencies' sources.  Returns (ok, log)."""
        tdir = os.path.join(self.dir, "target")
        stamp = os.path.join(self.dir, ".built.json")
        if os.path.exists(stamp):
            st = json.load(open(stamp))
            if all(os.path.exists(os.path.join(self.dir, c + ".exe")) for c in st["exes"]):
                self.excluded = st["excluded"]
                self.exes = {c: os.path.join(self.dir, c + ".exe") for c in st["exes"]}
                os.utime(self.dir)
                return True, "cached"
        env = {"RUSTFLAGS": "-Awarnings" + ((" --cfg " + vf.HOOK_CFG) if self.hook else "")}
        log = ""
        for rnd in range(max_rounds):
            self.write()
            args = ["build", "--keep-going", "--message-format=short"] + (["--release"] if self.profile == "release" else [])
            rc, out = _cargo(self.dir, args, tdir, env=env, timeout=timeout, lock="genrun-build-" + self.hash)
            log = out
            pdir = "release" if self.profile == "release" else "debug"
            if rc == 0:
                for c in self.crates:
                    if any(m not in self.excluded for m in self.crates[c]):
                        src = os.path.join(tdir, pdir, "genrun_" + c)
                        dst = os.path.join(self.dir, c + ".exe")
                        shutil.copy(src, dst + ".tmp")
                        os.replace(dst + ".tmp", dst)
                        self.exes[c] = dst
                json.dump({"exes": sorted(self.exes), "excluded": self.excluded}, open(stamp, "w"))
                shutil.rmtree(tdir, ignore_errors=True)     # the executables are all we keep
                return True, log
            bad = {}
            for m in re.finditer(r"(?:^|[\s/])(g\d+)/src/(\w+)\.rs:(\d+):\d+: error(.*)", out):
                mod = m.group(2)
                if mod in self.modules and mod not in bad:
                    bad[mod] = ("line %s: error%s" % (m.group(3), m.group(4)))[:300]
            if not bad:
                for m in re.finditer(r"src/(\w+)\.rs:(\d+):\d+: error(.*)", out):
                    mod = m.group(1)
                    if mod in self.modules and mod not in bad:
                        bad[mod] = ("line %s: error%s" % (m.group(2), m.group(3)))[:300]
            if not bad:
                return False, log
            self.excluded.update(bad)
        return False, log

    def exe_of(self, mod):
        c = self.crate_of(mod)
        return self.exes.get(c)


def prune_workspaces(keep=6):
    """remove old ws-* directories of this repo tag (they are caches)"""
    d = base_dir()
    ws = sorted((os.path.getmtime(os.path.join(d, x)), x) for x in os.listdir(d) if x.startswith("ws-"))
    import time
    for mt, x in ws[:-keep]:
        if time.time() - mt < 7200:     # possibly in use by a check running side by side
            continue
        shutil.rmtree(os.path.join(d, x), ignore_errors=True)


class Guest:
    """client of one native guest binary"""
    def __init__(self, exe, wrap=None, env=None):
        self.exe = exe
        self.proc = Proc((wrap or []) + [exe], env=env, name="guest")
        self.deaths = 0

    def ask(self, line):
        r = self.proc.ask(line)
        if r is None:
            self.deaths += 1
        return r

    @staticmethod
    def fields(resp):
        d = {}
        for tok in resp.split(" ")[1:]:
            k, _, v = tok.partition("=")
            d[k] = v
        return d

    def alloc(self, reqs):
        """reqs: [(size, align)] with size > 0 -> addresses"""
        if not reqs:
            return []
        r = self.ask("ALLOC " + " ".join("%d:%d" % q for q in reqs))
        if r is None or not r.startswith("OK"):
            raise GuestDied(self.proc.last_err if r is None else r)
        return [int(x) for x in r.split(" ")[1:]]

    def free(self, blocks):
        if not blocks:
            return ""
        r = self.ask("FREE " + " ".join("%d:%d:%d" % b for b in blocks))
        if r is None:
            raise GuestDied(self.proc.last_err)
        return self.fields(r).get("ev", "")

    def live(self):
        r = self.ask("LIVE")
        if r is None:
            raise GuestDied(self.proc.last_err)
        f = self.fields(r)
        live = [tuple(int(x) for x in b.split(":")) for b in f.get("live", "").split(",") if b]
        return live, f.get("ev", "")

    def close(self):
        self.proc.close()


class GuestDied(Exception):
    pass


# ------------------------------------------------------------------------------------------ one call, judged by the spec host
def parse_events(s):
    """-> list of ('A'|'F', ptr, size, align, untracked) | ('M', code) | ('E', code, ptr, size, align)"""
    out = []
    for tok in s.split(","):
        if not tok:
            continue
        if tok == "OVERFLOW":
            out.append(("E", 99, 0, 0, 0))
        elif tok[0] == "M":
            out.append(("M", int(tok[1:])))
        elif tok[0] == "E":
            a = tok[1:].split(":")
            out.append(("E", int(a[0]), int(a[1]), int(a[2]), int(a[3])))
        else:
            u = tok.endswith("u")
            a = tok[1:].rstrip("u").split(":")
            out.append((tok[0], int(a[0]), int(a[1]), int(a[2]), u))
    return out


ERRNAMES = {1: "free of a pointer that is not a live block (double free or foreign pointer)", 2: "free with a size/alignment different from the allocation's",
            3: "red zone next to a block overwritten (out-of-bounds write)", 4: "allocator table full", 99: "event log overflow"}


def segs_str(writes):
    return ";".join("%d:%s" % w for w in writes)


class Finding:
    """cat: value | memory | crash;  klass: stable class of the failing input (used in violation keys)"""
    def __init__(self, cat, what, detail, klass=None):
        self.cat, self.what, self.detail = cat, what, detail
        self.klass = klass or what

    def __repr__(self):
        return "[%s] %s: %s" % (self.cat, self.klass, self.detail)


def alloc_labels(o, t, v, flat_top):
    """[( (size, align), class )] for every non-empty buffer the canonical ABI allocates when lowering v : t, in the
    spec's order (buffer of a list before its elements).  Sizes come from the oracle's layout.  Classes follow
    class_of_path: the fixed-length-list nesting above the outermost heap buffer, then `heap` for that outermost buffer
    itself or `nested-heap` for a buffer that lives inside another buffer's elements."""
    out = []

    def lab(fixeds, nested):
        return "/".join(fixeds + ["nested-heap" if nested else "heap"])

    def go(t, v, fixeds, nested):
        k = t["k"]
        if k == "string":
            if len(v[1]):
                out.append(((len(v[1]), 1), lab(fixeds, nested)))
        elif k == "list":
            sz, al, _ = o.layout(t["t"])
            if len(v[1]) * sz:
                out.append(((len(v[1]) * sz, al), lab(fixeds, nested)))
            for x in v[1]:
                go(t["t"], x, fixeds, True)
        elif k == "map":
            et = {"k": "tuple", "ts": [t["key"], t["val"]]}
            sz, al, _ = o.layout(et)
            if len(v[1]) * sz:
                out.append(((len(v[1]) * sz, al), lab(fixeds, nested)))
            for e in v[1]:
                go(t["key"], e[1][0], fixeds, True)
                go(t["val"], e[1][1], fixeds, True)
        elif k == "fixed":
            for x in v[1]:
                go(t["t"], x, fixeds if nested else fixeds + ["fixed"], nested)
        elif k == "tuple":
            for tt, x in zip(t["ts"], v[1]):
                go(tt, x, fixeds, nested)
        elif k == "record":
            for f, x in zip(t["fields"], v[1]):
                go(f["t"], x, fixeds, nested)
        elif k == "option":
            if v[1] == 1:
                go(t["t"], v[2], fixeds, nested)
        elif k == "result":
            pt = t["ok"] if v[1] == 0 else t["err"]
            if pt:
                go(pt, v[2], fixeds, nested)
        elif k == "variant":
            pt = t["cases"][v[1]]["t"]
            if pt:
                go(pt, v[2], fixeds, nested)
    go(t, v, [], False)
    return out


def label_blocks(blocks, labels):
    """classes of the (size, align) blocks according to the labelled prediction: the set of all candidate classes"""
    res = set()
    for b in blocks:
        c = set(l for sa, l in labels if sa == tuple(b))
        res |= c if c else {"unpredicted"}
    return ",".join(sorted(res))


def poison_segments(evs, start_marker, end_marker):
    """blocks freed between two markers, as segments full of the allocator's free-poison 0xDD"""
    segs, on = [], False
    for e in evs:
        if e[0] == "M":
            if e[1] == start_marker:
                on = True
            elif e[1] == end_marker:
                break
        elif e[0] == "F" and on and e[2] > 0:
            segs.append("%d:%s" % (e[1], "dd" * e[2]))
    return segs


class Runner:
    """Drives one guest binary with the oracle as the host."""
    def __init__(self, oracle, guest):
        self.o, self.g = oracle, guest
        self.stats = {"export_calls": 0, "import_calls": 0, "leaves_sent": 0, "leaves_received": 0, "host_buffers": 0, "guest_buffers": 0,
                      "uaf_probes": 0}
        self.live = None

    def _live(self):
        """live tracked blocks; known from the last response when possible (saves a round trip)"""
        if self.live is None:
            self.live = self.g.live()[0]
        return self.live

    @staticmethod
    def _parse_live(r):
        return [tuple(int(x) for x in b.split(":")) for b in r.get("live", "").split(",") if b]

    def _mem_findings(self, events, where):
        out = []
        for e in events:
            if e[0] == "E":
                out.append(Finding("memory", "allocator", "%s: %s at %d (size %d align %d)" % (where, ERRNAMES.get(e[1], "?"), e[2], e[3], e[4]),
                                   "allocator:%d:%s" % (e[1], where.replace(" ", "-"))))
        return out

    def _compare(self, F, where, t, sent, got, text):
        if got is None:
            import threading
            why = LAST_LIFT_FAIL.get(threading.get_ident(), "TRAP")
            F.append(Finding("value", where, "the spec host cannot lift what the generated code produced (%s); %s" % (why, text % (show(sent), why)),
                             where + ":lift-of-guest-memory-failed:" + heap_shape(t)))
        elif canon(t, got) != canon(t, sent):
            F.append(Finding("value", where, text % (show(sent), show(got)), where + ":" + class_of_path(diff_path(t, canon(t, sent), canon(t, got)))))

    def export_call(self, mod, fm, args, ret):
        """args: list of values (one per parameter), ret: value or None.  -> (findings, observation dict)"""
        o, g = self.o, self.g
        F = []
        obs = {}
        live0 = self._live()
        flat, writes, given = [], [], []
        pt, pv = (tuple_ty(fm.params), ("r", list(args))) if fm.params else (None, None)
        if fm.params:
            if fm.params_indirect:
                size, align, _ = o.layout(pt)
                reqs = [(size, align)] + o.allocs(pt, pv, "mem")
                addrs = g.alloc(reqs)
                _, writes, _ = o.lower(pt, pv, "mem", addrs[0], addrs[1:])
                flat = [addrs[0]]
            else:
                reqs = o.allocs(pt, pv, "flat")
                addrs = g.alloc(reqs)
                flat, writes, _ = o.lower(pt, pv, "flat", 65536, addrs)
            given = [(a, s, al) for a, (s, al) in zip(addrs, reqs)]
        script = encode(fm.result, ret) if fm.result else []
        retsize = o.layout(fm.result)[0] if (fm.result and fm.result_indirect) else 0
        self.stats["export_calls"] += 1
        self.stats["host_buffers"] += len(given)
        self.stats["leaves_sent"] += sum(count_leaves(a) for a in args)
        self.live = None
        resp = g.ask("EXPORT %s %d %d %s %s %s" % (mod, fm.idx, retsize, ",".join(map(str, flat)), ",".join(map(str, script)), segs_str(writes)))
        if resp is None or not resp.startswith("OK"):
            F.append(Finding("crash", "guest-died", "export call: %s" % (g.proc.last_err if resp is None else resp), "crash:export"))
            return F, obs
        r = Guest.fields(resp)
        live1 = self._parse_live(r)
        obs["ret"] = int(r["ret"])
        evs = parse_events(r.get("ev", ""))
        obs["events"] = evs
        if r.get("notes"):
            F.append(Finding("value", "notes", r["notes"], "notes:" + r["notes"].split(";")[0]))
        # -- what arrived in the Rust implementation
        words = [int(x) for x in r["log"].split(",")] if r.get("log") else []
        if fm.params:
            try:
                got = decode(pt, words)
                self._compare(F, "export-param", pt, pv, got, "the host sent %s, the Rust implementation received %s")
            except DecodeError as e:
                F.append(Finding("value", "export-param", "observation log does not parse as the parameter types: %s (sent %s)" % (e, show(pv)), "export-param:" + e.klass))
        elif words:
            F.append(Finding("value", "export-param", "log not empty for a function without parameters", "export-param:log-unparseable"))
        # -- what the Rust implementation sent back
        if fm.result:
            self.stats["leaves_received"] += count_leaves(ret)
            mode, src = ("mem", obs["ret"]) if fm.result_indirect else ("flat", str(obs["ret"]))
            ps = poison_segments(evs, M_CALL_START, M_CALL_END) if fm.result_indirect else []
            reqs = [("lift", PW, sx(fm.result), mode, src, r.get("segs", "")), ("allocs", PW, sx(fm.result), show(ret), "mem" if fm.result_indirect else "flat")]
            if ps:
                reqs.append(("lift", PW, sx(fm.result), mode, src, ";".join(ps + [r.get("segs", "")])))   # later segments win: live memory over poison
            ans = o.ask_many(reqs)
            got = Oracle.r_lift(ans[0])
            want_allocs = Oracle.r_allocs(ans[1])
            self._compare(F, "export-result", fm.result, ret, got, "Rust returned %s, the host received %s")
            if ps:
                self.stats["uaf_probes"] += 1
                got2 = Oracle.r_lift(ans[2])
                if got2 != got:
                    d = diff_path(fm.result, canon(fm.result, got), canon(fm.result, got2)) if (got is not None and got2 is not None) else None
                    F.append(Finding("memory", "use-after-free", "the result image points into memory the guest freed before returning (lifting reads freed blocks): %s" % show(ret),
                                     "use-after-free:export-result:" + (class_of_path(d) if d else "trap")))
        # -- allocation ledger
        F += self._mem_findings(evs, "export call")
        allocd = {}
        for e in evs:
            if e[0] == "A":
                allocd[e[1]] = (e[2], e[3])
            elif e[0] == "F":
                allocd.pop(e[1], None)
        freed = set(e[1] for e in evs if e[0] == "F")
        plabels = alloc_labels(o, pt, pv, not fm.params_indirect) if fm.params else []
        for (a, s, al) in given:
            if a not in freed:
                F.append(Finding("memory", "host-buffer-not-taken", "parameter buffer %d:%d handed to the export was not released by the end of the call" % (s, al),
                                 "host-buffer-not-taken:export-param:" + label_blocks([(s, al)], plabels)))
        handed = sorted(allocd.values())
        self.stats["guest_buffers"] += len(handed)
        want = sorted(want_allocs) if fm.result else []
        rlabels = alloc_labels(o, fm.result, ret, not fm.result_indirect) if fm.result else []
        if sorted(sa for sa, _ in rlabels) != want:
            raise RuntimeError("engine: alloc_labels disagrees with the oracle: %s vs %s for %s" % (rlabels, want, show(ret)))
        obs["handed"], obs["predicted"] = handed, want
        if handed != want:
            extra = [b for b in handed if b not in want] or handed
            F.append(Finding("memory", "result-ledger", "guest allocations alive at return %s differ from the canonical ABI's prediction %s for result %s" % (
                handed, want, show(ret) if ret else "-"), "result-ledger:" + label_blocks(extra, rlabels)))
        if fm.has_post:
            resp2 = g.ask("POST %s %d %d" % (mod, fm.idx, obs["ret"]))
            if resp2 is None or not resp2.startswith("OK"):
                F.append(Finding("crash", "guest-died", "post-return: %s" % (g.proc.last_err if resp2 is None else resp2), "crash:post-return"))
                return F, obs
            r2 = Guest.fields(resp2)
            evs2 = parse_events(r2.get("ev", ""))
            F += self._mem_findings(evs2, "post-return")
            obs["post_events"] = evs2
            live1 = self._parse_live(r2)
        self.live = live1
        if live1 != live0:
            leaked = sorted(set(live1) - set(live0))
            gone = sorted(set(live0) - set(live1))
            kind = "leak" if leaked else "over-free"
            F.append(Finding("memory", kind, "after the call%s the guest heap differs: leaked %s, missing %s (result %s)" % (
                " and post-return" if fm.has_post else " (no post-return function generated)", [(s, a) for _, s, a in leaked], [(s, a) for _, s, a in gone],
                show(ret) if ret else "-"), "%s:export:%s" % (kind, label_blocks([(s, a) for _, s, a in (leaked or gone)], rlabels + plabels))))
            obs["leaked"] = leaked
        return F, obs

    def import_call(self, mod, fm, args, ret):
        o, g = self.o, self.g
        F = []
        obs = {}
        live0 = self._live()
        given, writes = [], []
        mode, payload = "none", "0"
        if fm.result:
            if fm.result_indirect:
                reqs = o.allocs(fm.result, ret, "mem")
                addrs = g.alloc(reqs)
                _, ws, _ = o.lower(fm.result, ret, "mem", 0, addrs)
                assert ws[0][0] == 0
                mode, payload = "mem", ws[0][1]
                writes = ws[1:]
                given = [(a, s, al) for a, (s, al) in zip(addrs, reqs)]
            else:
                flat, _, _ = o.lower(fm.result, ret, "flat", 65536, [])
                mode, payload = "flat", str(flat[0])
        script = []
        for t, v in zip(fm.params, args):
            encode(t, v, script)
        pt, pv = (tuple_ty(fm.params), ("r", list(args))) if fm.params else (None, None)
        ind = o.layout(pt)[0] if fm.params_indirect else 0
        self.stats["import_calls"] += 1
        self.stats["host_buffers"] += len(given)
        self.stats["leaves_sent"] += count_leaves(ret) if ret else 0
        self.live = None
        resp = g.ask("IMPORT %s %d %s %s %d %s %s %s %s" % (mod, fm.idx, fm.wasm_module.replace(" ", "\x1f"), fm.name.replace(" ", "\x1f"), ind, mode, payload,
                                                          ",".join(map(str, script)), segs_str(writes)))
        if resp is None or not resp.startswith("OK"):
            F.append(Finding("crash", "guest-died", "import call: %s" % (g.proc.last_err if resp is None else resp), "crash:import"))
            return F, obs
        r = Guest.fields(resp)
        evs = parse_events(r.get("ev", ""))
        obs["events"] = evs
        if r.get("notes"):
            F.append(Finding("value", "notes", r["notes"], "notes:" + r["notes"].split(";")[0]))
        calls = [c.split("|") for c in r.get("calls", "").split(";") if c]
        obs["calls"] = calls
        mine = [c for c in calls if c[0] == fm.wasm_module and c[1] == fm.name]
        if len(mine) != 1:
            F.append(Finding("value", "import-call-count", "the import was called %d times" % len(mine), "import-call-count:%d" % len(mine)))
        else:
            words = [int(x) for x in mine[0][2].split(",")] if mine[0][2] else []
            nexp = (1 if fm.params_indirect else len(fm.param_flat)) + (1 if fm.result_indirect else 0)
            if len(words) != nexp:
                F.append(Finding("value", "import-arity", "core call has %d arguments, expected %d" % (len(words), nexp)))
            elif fm.params:
                self.stats["leaves_received"] += sum(count_leaves(a) for a in args)
                lm, src = ("mem", words[0]) if fm.params_indirect else ("flat", " ".join(str(w) for w in words[:len(fm.param_flat)]))
                ps = poison_segments(evs, M_CALL_START, M_HOST_ENTER)
                reqs = [("lift", PW, sx(pt), lm, src, r.get("segs", ""))]
                if ps:
                    reqs.append(("lift", PW, sx(pt), lm, src, ";".join(ps + [r.get("segs", "")])))
                ans = o.ask_many(reqs)
                got = Oracle.r_lift(ans[0])
                self._compare(F, "import-param", pt, pv, got, "Rust passed %s, the host received %s")
                if ps:
                    self.stats["uaf_probes"] += 1
                    got2 = Oracle.r_lift(ans[1])
                    if got2 != got:
                        d = diff_path(pt, canon(pt, got), canon(pt, got2)) if (got is not None and got2 is not None) else None
                        F.append(Finding("memory", "use-after-free", "the lowered parameters point into memory the wrapper freed before calling the import "
                                         "(the host reads freed blocks): %s" % show(pv), "use-after-free:import-param:" + (class_of_path(d) if d else "trap")))
        words = [int(x) for x in r["log"].split(",")] if r.get("log") else []
        if fm.result:
            try:
                got = decode(fm.result, words)
                self._compare(F, "import-result", fm.result, ret, got, "the host returned %s, Rust received %s")
            except DecodeError as e:
                F.append(Finding("value", "import-result", "observation log does not parse as the result type: %s (sent %s)" % (e, show(ret)), "import-result:" + e.klass))
        F += self._mem_findings(evs, "import call")
        freed = set(e[1] for e in evs if e[0] == "F")
        rlabels = alloc_labels(o, fm.result, ret, not fm.result_indirect) if fm.result else []
        for (a, s, al) in given:
            if a not in freed:
                F.append(Finding("memory", "host-buffer-not-taken", "result buffer %d:%d handed to the import wrapper was not released once the result was dropped" % (s, al),
                                 "host-buffer-not-taken:import-result:" + label_blocks([(s, al)], rlabels)))
        live1 = self._parse_live(r)
        self.live = live1
        if live1 != live0:
            leaked = sorted(set(live1) - set(live0))
            gone = sorted(set(live0) - set(live1))
            kind = "leak" if leaked else "over-free"
            plabels = alloc_labels(o, pt, pv, True) if fm.params else []
            F.append(Finding("memory", kind, "after the import call and dropping its result the guest heap differs: leaked %s, missing %s" % (
                [(s, a) for _, s, a in leaked], [(s, a) for _, s, a in gone]), "%s:import:%s" % (kind, label_blocks([(s, a) for _, s, a in (leaked or gone)], rlabels + plabels))))
            obs["leaked"] = leaked
        return F, obs

    # ---------------------------------------------------------------------------------- async (C08)
    def _async_init(self, mod):
        """the async protocol extension is registered by the module's init(), which the runtime calls when a module is first
        looked up: a no-op POST does that (again after a restart of the guest process)"""
        key = (mod, self.g.deaths, self.g.proc.restarts)
        if getattr(self, "_ainit", None) != key:
            self.g.ask("POST %s 999999 0" % mod)
            self._ainit = key

    def aexport_call(self, mod, fm, args, ret, npause=0, cancel=False):
        """async-lifted export: the host calls the `[async-lift]` entry, plays the event loop (resolving the guest's
        `npause` pause subtasks, or cancelling at the first wait) and judges what arrived through task.return."""
        o, g = self.o, self.g
        F, obs = [], {}
        live0 = self._live()
        flat, writes, given = [], [], []
        pt, pv = (tuple_ty(fm.params), ("r", list(args))) if fm.params else (None, None)
        if fm.params:
            if fm.params_indirect:
                size, align, _ = o.layout(pt)
                reqs = [(size, align)] + o.allocs(pt, pv, "mem")
                addrs = g.alloc(reqs)
                _, writes, _ = o.lower(pt, pv, "mem", addrs[0], addrs[1:])
                flat = [addrs[0]]
            else:
                reqs = o.allocs(pt, pv, "flat")
                addrs = g.alloc(reqs)
                flat, writes, _ = o.lower(pt, pv, "flat", 65536, addrs)
            given = [(a, s_, al) for a, (s_, al) in zip(addrs, reqs)]
        script = [npause] + (encode(fm.result, ret) if fm.result else [])
        trsize = o.layout(fm.result)[0] if (fm.result and fm.result_indirect) else 0
        self.stats["export_calls"] += 1
        self.live = None
        self._async_init(mod)
        if g.ask("APOLICY %d" % (9 if cancel else 0)) is None:
            return [Finding("crash", "guest-died", "APOLICY: " + g.proc.last_err, "crash:export")], obs
        resp = g.ask("AEXPORT %s %d %d %s %s %s" % (mod, fm.idx, trsize, ",".join(map(str, flat)), ",".join(map(str, script)), segs_str(writes)))
        if resp is None or not resp.startswith("OK"):
            F.append(Finding("crash", "guest-died", "async export call: %s" % (g.proc.last_err if resp is None else resp), "crash:async-export"))
            return F, obs
        r = Guest.fields(resp)
        evs = parse_events(r.get("ev", ""))
        obs["events"], obs["codes"] = evs, r.get("codes", "")
        hlog = [t for t in r.get("hlog", "").split(",") if t]
        obs["hlog"] = hlog
        want_cancel = cancel and npause > 0
        notes_ = r.get("notes", "")
        if want_cancel:
            notes_ = notes_.replace("script-not-consumed;", "")    # a cancelled task never builds its result
        if notes_:
            F.append(Finding("value", "notes", notes_, "notes:" + notes_.split(";")[0]))
        for t in hlog:
            if t.startswith("TRAP"):
                F.append(Finding("value", "async-host-trap", "the async host trapped the guest: %s (host log %s)" % (t, hlog[-12:]), "async-export:" + t.lower()))
        words = [int(x) for x in r["log"].split(",")] if r.get("log") else []
        if fm.params:
            try:
                got = decode(pt, words)
                self._compare(F, "async-export-param", pt, pv, got, "the host sent %s, the async Rust implementation received %s")
            except DecodeError as e:
                F.append(Finding("value", "async-export-param", "observation log does not parse as the parameter types: %s (sent %s)" % (e, show(pv)), "async-export-param:" + e.klass))
        trs = [x.split("|") for x in r.get("taskret", "").split(";") if x]
        mine = [x for x in trs if x[0] == fm.task_return]
        ncancel = hlog.count("taskcancel")
        suspended = npause > 0
        want_cancel = cancel and suspended
        obs["task_returns"], obs["task_cancels"] = len(mine), ncancel
        if want_cancel:
            if len(mine) != 0 or ncancel != 1:
                F.append(Finding("value", "async-completion", "a cancelled export task must yield exactly one [task-cancel] and no [task-return]: saw %d task.return, %d task.cancel (codes %s)" % (
                    len(mine), ncancel, r.get("codes")), "async-export:completion:cancelled:%d:%d" % (len(mine), ncancel)))
        else:
            if len(mine) != 1 or ncancel != 0 or len(trs) != len(mine):
                F.append(Finding("value", "async-completion", "a completed export task must yield exactly one [task-return] and no [task-cancel]: saw %d task.return (%d in total), %d task.cancel (codes %s)" % (
                    len(mine), len(trs), ncancel, r.get("codes")), "async-export:completion:%d:%d" % (len(mine), ncancel)))
        if not r.get("codes", "").endswith("0"):
            F.append(Finding("value", "async-completion", "the task never exited: status codes %s" % r.get("codes"), "async-export:no-exit"))
        want_allocs = []
        if len(mine) == 1 and not want_cancel:
            tw = [int(x) for x in mine[0][1].split(",")] if mine[0][1] else []
            if fm.result:
                self.stats["leaves_received"] += count_leaves(ret)
                nflat = 1 if fm.result_indirect else len(fm.result_flat)
                if len(tw) != nflat:
                    F.append(Finding("value", "async-export-result", "task.return got %d core values, expected %d" % (len(tw), nflat), "async-export-result:arity"))
                else:
                    mode, src = ("mem", tw[0]) if fm.result_indirect else ("flat", " ".join(map(str, tw)))
                    ans = o.ask_many([("lift", PW, sx(fm.result), mode, src, r.get("segs", "")), ("allocs", PW, sx(fm.result), show(ret), "mem" if fm.result_indirect else "flat")])
                    got = Oracle.r_lift(ans[0])
                    want_allocs = Oracle.r_allocs(ans[1])
                    self._compare(F, "async-export-result", fm.result, ret, got, "async Rust returned %s, the host received through task.return %s")
            elif tw:
                F.append(Finding("value", "async-export-result", "task.return got %d core values for a function without result" % len(tw), "async-export-result:arity"))
        # -- allocation ledger: guest buffers alive when task.return is called
        F += self._mem_findings(evs, "async export call")
        allocd, at_return = {}, None
        for e in evs:
            if e[0] == "A":
                allocd[e[1]] = (e[2], e[3])
            elif e[0] == "F":
                allocd.pop(e[1], None)
            elif e[0] == "M" and e[1] == M_TASK_RETURN and at_return is None:
                at_return = sorted(allocd.values())
        obs["handed"], obs["predicted"] = at_return, sorted(want_allocs)
        # NB no exact ledger here: what task.return sees is BORROWED from the Rust values the implementation returned (lists are
        # passed by pointer to the Vec's own buffer, whose capacity may exceed its length), so block sizes are not prescribed;
        # that the data is readable at that moment is covered by lifting from the snapshot of live blocks taken inside task.return
        freed = set(e[1] for e in evs if e[0] == "F")
        area = given[0][0] if (given and fm.params_indirect) else None
        for (a, s_, al) in given:
            if a not in freed:
                what = "param-area" if a == area else "param-buffer"
                F.append(Finding("memory", "host-buffer-not-taken", "%s %d:%d handed to the async export was not released by the end of the task" % (
                    "the parameter area (parameters passed through memory)" if a == area else "parameter buffer", s_, al), "host-buffer-not-taken:async-export:" + what))
        live1 = self._parse_live(r)
        self.live = live1
        if live1 != live0:
            leaked = sorted(set(live1) - set(live0))
            gone = sorted(set(live0) - set(live1))
            kind = "leak" if leaked else "over-free"
            gset = set(a for a, _, _ in given)
            srcs = sorted(set(("param-area" if b[0] == area else "param-buffer") if b[0] in gset else "guest-allocation" for b in (leaked or gone)))
            F.append(Finding("memory", kind, "after the async export task exited the guest heap differs: leaked %s, missing %s (pauses %d, cancel %s)" % (
                [(s_, a) for _, s_, a in leaked], [(s_, a) for _, s_, a in gone], npause, cancel), "%s:async-export:%s" % (kind, ",".join(srcs))))
        return F, obs

    def aimport_call(self, mod, fm, args, ret, policy=0):
        """async-lowered import awaited under block_on; policy 0 = the host answers RETURNED at once, 1 = STARTED then RETURNED
        once the guest blocks, 2 = STARTING, then STARTED, then RETURNED"""
        o, g = self.o, self.g
        F, obs = [], {}
        live0 = self._live()
        given, writes = [], []
        mode, payload = "none", "0"
        if fm.result:
            reqs = o.allocs(fm.result, ret, "mem")
            addrs = g.alloc(reqs)
            _, ws, _ = o.lower(fm.result, ret, "mem", 0, addrs)
            mode, payload = "mem", ws[0][1]
            writes = ws[1:]
            given = [(a, s_, al) for a, (s_, al) in zip(addrs, reqs)]
        script = []
        for t, v in zip(fm.params, args):
            encode(t, v, script)
        pt, pv = (tuple_ty(fm.params), ("r", list(args))) if fm.params else (None, None)
        ind = o.layout(pt)[0] if fm.params_indirect else 0
        self.stats["import_calls"] += 1
        self.live = None
        self._async_init(mod)
        if g.ask("APOLICY %d" % policy) is None:
            return [Finding("crash", "guest-died", "APOLICY: " + g.proc.last_err, "crash:import")], obs
        resp = g.ask("IMPORT %s %d %s %s %d %s %s %s %s" % (mod, fm.idx, fm.wasm_module.replace(" ", "\x1f"), fm.name.replace(" ", "\x1f"), ind, mode, payload,
                                                          ",".join(map(str, script)), segs_str(writes)))
        if resp is None or not resp.startswith("OK"):
            F.append(Finding("crash", "guest-died", "async import call: %s" % (g.proc.last_err if resp is None else resp), "crash:async-import"))
            return F, obs
        r = Guest.fields(resp)
        ra = r
        hlog = [t for t in ra.get("hlog", "").split(",") if t]
        obs["hlog"] = hlog
        evs = parse_events(r.get("ev", ""))
        obs["events"] = evs
        if r.get("notes"):
            F.append(Finding("value", "notes", r["notes"], "notes:" + r["notes"].split(";")[0]))
        for t in hlog:
            if t.startswith("TRAP"):
                F.append(Finding("value", "async-host-trap", "the async host trapped the guest: %s (host log %s)" % (t, hlog[-12:]), "async-import:" + t.lower()))
        calls = [c.split("|") for c in r.get("calls", "").split(";") if c]
        shim = "[async-lower]" + fm.name
        mine = [c for c in calls if c[0] == fm.wasm_module and c[1] == shim]
        if len(mine) != 1:
            F.append(Finding("value", "import-call-count", "the async import was called %d times" % len(mine), "async-import-call-count:%d" % len(mine)))
        else:
            words = [int(x) for x in mine[0][2].split(",")] if mine[0][2] else []
            nexp = (1 if fm.params_indirect else len(fm.param_flat)) + (1 if fm.result else 0)
            if len(words) != nexp:
                F.append(Finding("value", "import-arity", "core call has %d arguments, expected %d" % (len(words), nexp), "async-import-arity"))
            elif fm.params:
                lm, src = ("mem", words[0]) if fm.params_indirect else ("flat", " ".join(str(w) for w in words[:len(fm.param_flat)]))
                reqs = [("lift", PW, sx(pt), lm, src, r.get("segs", ""))]
                if policy == 2:
                    reqs.append(("lift", PW, sx(pt), lm, src, ra.get("snap2", "")))
                ans = o.ask_many(reqs)
                self._compare(F, "async-import-param", pt, pv, Oracle.r_lift(ans[0]), "async Rust passed %s, the host received %s")
                if policy == 2:
                    got2 = Oracle.r_lift(ans[1])
                    if got2 is None or canon(pt, got2) != canon(pt, pv):
                        d = diff_path(pt, canon(pt, pv), canon(pt, got2)) if got2 is not None else None
                        F.append(Finding("memory", "params-not-kept-alive", "the lowered parameters are no longer intact when the callee starts (STARTING → STARTED): "
                                         "sent %s, at start the host reads %s" % (show(pv), show(got2) if got2 is not None else "TRAP"),
                                         "async-import:params-dead-at-start:" + (class_of_path(d) if d else "trap")))
        nsd = len([t for t in hlog if t.startswith("stdrop:")])
        if nsd != (1 if policy > 0 else 0):
            F.append(Finding("value", "subtask-drop", "subtask handle dropped %d times (policy %d)" % (nsd, policy), "async-import:subtask-drop:%d" % nsd))
        words = [int(x) for x in r["log"].split(",")] if r.get("log") else []
        if fm.result:
            try:
                got = decode(fm.result, words)
                self._compare(F, "async-import-result", fm.result, ret, got, "the host returned %s, async Rust received %s")
            except DecodeError as e:
                F.append(Finding("value", "async-import-result", "observation log does not parse as the result type: %s (sent %s)" % (e, show(ret)), "async-import-result:" + e.klass))
        F += self._mem_findings(evs, "async import call")
        freed = set(e[1] for e in evs if e[0] == "F")
        for (a, s_, al) in given:
            if a not in freed:
                F.append(Finding("memory", "host-buffer-not-taken", "result buffer %d:%d handed to the async import wrapper was not released once the result was dropped" % (s_, al),
                                 "host-buffer-not-taken:async-import-result"))
        live1 = self._parse_live(r)
        self.live = live1
        if live1 != live0:
            leaked = sorted(set(live1) - set(live0))
            gone = sorted(set(live0) - set(live1))
            kind = "leak" if leaked else "over-free"
            F.append(Finding("memory", kind, "after the async import call and dropping its result the guest heap differs: leaked %s, missing %s (policy %d)" % (
                [(s_, a) for _, s_, a in leaked], [(s_, a) for _, s_, a in gone], policy), "%s:async-import" % kind))
        return F, obs

    def cleanup(self, baseline):
        """free whatever is still live beyond `baseline` (after a failed case) so later cases start clean"""
        try:
            self.live = None
            live = self._live()
            extra = [b for b in live if b not in set(baseline)]
            self.g.free(extra)
            self.live = None
        except GuestDied:
            self.live = None


M_CALL_START, M_HOST_ENTER, M_HOST_EXIT, M_CALL_END, M_WALK_END, M_DROP_END = 1, 2, 3, 4, 5, 6
M_IMPL_ENTER, M_IMPL_WALKED, M_IMPL_BUILT, M_POST_START, M_POST_END, M_BUILD_START = 7, 8, 9, 10, 11, 12
M_TASK_RETURN, M_STARTED = 13, 14


# ------------------------------------------------------------------------------------------ WIT from type trees (minimised cases)
class WitEmitter:
    """re-declares structural type trees with fresh names; used to write single-function worlds"""
    def __init__(self):
        self.decls = []
        self.n = 0
        self.memo = {}

    def ty(self, t):
        k = t["k"]
        if k in INTS or k in ("bool", "f32", "f64", "char", "string"):
            return k
        if k == "errctx":
            return "error-context"
        if k == "list":
            return "list<%s>" % self.ty(t["t"])
        if k == "fixed":
            return "list<%s, %d>" % (self.ty(t["t"]), t["n"])
        if k == "map":
            return "map<%s, %s>" % (self.ty(t["key"]), self.ty(t["val"]))
        if k == "option":
            return "option<%s>" % self.ty(t["t"])
        if k == "result":
            a, b = t["ok"], t["err"]
            if not a and not b:
                return "result"
            if not b:
                return "result<%s>" % self.ty(a)
            return "result<%s, %s>" % (self.ty(a) if a else "_", self.ty(b))
        if k == "tuple":
            return "tuple<%s>" % ", ".join(self.ty(x) for x in t["ts"])
        key = sx(t) + "|" + json.dumps([t.get("wit")] + [f.get("wit") for f in t.get("fields", [])] + [c.get("wit") if isinstance(c, dict) else c for c in t.get("cases", [])])
        if key in self.memo:
            return self.memo[key]
        self.n += 1
        if k == "record":
            body = ", ".join("f%d: %s" % (i, self.ty(f["t"])) for i, f in enumerate(t["fields"]))
            name = "r%d" % self.n
            self.decls.append("  record %s { %s }\n" % (name, body))
        elif k == "variant":
            body = ", ".join("c%d%s" % (i, "(%s)" % self.ty(c["t"]) if c["t"] else "") for i, c in enumerate(t["cases"]))
            name = "v%d" % self.n
            self.decls.append("  variant %s { %s }\n" % (name, body))
        elif k == "enum":
            name = "e%d" % self.n
            self.decls.append("  enum %s { %s }\n" % (name, ", ".join("k%d" % i for i in range(len(t["cases"])))))
        elif k == "flags":
            name = "fl%d" % self.n
            self.decls.append("  flags %s { %s }\n" % (name, ", ".join("b%d" % i for i in range(len(t["flags"])))))
        else:
            raise Unsupported("wit: " + k)
        self.memo[key] = name
        return name


def single_function_world(direction, params, result, pkg="m0:p", in_interface=True):
    """WIT text of a world with one function `f` (imported or exported), types re-declared structurally"""
    e = WitEmitter()
    ps = ", ".join("p%d: %s" % (i, e.ty(t)) for i, t in enumerate(params))
    sig = "func(%s)%s" % (ps, " -> %s" % e.ty(result) if result else "")
    if in_interface:
        return "package %s;\ninterface i {\n%s  f: %s;\n}\nworld w {\n  %s i;\n}\n" % (pkg, "".join(e.decls), sig, direction), "w"
    return "package %s;\nworld w {\n%s  %s f: %s;\n}\n" % (pkg, "".join(e.decls), direction, sig), "w"


def subtypes(t):
    """immediate component types (for shrinking)"""
    k = t["k"]
    out = []
    for key in ("t", "key", "val", "ok", "err"):
        if isinstance(t.get(key), dict):
            out.append(t[key])
    out += t.get("ts", [])
    out += [f["t"] for f in t.get("fields", [])]
    if k == "variant":
        out += [c["t"] for c in t["cases"] if c["t"]]
    return out


def type_size(t):
    n = [0]
    walk_types(t, lambda x: n.__setitem__(0, n[0] + 1 + len(x.get("cases", [])) // 8 + len(x.get("flags", [])) // 16 + (x.get("n", 0) if x["k"] == "fixed" else 0)))
    return n[0]


# ------------------------------------------------------------------------------------------ campaign
class Unit:
    """one (world, option set) = one Rust module of a guest crate"""
    def __init__(self, modname, wit, world, opt, origin):
        self.modname, self.wit, self.world, self.opt, self.origin = modname, wit, world, opt, origin
        self.dump = self.src = self.funcs = None
        self.notes = []
        self.skip = None      # reason this unit could not be prepared / built


class Case:
    def __init__(self, unit, fm, args, ret, findings, obs=None, how=None):
        self.unit, self.fm, self.args, self.ret, self.findings, self.obs, self.how = unit, fm, args, ret, findings, obs, how or {}

    def replay_obj(self):
        return {"engine": "genrun-rust", "wit": self.unit.wit, "world": self.unit.world, "options": self.unit.opt.as_dict(),
                "function": self.fm.key(), "args": [show(a) for a in self.args], "ret": show(self.ret) if self.ret is not None else None,
                "how": self.how}


class Tools:
    def __init__(self):
        self.ok, self.log = True, ""
        import genlib
        ok, exe, log = build_witdump()
        self.witdump = install_tool(exe, "witdump") if ok else None
        if not ok:
            self.ok, self.log = False, "witdump: " + log[-2000:]
        ok, exe, log = build_oracle()
        self.oracle_exe = exe
        if not ok:
            self.ok, self.log = False, "oracle: " + log[-2000:]
        ok, exe, log = genlib.build()
        self.genlib = install_tool(exe, "genlib") if ok else None
        if not ok:
            self.ok, self.log = False, "genlib: " + log[-2000:]
        ok, exe, log = vf.cargo_build("corelib")
        self.corelib = exe
        if not ok:
            self.ok, self.log = False, "corelib: " + log[-2000:]


def prepare_units(tools, specs, resources=False, max_src=None):
    """specs: [(modname, wit, world, OptSet, origin)] -> [Unit] (those that cannot be driven carry .skip)"""
    import genlib
    units = [Unit(*s) for s in specs]
    if not units:
        return units
    uniq = {}
    for u in units:
        uniq.setdefault((u.world, u.wit), None)
    keys = list(uniq)
    dumps = dump_worlds(tools.witdump, keys)
    for k, d in zip(keys, dumps):
        uniq[k] = d
    gens = genlib.generate_many([("rust", u.opt.words(u.modname + "_"), u.world, u.wit) for u in units], exe=tools.genlib)
    o = Oracle(tools.oracle_exe)
    try:
        for u, gr in zip(units, gens):
            d = uniq[(u.world, u.wit)]
            if isinstance(d, tuple):
                u.skip = "witdump: " + d[1][:200]
                continue
            u.dump = d
            if gr[0] != "ok":
                u.skip = "generator %s: %s" % (gr[0], gr[1][:200])
                continue
            gsrc = [v for k, v in gr[1].items() if k.endswith(".rs")][0]
            if max_src and len(gsrc) > max_src and u.origin != "corpus":
                u.skip = "too-large (%d bytes of bindings)" % len(gsrc)
                continue
            try:
                u.src, u.funcs, u.notes = make_module(d, u.opt, u.modname, gsrc, o, resources)
            except Unsupported as e:
                u.skip = "unsupported: %s" % e
    finally:
        o.close()
    return units


def build_units(units, ncrates=None, **kw):
    """-> (Workspace, ok, log); units rustc rejects get .skip = 'rustc: …'"""
    live = [u for u in units if not u.skip]
    ws = Workspace({u.modname: u.src for u in live}, ncrates=ncrates, **kw)
    ok, log = ws.build()
    for u in live:
        if u.modname in ws.excluded:
            u.skip = "rustc: " + ws.excluded[u.modname]
    return ws, ok, log


def calls_plan(unit, total):
    fs = unit.funcs
    if not fs:
        return {}
    per = max(2, min(12, total // len(fs)))
    return {fm.idx: per for fm in fs}


def run_units(tools, ws, units, total_calls, seed, wrap=None, env=None, max_fail_per_class=2, workers=None, on_call=None):
    """Runs every live unit; -> (cases with findings, stats dict).  One guest process + one oracle process per crate,
    crates in parallel."""
    import concurrent.futures
    by_crate = {}
    for u in units:
        if u.skip:
            continue
        by_crate.setdefault(ws.crate_of(u.modname), []).append(u)

    def one(crate):
        o = Oracle(tools.oracle_exe)
        g = Guest(ws.exes[crate], wrap=wrap, env=env)
        failing, stats = [], {"units": 0, "functions": 0, "calls": 0, "distinct_sigs": set(), "kinds": {}, "nontrivial": 0, "samples": []}
        try:
            for u in by_crate[crate]:
                R = Runner(o, g)
                rng = vf.Rng(int(hashlib.sha256(("%d|%s" % (seed, getattr(u, "rngkey", None) or u.modname)).encode()).hexdigest()[:15], 16))
                isasync = u.opt.asyncmode == "all"
                plan = calls_plan(u, total_calls)
                stats["units"] += 1
                seen_class = {}
                for fm in u.funcs:
                    # values depend only on (seed, world/options key, function): a crash in one function does not shift the others,
                    # and the sync and async bindings of one world (same rngkey) draw the same values
                    fkey = "%s:%s#%s" % (fm.dir, (fm.iface or "$root").split("/")[-1], fm.name)
                    rng = vf.Rng(int(hashlib.sha256(("%d|%s|%s" % (seed, getattr(u, "rngkey", None) or u.modname, fkey)).encode()).hexdigest()[:15], 16))
                    stats["functions"] += 1
                    sig = "%s|%s|%s->%s" % (fm.dir, u.opt.tag(), " ".join(sx(p) for p in fm.params), sx(fm.result) if fm.result else "_")
                    stats["distinct_sigs"].add(sig)
                    for t in fm.params + ([fm.result] if fm.result else []):
                        for k in kinds_of(t):
                            stats["kinds"][k] = stats["kinds"].get(k, 0) + 1
                    for c in range(plan.get(fm.idx, 0)):
                        args = [gen_value(rng, t) for t in fm.params]
                        ret = gen_value(rng, fm.result) if fm.result else None
                        how = {}
                        try:
                            if not isasync:
                                F, obs = (R.export_call if fm.dir == "export" else R.import_call)(u.modname, fm, args, ret)
                            elif fm.dir == "export":
                                how = {"pauses": c % 3, "cancel": c % 5 == 4}
                                F, obs = R.aexport_call(u.modname, fm, args, ret, npause=how["pauses"], cancel=how["cancel"])
                            else:
                                how = {"policy": c % 3}
                                F, obs = R.aimport_call(u.modname, fm, args, ret, policy=how["policy"])
                        except GuestDied as e:
                            F, obs = [Finding("crash", "guest-died", str(e), "crash:" + fm.dir)], {}
                        stats["calls"] += 1
                        for hk, hv in how.items():
                            stats["kinds"]["async-%s-%s" % (hk, hv)] = stats["kinds"].get("async-%s-%s" % (hk, hv), 0) + 1
                        if on_call:
                            on_call(u, fm, c, args, ret, F, obs, how)
                        if fm.params or fm.result:
                            stats["nontrivial"] += 1
                        if len(stats["samples"]) < 2 and (fm.params or fm.result) and not F:
                            stats["samples"].append({"module": u.modname, "options": u.opt.tag(), "function": fm.key(), "args": [show(a)[:200] for a in args],
                                                     "ret": show(ret)[:200] if ret else None})
                        if F:
                            ks = tuple(sorted(set(f.klass for f in F)))
                            seen_class[ks] = seen_class.get(ks, 0) + 1
                            if seen_class[ks] <= max_fail_per_class:
                                failing.append(Case(u, fm, args, ret, F, obs, how))
                            R.cleanup([])
                            if any(f.cat == "crash" for f in F):
                                break
                for k, v in R.stats.items():
                    stats[k] = stats.get(k, 0) + v
        finally:
            stats["guest_deaths"] = g.deaths
            g.close()
            o.close()
        return failing, stats
    failing, total = [], {}
    with concurrent.futures.ThreadPoolExecutor(max_workers=workers or vf.NCPU) as ex:
        for f, st in ex.map(one, sorted(by_crate)):
            failing += f
            for k, v in st.items():
                if isinstance(v, set):
                    total.setdefault(k, set()).update(v)
                elif isinstance(v, dict):
                    d = total.setdefault(k, {})
                    for kk, vv in v.items():
                        d[kk] = d.get(kk, 0) + vv
                elif isinstance(v, list):
                    total.setdefault(k, []).extend(v)
                else:
                    total[k] = total.get(k, 0) + v
    return failing, total


# ------------------------------------------------------------------------------------------ world plans
def world_opts(rng, i, features, pkg):
    import witgen
    return witgen.Opts(features=features, max_depth=rng.choice([2, 2, 3]), n_ifaces=(1, 2), n_types=(0, 4), n_funcs=(1, 3), max_params=4,
                       big_sigs=rng.chance(1, 4), package=pkg)


def gen_worlds(tools, seed, n, features, tag):
    """n worlds the real wit-parser accepts, drawn from lib/witgen.py; package names <tag><i>:p keep export symbols apart"""
    import witgen
    rng = vf.Rng(seed)
    out = []
    tries = 0
    while len(out) < n and tries < 6:
        tries += 1
        batch = []
        for _ in range(n - len(out) + 4):
            i = len(out) + len(batch) + 100 * tries
            batch.append(witgen.gen_world(rng.fork(i), world_opts(rng, i, features, "%s%d:p" % (tag, i))))
        res = vf.run_filter([tools.corelib, "parse"], [witgen.encode_line(w.text) for w in batch])
        for w, r in zip(batch, res):
            if r.startswith("ok") and len(out) < n:
                out.append(w)
    return out


def pick_worlds(tools, seed, n, features, tag, max_src):
    """n worlds whose default-option bindings generate, stay below max_src bytes and hold at least one function"""
    import genlib
    cands = gen_worlds(tools, seed, n + n // 2 + 3, features, tag)
    gens = genlib.generate_many([("rust", "--generate-all", w.world, w.text) for w in cands], exe=tools.genlib)
    out = []
    for w, g_ in zip(cands, gens):
        if g_[0] != "ok" or not w.meta["funcs"]:
            continue
        src = [v for k, v in g_[1].items() if k.endswith(".rs")][0]
        if len(src) <= max_src and len(out) < n:
            out.append(w)
    return out


def optset_schedule(rng, nworlds, per_world):
    """per world a list of option sets; all 32 appear as early as possible (a seeded permutation, cyclic)"""
    alls = all_optsets()
    perm = list(range(len(alls)))
    for i in range(len(perm) - 1, 0, -1):
        j = rng.below(i + 1)
        perm[i], perm[j] = perm[j], perm[i]
    out = []
    for w in range(nworlds):
        out.append([alls[perm[(w * per_world + k) % len(perm)]] for k in range(per_world)])
    return out


# ------------------------------------------------------------------------------------------ minimisation / replay
def run_single(tools, wit, world, opt, fkey, calls, seed, fixed_case=None, resources=False, modname="m0o0", how=None, **kw):
    """Build one (world, option set) and call function `fkey` (`dir:iface#name`) `calls` times with random values, or once
    with fixed_case = (args, ret).  -> (list of Case with findings, unit)"""
    units = prepare_units(tools, [(modname, wit, world, opt, "single")], resources=resources)
    u = units[0]
    if u.skip:
        return None, u
    ws, ok, log = build_units(units, ncrates=1, **kw)
    if not ok or u.skip:
        u.skip = u.skip or ("build failed: " + log[-1500:])
        return None, u
    o = Oracle(tools.oracle_exe)
    g = Guest(ws.exes[ws.crate_of(modname)])
    out = []
    try:
        R = Runner(o, g)
        rng = vf.Rng(seed)
        for fm in u.funcs:
            if fkey and fm.key() != fkey:
                continue
            todo = [fixed_case] if fixed_case else [None] * calls
            for fc in todo:
                args, ret = fc if fc else ([gen_value(rng, t) for t in fm.params], gen_value(rng, fm.result) if fm.result else None)
                try:
                    if opt.asyncmode != "all":
                        F, obs = (R.export_call if fm.dir == "export" else R.import_call)(modname, fm, args, ret)
                    elif fm.dir == "export":
                        F, obs = R.aexport_call(modname, fm, args, ret, npause=(how or {}).get("pauses", 1), cancel=(how or {}).get("cancel", False))
                    else:
                        F, obs = R.aimport_call(modname, fm, args, ret, policy=(how or {}).get("policy", 2))
                except GuestDied as e:
                    F, obs = [Finding("crash", "guest-died", str(e), "crash:" + fm.dir)], {}
                if F:
                    out.append(Case(u, fm, args, ret, F, obs))
                    R.cleanup([])
    finally:
        g.close()
        o.close()
    return out, u


def minimize(tools, case, klass, seed, rounds=3, calls=24, log=None, build_kw=None):
    """Shrink the failing case to a single-function world whose types are as small as we can make them while a finding of
    class `klass` still shows.  Every round builds all candidates as modules of one workspace (in parallel)."""
    fm, opt = case.fm, case.unit.opt
    best = None   # (size, direction, params, result)
    cur = (fm.dir, list(fm.params), fm.result)

    def cands_of(c):
        d, ps, r = c
        out = []
        # drop parameters / the result
        for i in range(len(ps)):
            out.append((d, [ps[i]], None))
            out.append((d, ps[:i] + ps[i + 1:], r))
        if r is not None:
            out.append((d, [], r))
        # replace one parameter / the result by any of its descendants, or simplify it in place
        def variants(t):
            vs = []
            seen_ = set()

            def rec(x):
                for s_ in subtypes(x):
                    if sx(s_) not in seen_:
                        seen_.add(sx(s_))
                        vs.append(s_)
                        rec(s_)
            rec(t)
            if t["k"] == "fixed":
                for e_ in [t["t"]] + vs:
                    for n_ in sorted(set([1, 2, t["n"] // 2, 9, 17, t["n"]])):
                        if n_ >= 1 and (n_ < t["n"] or sx(e_) != sx(t["t"])) and e_["k"] != "fixed":
                            vs.append({"k": "fixed", "t": e_, "n": n_})
            if t["k"] in ("list", "option"):
                for e_ in vs[:]:
                    vs.append({"k": t["k"], "t": e_})
            if t["k"] == "tuple":
                for e_ in t["ts"]:
                    vs.append({"k": "tuple", "ts": [e_]})
            return vs
        for i, p in enumerate(ps):
            for s_ in variants(p):
                out.append((d, ps[:i] + [s_] + ps[i + 1:], r))
        if r is not None:
            for s_ in variants(r):
                out.append((d, ps, s_))
        uniq, seen = [], set()
        for c_ in out:
            k_ = (c_[0], tuple(sx(p) for p in c_[1]), sx(c_[2]) if c_[2] else None)
            if k_ not in seen and (c_[1] or c_[2]):
                seen.add(k_)
                uniq.append(c_)
        return uniq

    def size(c):
        return sum(type_size(p) for p in c[1]) + (type_size(c[2]) if c[2] else 0)

    def try_batch(cs, rnd):
        specs, metas = [], []
        for i, c in enumerate(cs):
            try:
                wit, world = single_function_world(c[0], c[1], c[2], pkg="m%dx%d:p" % (rnd, i))
            except Unsupported:
                continue
            specs.append(("m%dx%d" % (rnd, i), wit, world, opt, "shrink"))
            metas.append(c)
        units = prepare_units(tools, specs)
        ws, ok, blog = build_units(units, **(build_kw or {}))
        if not ok:
            return []
        failing, _ = run_units(tools, ws, units, calls, seed, max_fail_per_class=1)
        res = []
        for cs_ in failing:
            if any(f.klass == klass for f in cs_.findings):
                idx = [u.modname for u in units].index(cs_.unit.modname)
                res.append((metas[idx], cs_))
        return res
    # round 0: the function alone
    got = try_batch([cur], 0)
    if not got:
        return None
    best = got[0]
    for rnd in range(1, rounds + 1):
        cs = [c_ for c_ in sorted(cands_of(best[0]), key=size) if size(c_) < size(best[0])][:32]
        if not cs:
            break
        got = try_batch(cs, rnd)
        if not got:
            break
        got.sort(key=lambda x: size(x[0]))
        if size(got[0][0]) >= size(best[0]):
            break
        best = got[0]
        if log:
            log("minimize round %d: %s" % (rnd, best[1].replay_obj()["wit"].replace("\n", " ")))
    return best[1]
