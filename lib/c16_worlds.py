"""C16/C15 world sources (work package det-nopanic).

  directed_worlds()   a deterministic family of small worlds that puts EVERY type constructor in EVERY position
                      (parameter, result, record field, variant payload, alias, nested payload, world-level type and
                      function, resource method / constructor / static, import and export side, sync and async).
                      Invalid combinations (e.g. a borrow in a result) are removed by the caller with `detnp valid`.
  random_opts(rng,i)  witgen options cycling through feature subsets so that every feature is on in about half of the
                      worlds and all-on / all-off worlds both occur.
  coverage(sexpr)     (position, constructor) pairs exercised by a world, computed from the `detnp mddump` s-expression of
                      the REAL Resolve (not from the generator's intent).
"""
import re
import witgen

PRIMS = ["bool", "u8", "s8", "u16", "s16", "u32", "s32", "u64", "s64", "f32", "f64", "char", "string"]

# (constructor tag, WIT type expression, features needed, needs the local resource `r`, param-only)
CTORS = [(p, p, (), False, False) for p in PRIMS] + [
    ("error-context", "error-context", ("errctx",), False, False),
    ("list", "list<u32>", (), False, False),
    ("list-string", "list<string>", (), False, False),
    ("fixed", "list<u8, 4>", ("fixed",), False, False),
    ("fixed-string", "list<string, 2>", ("fixed",), False, False),
    ("map", "map<string, u32>", ("maps",), False, False),
    ("option", "option<string>", (), False, False),
    ("result-both", "result<u32, string>", (), False, False),
    ("result-ok", "result<u32>", (), False, False),
    ("result-err", "result<_, string>", (), False, False),
    ("result-none", "result", (), False, False),
    ("tuple", "tuple<u8, string>", (), False, False),
    ("future", "future<u32>", ("futures",), False, False),
    ("future-unit", "future", ("futures",), False, False),
    ("stream", "stream<u8>", ("streams",), False, False),
    ("stream-unit", "stream", ("streams",), False, False),
    ("own", "own<r>", ("resources",), True, False),
    ("resource-name", "r", ("resources",), True, False),
    ("borrow", "borrow<r>", ("resources",), True, True),
    ("record", "rec", (), False, False),
    ("variant", "var", (), False, False),
    ("enum", "en", (), False, False),
    ("flags", "fl", (), False, False),
    ("alias", "ali", (), False, False),
]

NAMED_DEFS = """  record rec { a: u32, b: string }
  variant var { x, y(string), z(u64) }
  enum en { p, q }
  flags fl { f0, f1, f2 }
  type ali = list<string>;
"""

WRAPS = [("bare", "%s"), ("in-list", "list<%s>"), ("in-option", "option<%s>"), ("in-tuple", "tuple<u8, %s>"),
         ("in-result-ok", "result<%s, u8>"), ("in-result-err", "result<u8, %s>")]


def _iface(body, res):
    return "interface i {\n" + ("  resource r;\n" if res else "") + NAMED_DEFS + body + "}\n"


def directed_worlds():
    out = []

    def add(tag, text):
        out.append(("d:" + tag, "package t:p;\n" + text))

    for tag, ty, feats, res, ponly in CTORS:
        for wtag, wrap in WRAPS:
            t = wrap % ty
            for side in ("import", "export"):
                w = "world w { %s i; }\n" % side
                add("%s/%s/param/%s" % (tag, wtag, side), _iface("  f: func(x: %s);\n" % t, res) + w)
                if not ponly:
                    add("%s/%s/result/%s" % (tag, wtag, side), _iface("  f: func() -> %s;\n" % t, res) + w)
        for side in ("import", "export"):
            w = "world w { %s i; }\n" % side
            use = "  g: func(x: t) -> u8;\n" if ponly else "  g: func(x: t) -> t;\n"
            add("%s/alias/%s" % (tag, side), _iface("  type t = %s;\n%s" % (ty, use), res) + w)
            add("%s/alias-unused/%s" % (tag, side), _iface("  type t = %s;\n" % ty, res) + w)
            add("%s/record-field/%s" % (tag, side), _iface("  record t { a: u8, b: %s }\n%s" % (ty, use), res) + w)
            add("%s/variant-payload/%s" % (tag, side), _iface("  variant t { n, c(%s) }\n%s" % (ty, use), res) + w)
            add("%s/many-params/%s" % (tag, side),
                _iface("  f: func(a: u64, b: string, c: %s, d: f32, e: list<u8>, g: u8, h: u8, i: u8, j: u8, k: u8, l: u8, m: u8, n: u8, o: u8, p: u8, q: u8, s: u8);\n" % ty, res) + w)
            if not ponly:
                add("%s/async-func/%s" % (tag, side), _iface("  f: async func(x: %s) -> %s;\n" % (ty, ty), res) + w)
                add("%s/method/%s" % (tag, side),
                    "interface i {\n  resource r {\n    constructor(x: %s);\n    m: func(x: %s) -> %s;\n    s: static func(x: %s) -> %s;\n  }\n%s}\n%s"
                    % (ty, ty, ty, ty, ty, NAMED_DEFS, w))
        # world-level: type and freestanding functions (types used by world functions must be world-level or `use`d)
        if not res and ty not in ("rec", "var", "en", "fl", "ali"):
            for side in ("import", "export"):
                add("%s/world-func/%s" % (tag, side), "world w {\n  %s f: func(x: %s)%s;\n}\n" % (side, ty, "" if ponly else " -> %s" % ty))
            add("%s/world-type" % tag, "world w {\n  type t = %s;\n  record wr { a: %s }\n  import f: func(x: t) -> wr;\n  export g: func(x: wr) -> t;\n}\n" % (ty, ty))
        else:
            add("%s/world-use" % tag, _iface("  type t = %s;\n" % ty, res) +
                "world w {\n  use i.{t};\n  import f: func(x: t)%s;\n  export g: func(x: t)%s;\n}\n" % (("", "") if ponly else (" -> t", " -> t")))
    # both directions of the same interface, and the three handle-alias spellings
    add("both/resources", "interface i {\n  resource r { constructor(); m: func(o: borrow<r>) -> own<r>; }\n  f: func(x: list<r>) -> option<r>;\n}\nworld w { import i; export i; }\n")
    add("handle-alias/own", "interface i {\n  resource r;\n  type t = own<r>;\n  f: func(x: t);\n}\nworld w { import i; }\n")
    add("handle-alias/borrow", "interface i {\n  resource r;\n  type t = borrow<r>;\n  f: func(x: t);\n}\nworld w { import i; }\n")
    add("handle-alias/export", "interface i {\n  resource r;\n  type t = own<r>;\n  f: func() -> t;\n}\nworld w { export i; }\n")
    out += multiversion_worlds()
    return out


# version pairs of ONE package that wit-parser keeps apart as distinct packages: they differ only in build metadata, only in
# the pre-release tag, pre-release vs release, in patch / minor / major, in both tag kinds, or versioned vs unversioned
VERSION_SETS = [
    ("build-only", ["1.0.0+linux", "1.0.0+wasi"]),
    ("build-vs-none", ["1.0.0", "1.0.0+b1"]),
    ("prerelease-only", ["1.0.0-rc.1", "1.0.0-rc.2"]),
    ("prerelease-vs-release", ["1.0.0-rc.1", "1.0.0"]),
    ("prerelease-vs-build", ["1.0.0-rc.1", "1.0.0+rc.1"]),
    ("prerelease-and-build", ["1.0.0-a.b+x", "1.0.0-a-b+y"]),
    ("patch", ["1.0.0", "1.0.1"]),
    ("minor", ["0.2.0", "0.3.0"]),
    ("major", ["1.0.0", "2.0.0"]),
    ("digits", ["10.0.0", "1.0.0"]),
    ("three", ["1.0.0+a", "1.0.0+b", "1.0.1"]),
    ("unversioned-vs-versioned", [None, "1.0.0"]),
]

MV_BODIES = [
    # (tag, interface body for version k (k = 0, 1, …): same interface, function and type NAMES in every version)
    ("func-type", lambda k: "    type foo = %s;\n    x: func()%s;\n" % (["u8", "u16", "u32"][k], "" if k == 0 else " -> foo")),
    ("same-sig", lambda k: "    record foo { a: u32, b: string }\n    x: func(p: foo) -> foo;\n    y: func(l: list<foo>) -> option<string>;\n"),
    ("enum-variant", lambda k: "    enum e { p, q }\n    variant foo { n, c(e), s(string) }\n    x: func(p: foo) -> e;\n"),
    ("resource", lambda k: "    resource foo {\n      constructor(a: u32);\n      m: func() -> string;\n      s: static func(b: borrow<foo>) -> foo;\n    }\n    x: func(p: foo) -> foo;\n"),
]


def multiversion_worlds():
    out = []
    for vtag, versions in VERSION_SETS:
        refs = ["my:dep/a" + ("@" + v if v else "") for v in versions]
        for btag, body in MV_BODIES:
            pk = "".join("package my:dep%s {\n  interface a {\n%s  }\n}\n\n" % (("@" + v) if v else "", body(k)) for k, v in enumerate(versions))
            for side, items in (("import", [("import", r) for r in refs]), ("export", [("export", r) for r in refs]),
                                ("both", [("import", r) for r in refs] + [("export", r) for r in refs]),
                                ("split", [("import", refs[0]), ("export", refs[-1])])):
                w = "world foo {\n" + "".join("  %s %s;\n" % it for it in items) + "}\n"
                out.append(("d:multiversion/%s/%s/%s" % (vtag, btag, side), "package foo:bar;\n\n" + pk + w))
        # the same type name `use`d from both versions into one interface and into the world
        pk = "".join("package my:dep%s {\n  interface a {\n    record foo { v: %s }\n    x: func(p: foo) -> foo;\n  }\n}\n\n"
                     % (("@" + v) if v else "", ["u8", "u16", "u32"][k]) for k, v in enumerate(versions))
        uses = "".join("  use %s.{foo as foo%d};\n" % (r, k) for k, r in enumerate(refs))
        sig = ", ".join("p%d: foo%d" % (k, k) for k in range(len(refs)))
        out.append(("d:multiversion/%s/use-into-interface" % vtag, "package foo:bar;\n\n" + pk +
                    "interface i {\n" + uses.replace("  use", "  use") + "  f: func(%s) -> foo0;\n}\n\nworld foo {\n  import i;\n  export i;\n}\n" % sig))
        out.append(("d:multiversion/%s/use-into-world" % vtag, "package foo:bar;\n\n" + pk +
                    "world foo {\n" + uses + "  import f: func(%s) -> foo0;\n  export g: func(%s) -> foo%d;\n}\n" % (sig, sig, len(refs) - 1)))
    return out


def random_opts(rng, i):
    k = i % 8
    if k == 0:
        feats = list(witgen.ALL_FEATURES)
    elif k == 1:
        feats = []
    else:
        feats = [f for f in witgen.ALL_FEATURES if rng.chance(1, 2)]
    return witgen.Opts(features=feats, docs=rng.chance(1, 3), adversarial=rng.chance(1, 3), big_sigs=rng.chance(1, 4),
                       inline_ifaces=True, max_depth=rng.choice([2, 3, 3, 4]))


# ------------------------------------------------------------------------------------------ coverage from the real Resolve
def parse_sexpr(s):
    toks = re.findall(r"\(|\)|[^\s()]+", s)
    pos = 0

    def one():
        nonlocal pos
        t = toks[pos]; pos += 1
        if t == "(":
            l = []
            while toks[pos] != ")":
                l.append(one())
            pos += 1
            return l
        return t
    return one()


def _ctor(x):
    """constructor tag of a type/kind node and its children"""
    if isinstance(x, str):
        return (x if x != "N" else "named-ref"), []
    if x[0] == "A":
        return _ctor(x[1])
    head = x[0]
    kids = [c for c in x[1:] if c != "_" and not (isinstance(c, str) and c.isdigit())]
    return head, kids


def coverage(sexpr):
    """set of 'position:constructor'"""
    cov = set()
    w = parse_sexpr(sexpr)

    def walk(x, pos, depth):
        c, kids = _ctor(x)
        cov.add("%s:%s" % (pos if depth == 0 else "nested", c))
        for k in kids:
            walk(k, pos, depth + 1)

    def func(f, where):
        for p in f[1]:
            walk(p, where + "-param", 0)
        if f[2] != "_":
            walk(f[2], where + "-result", 0)

    def tdef(d, where):
        c, kids = _ctor(d[2])
        cov.add("%s:%s" % (where, c))
        for k in kids:
            walk(k, where + "-body", 0)
    for side, items in (("import", w[1][1:]), ("export", w[2][1:])):
        for it in items:
            if it[0] == "iface":
                for d in it[1][1:]:
                    tdef(d, side + "-iface-typedef")
                for f in it[2][1:]:
                    func(f, side + "-iface-func")
            elif it[0] == "func":
                func(it, side + "-world-func")
            elif it[0] == "def":
                tdef(it, "world-type")
    return cov


def determinism_worlds():
    """Worlds aimed at the hash-iteration sites of corpus/C15-sites.txt: several entries in each hash collection."""
    P = "package t:p;\n"
    return [
        ("det:moonbit-builtins-import", P + "world w {\n  import f: func(x: u32) -> string;\n  export g: func();\n}\n"),
        ("det:moonbit-exports", P + "interface i {\n  f: func(x: string) -> string;\n  g: func(x: list<u8>) -> list<string>;\n}\nworld w {\n  export i;\n  export h: func(x: string) -> string;\n  export k: func();\n}\n"),
        ("det:moonbit-iface-builtins", P + "interface i {\n  record r { a: string, b: list<u32> }\n  f: func(x: r) -> r;\n  g: func(x: option<string>) -> result<string, string>;\n}\nworld w {\n  import i;\n  export i;\n}\n"),
        ("det:moonbit-pkg-imports", P + "interface a { record r { x: u32 } }\ninterface b { use a.{r}; record s { y: r } }\ninterface c { use a.{r}; use b.{s}; f: func(x: r, y: s) -> s; }\nworld w {\n  import c;\n  export c;\n}\n"),
        ("det:csharp-world-enums", P + "world w {\n  enum e1 { a, b }\n  enum e2 { c, d }\n  enum e3 { x, y }\n  import f: func(x: e1, y: e2) -> e3;\n}\n"),
        ("det:csharp-resources-import", P + "interface i {\n  resource r1;\n  resource r2;\n  resource r3;\n  f: func(x: borrow<r1>);\n}\nworld w {\n  import i;\n}\n"),
        ("det:csharp-resources-export", P + "interface i {\n  resource r1;\n  resource r2;\n  resource r3;\n  f: func(x: borrow<r1>);\n}\nworld w {\n  export i;\n}\n"),
        ("det:world-use-resources", P + "interface i {\n  resource r1;\n  resource r2;\n  resource r3;\n}\nworld w {\n  use i.{r1, r2, r3};\n  import f: func(x: borrow<r1>, y: borrow<r2>) -> own<r3>;\n}\n"),
        ("det:equal-types", P + "interface i {\n  record a { x: u32, y: string }\n  record b { x: u32, y: string }\n  record c { x: u32, y: string }\n  f: func(p: a) -> b;\n  g: func(p: list<c>) -> option<a>;\n}\nworld w {\n  import i;\n  export i;\n}\n"),
        ("det:futures-streams", P + "interface i {\n  f: func(x: future<u32>, y: stream<u8>) -> future<string>;\n  g: func(x: stream<string>) -> stream<list<u8>>;\n  h: async func(x: future<future<u32>>) -> stream<u32>;\n}\nworld w {\n  import i;\n  export i;\n}\n"),
        ("det:many-tuples", P + "interface i {\n  f: func(a: tuple<u8>, b: tuple<u8, u8>, c: tuple<u8, u8, u8>, d: tuple<u8, u8, u8, u8>) -> tuple<string, string, string, string, string>;\n}\nworld w {\n  import i;\n  export i;\n}\n"),
        ("det:multi-iface-resources", P + "interface a { resource ra { constructor(); m: func(); } }\ninterface b { use a.{ra}; resource rb { constructor(x: borrow<ra>); } }\ninterface c { use a.{ra}; use b.{rb}; f: func(x: own<ra>) -> own<rb>; }\nworld w {\n  import a;\n  import b;\n  import c;\n  export c;\n}\n"),
    ]
