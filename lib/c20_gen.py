"""C20 — scenario generator, parser of driver output lines, and the property's predicates evaluated
on REAL output lines of harness/crates/rtmock/src/bin/futures.rs.

A scenario line: `v1|v2 ACTION…` (action words documented in futures.rs / Async/FutureOp.v)."""

DEFAULT_VAL = 777
BLOCKED = 4294967295
MISUSE_PANICS = ("cannot_re-poll_after_operation_completes", "cannot_cancel_operation_after_completing_it")


def cleanup(n):
    """Same list as FutureOp.cleanup n."""
    out = []
    for f in range(n):
        out += ["Wd:%d" % f, "Dw:%d" % f, "Rd:%d" % f, "Dr:%d" % f]
    out += ["Pr:%d" % f for f in range(n)]
    for f in range(n):
        out += ["E:%dw" % f, "E:%dr" % f]
    out += ["Pd:%d" % f for f in range(n)]
    for f in range(n):
        out += ["E:%dw" % f, "E:%dr" % f]
    return out


class _Track:
    """Rough guess of what the user holds (only to bias the generator towards applicable actions;
    the driver and the model both skip an inapplicable action, so being wrong is harmless)."""
    def __init__(self, imported):
        self.imported = imported
        self.writer = not imported
        self.write = None      # None | 'start' | 'prog' | 'fin'
        self.reader = True
        self.read = None
        self.rloc = "guest"    # guest | peer | gone
        self.pw = False


def gen_case(rng, misuse=False, max_futs=3, with_cleanup=None):
    """Returns the scenario line.  `misuse`: allow polling / cancelling an operation that is known to be finished."""
    ver = "v2" if rng.chance(3, 4) else "v1"
    acts = []
    futs = []
    nextval = [0]

    def val():
        nextval[0] += 1
        return nextval[0]

    def new():
        imp = rng.chance(1, 5)
        kind = "h" if rng.chance(2, 3) else "u"
        acts.append(("I:" if imp else "N:") + kind)
        futs.append(_Track(imp))

    def do(op, f):
        t = futs[f]
        if op == "W":
            acts.append("W:%d:%d" % (f, val()))
            if t.writer and t.write is None:
                t.writer = False; t.write = "start"
        elif op == "Wp":
            acts.append("Wp:%d" % f)
            if t.write in ("start", "prog"):
                # a poll may complete the write; guess "still in progress" unless the reader is known gone
                t.write = "fin" if (t.rloc == "gone" and not misuse) else "prog"
        elif op == "Wc":
            acts.append("Wc:%d" % f)
            if t.write is not None:
                t.write = "fin"
                t.writer = True   # guess: cancelled and handed back
        elif op == "Wd":
            acts.append("Wd:%d" % f)
            t.write = None
        elif op == "Dw":
            acts.append("Dw:%d" % f)
            t.writer = False
        elif op == "R":
            acts.append("R:%d" % f)
            if t.reader and t.read is None:
                t.reader = False; t.read = "start"
        elif op == "Rp":
            acts.append("Rp:%d" % f)
            if t.read in ("start", "prog"):
                t.read = "prog"
        elif op == "Rc":
            acts.append("Rc:%d" % f)
            if t.read is not None:
                t.read = "fin"; t.reader = True
        elif op == "Rd":
            acts.append("Rd:%d" % f)
            t.read = None
        elif op == "Dr":
            acts.append("Dr:%d" % f)
            if t.reader:
                t.reader = False; t.rloc = "gone"
        elif op == "T":
            acts.append("T:%d" % f)
            if t.reader:
                t.reader = False; t.rloc = "peer"
        elif op == "Pr":
            acts.append("Pr:%d" % f)
        elif op == "Pd":
            acts.append("Pd:%d" % f)
            if t.rloc == "peer":
                t.rloc = "gone"
        elif op == "Pw":
            acts.append("Pw:%d:%d" % (f, val()))
            t.pw = True
        elif op == "Ew":
            acts.append("E:%dw" % f)
        elif op == "Er":
            acts.append("E:%dr" % f)

    def pattern(f):
        """A scripted race: an operation is in flight, the other side moves, then cancel / drop / poll
        with or without the event having been delivered."""
        t = futs[f]
        ops = []
        if not t.imported and t.writer and t.write is None and rng.chance(2, 3):
            ops += ["W", "Wp"]
            if t.rloc == "guest" and t.reader and t.read is None:
                ops += rng.choice([["T", "Pr"], ["T", "Pd"], ["R", "Rp"], ["Dr"], ["T"], []])
            elif t.rloc == "peer":
                ops += rng.choice([["Pr"], ["Pd"], []])
            if rng.chance(1, 3):
                ops += ["Ew"]
            ops += [rng.choice(["Wc", "Wc", "Wd", "Wp"])]
        elif t.reader and t.read is None and t.rloc == "guest":
            ops += ["R", "Rp"]
            if t.imported and not t.pw:
                ops += rng.choice([["Pw"], []])
            elif t.writer and t.write is None:
                ops += rng.choice([["W", "Wp"], ["Dw"], []])
            if rng.chance(1, 3):
                ops += ["Er"]
            ops += [rng.choice(["Rc", "Rc", "Rd", "Rp"])]
        for op in ops:
            do(op, f)
        return bool(ops)

    new()
    n = rng.range(3, 22)
    for _ in range(n):
        if len(futs) < max_futs and rng.chance(1, 9):
            new()
            continue
        f = rng.below(len(futs))
        t = futs[f]
        if rng.chance(1, 6) and pattern(f):
            continue
        cands = []
        if t.writer and t.write is None:
            cands += [("W", 6), ("Dw", 2)]
        if t.write in ("start", "prog"):
            cands += [("Wp", 6), ("Wc", 2), ("Wd", 2)]
        if t.write == "fin":
            cands += [("Wd", 5)]
            if misuse:
                cands += [("Wp", 2), ("Wc", 2)]
        if t.reader and t.read is None:
            cands += [("R", 5), ("Dr", 1), ("T", 4)]
        if t.read in ("start", "prog"):
            cands += [("Rp", 6), ("Rc", 2), ("Rd", 2)]
        if t.read == "fin":
            cands += [("Rd", 5)]
            if misuse:
                cands += [("Rp", 2), ("Rc", 2)]
        if t.rloc == "peer":
            cands += [("Pr", 4), ("Pd", 2)]
        if t.imported and not t.pw:
            cands += [("Pw", 5)]
        cands += [("Ew", 4), ("Er", 3)]
        if rng.chance(1, 12):
            op = rng.choice(["W", "Wp", "Wc", "Wd", "Dw", "R", "Rp", "Rc", "Rd", "Dr", "T", "Pr", "Pd", "Pw", "Ew", "Er"])
            if not misuse and ((op in ("Wp", "Wc") and t.write == "fin") or (op in ("Rp", "Rc") and t.read == "fin")):
                op = "Ew"
        else:
            op = rng.weighted(cands)
        do(op, f)
    if with_cleanup is None:
        with_cleanup = rng.chance(9, 10)
    if with_cleanup:
        acts += cleanup(len(futs))
    return ver + " " + " ".join(acts)


def cut_at_panic(case, out):
    """The scenario up to (not including) the action on which the REAL driver panicked (used to keep the
    main stream free of API misuse); the case itself if it did not panic."""
    if "=PANIC:" not in out:
        return case
    k = 0
    for t in out.split(" | ")[0].split():
        if t.startswith(">"):
            k += 1
        if t.startswith("=PANIC:"):
            break
    w = case.split()
    return " ".join(w[:k])      # w[0] is the version word, actions 1..k-1 precede the panicking one


def has_cleanup(case):
    acts = case.split()[1:]
    n = sum(1 for a in acts if a[:2] in ("N:", "I:"))
    c = cleanup(n)
    return n > 0 and acts[-len(c):] == c


def with_cleanup(case):
    """The case followed by the clean-up suffix (unless it already ends with it)."""
    if has_cleanup(case):
        return case
    acts = case.split()
    n = sum(1 for a in acts[1:] if a[:2] in ("N:", "I:"))
    return " ".join(acts + cleanup(n))


# ------------------------------------------------------------------------------------------------
def parse(out):
    """-> (segments, summary dict).  segment = (action, [tokens…], outcome or None)."""
    if " | " not in out:
        return None, None
    body, summ = out.rsplit(" | ", 1)
    segs = []
    for t in body.split():
        if t.startswith(">"):
            segs.append([t[1:], [], None])
        elif not segs:
            return None, None
        elif t.startswith("="):
            segs[-1][2] = t[1:]
            segs[-1][1].append(t)
        else:
            segs[-1][1].append(t)
    sm = {}
    for t in summ.split():
        if "=" in t:
            k, v = t.split("=", 1)
            sm[k] = v
        else:
            sm[t] = True
    return segs, sm


def holds(case, out):
    """C20's statement on one REAL output line.  Returns a list of (rule, description); empty = holds."""
    bad = []
    if out.startswith("ABORT") or out.startswith("PANIC") or out == "BAD-INPUT":
        return [("abort", "driver died / uncaught panic: %s" % out[:200])]
    segs, sm = parse(out)
    if segs is None:
        return [("unparsable", out[:200])]
    acts = case.split()[1:]
    # ---- per-future bookkeeping from the REAL tokens
    F = []   # per future dict

    def fut(i):
        return F[i] if 0 <= i < len(F) else None

    for (a, toks, outc) in segs:
        p = a.split(":")
        op = p[0]
        for t in toks:
            if t.startswith("TRAP:"):
                bad.append(("trap:" + t[5:], "host trap %s during %s" % (t, a)))
            if t.startswith("BUG:") or t.startswith("dealloc-bad") or t == "area-?":
                bad.append(("ledger:" + t.split(":")[0], "%s during %s" % (t, a)))
        if outc is not None and outc.startswith("PANIC:"):
            msg = outc[6:]
            f = fut(int(p[1])) if len(p) > 1 and p[1].isdigit() else None
            legit = msg in MISUSE_PANICS and f is not None and (
                (op in ("Wp", "Wc") and f["wfin"]) or (op in ("Rp", "Rc") and f["rfin"]))
            if not legit:
                bad.append(("panic:" + msg, "runtime panic %r on %s which is a legal use of the API" % (msg, a)))
            continue
        if op in ("N", "I"):
            F.append({"imp": op == "I", "wvals": [], "cur": None, "wstate": None, "wfin": False, "rfin": False,
                      "recv": [], "okv": [], "dropw": 0, "dropr": 0, "taker": 0, "pd_by_user": False,
                      "wcode": None, "saw": [], "deferred": None, "pw": None, "user_ok": False})
            continue
        if op == "E":
            fi = int(p[1][:-1]); end = p[1][-1]
        else:
            fi = int(p[1]) if len(p) > 1 and p[1].isdigit() else -1
        f = fut(fi)
        if f is None or outc == "skip":
            continue
        sym_w, sym_r = "%dw" % fi, "%dr" % fi
        # host codes observed by the writing side in this action, in order
        for t in toks:
            if t.startswith("fwrite:" + sym_w + "="):
                c = int(t.split("=")[1]); f["saw"].append(("write", c)); f["wcode"] = c
                f["inflight"] = f.get("lowered")
            elif t.startswith("tdeliver:" + sym_w + ":"):
                c = int(t.split(":")[2]); f["saw"].append(("deliver", c)); f["wcode"] = c
            elif t.startswith("fcancelw:" + sym_w + "="):
                c = int(t.split("=")[1]); f["saw"].append(("cancel", c)); f["wcode"] = c
            elif t.startswith("lower:"):
                f["lowered"] = int(t[6:])
            elif t == "fdropw:" + sym_w:
                f["dropw"] += 1
                # the writable end goes away: it must have delivered (code 0) or seen the reader gone (code 1)
                if f["wcode"] not in (0, 1):
                    bad.append(("stranded-writer", "future %d: writable end dropped after host code %r (never delivered a value, never saw the reader gone) in %s" % (fi, f["wcode"], a)))
                if f["wcode"] == 0:
                    f["okv"].append(f.get("inflight"))
            elif t == "fdropr:" + sym_r:
                f["dropr"] += 1
            elif t == "take:" + sym_r:
                f["taker"] += 1
            elif t.startswith("lift:"):
                f["recv"].append(int(t[5:]))
            elif t == "default":
                f["wvals"].append(DEFAULT_VAL)
        if op == "W" and outc == "ok":
            f["cur"] = int(p[2]); f["wvals"].append(f["cur"]); f["wstate"] = "start"; f["wfin"] = False
        elif op == "Wp":
            if outc == "Pending":
                f["wstate"] = "prog"
            else:
                f["wfin"] = True
                if outc == "Ok":
                    f["user_ok"] = True
                    if f["wcode"] != 0:
                        bad.append(("write-result", "future %d: write reported Ok but the host's code was %r" % (fi, f["wcode"])))
                elif outc.startswith("Err:"):
                    if f["wcode"] != 1:
                        bad.append(("write-result", "future %d: write reported Err but the host's code was %r" % (fi, f["wcode"])))
                    if int(outc[4:]) != f["cur"]:
                        bad.append(("value-lost", "future %d: write error hands back %s, written %s" % (fi, outc[4:], f["cur"])))
        elif op == "Wc":
            f["wfin"] = True
            was_start = f["wstate"] == "start"
            code = None if was_start else f["wcode"]
            exp = {None: "Cancelled", 0: "AlreadySent", 1: "Dropped", 2: "Cancelled"}.get(code, "?")
            got = outc.split(":")[0]
            if got != exp:
                bad.append(("cancel-outcome", "future %d: cancel returned %s but the host's code was %r (expected %s)" % (fi, outc, code, exp)))
            if got in ("Dropped", "Cancelled") and int(outc.split(":")[1]) != f["cur"]:
                bad.append(("value-lost", "future %d: cancel hands back %s, written %s" % (fi, outc, f["cur"])))
            if got == "AlreadySent":
                f["user_ok"] = True
            f["wstate"] = None
        elif op == "Wd":
            f["wstate"] = None; f["wfin"] = False
        elif op == "R" and outc == "ok":
            f["rfin"] = False
        elif op == "Rp":
            if outc != "Pending":
                f["rfin"] = True
        elif op == "Rc":
            f["rfin"] = True
        elif op == "Rd":
            f["rfin"] = False
        elif op == "Pw" and outc == "ok":
            f["pw"] = int(p[2])
    # which Pd were the scenario's own (before the clean-up suffix)?
    ncl = len(cleanup(len(F))) if has_cleanup(case) else 0
    body_acts = acts[:len(acts) - ncl]
    for a in body_acts:
        if a.startswith("Pd:") and a[3:].isdigit() and int(a[3:]) < len(F):
            F[int(a[3:])]["pd_by_user"] = True
    # ---- per-future value properties
    for i, f in enumerate(F):
        peer = [int(x) for x in sm.get("peer:%d" % i, "").split(",") if x != ""]
        yielded = f["recv"] + peer
        if len(yielded) > 1:
            bad.append(("duplicated", "future %d: readable side obtained %d values %r" % (i, len(yielded), yielded)))
        src = [f["pw"]] if f["imp"] else f["wvals"]
        for v in yielded:
            if v not in src:
                bad.append(("fabricated", "future %d: readable side obtained %r, values written: %r" % (i, v, src)))
        okv = [v for v in f["okv"] if v is not None]
        if len(okv) > 1:
            bad.append(("duplicated", "future %d: %d writes reported delivered: %r" % (i, len(okv), okv)))
        if okv and yielded and okv[0] != yielded[0]:
            bad.append(("wrong-value", "future %d: writer was told %r was delivered, reader got %r" % (i, okv[0], yielded[0])))
    # ---- quiescence (only for scenarios that end with the clean-up suffix and did not panic)
    if has_cleanup(case) and "panicked" not in sm:
        for k in ("slots", "live", "low", "area", "ends", "map", "clones"):
            if sm.get(k) != "0":
                bad.append(("quiescence:" + k, "after the clean-up suffix %s=%s (expected 0)" % (k, sm.get(k))))
        for i, f in enumerate(F):
            if not f["imp"] and f["dropw"] != 1:
                bad.append(("handle-w", "future %d: future.drop-writable called %d times" % (i, f["dropw"])))
            if f["dropr"] + f["taker"] != 1:
                bad.append(("handle-r", "future %d: readable end dropped %d times, transferred %d times" % (i, f["dropr"], f["taker"])))
            peer = [int(x) for x in sm.get("peer:%d" % i, "").split(",") if x != ""]
            if not f["imp"] and f["taker"] == 1 and not f["pd_by_user"]:
                # the peer keeps its readable end until the very end and reads: it must get exactly one value,
                # the user's if a user write was reported delivered, otherwise the default
                if len(peer) != 1:
                    bad.append(("stranded-reader", "future %d: the peer's read obtained %r" % (i, peer)))
                elif not f["user_ok"] and peer[0] != DEFAULT_VAL and peer[0] not in f["wvals"]:
                    bad.append(("fabricated", "future %d: peer got %r" % (i, peer[0])))
    elif "panicked" not in sm:
        for k in ("live", "low", "area"):
            if k in sm and int(sm[k]) < 0:
                bad.append(("ledger:" + k, "%s=%s is negative (double free)" % (k, sm[k])))
    return bad


def nontrivial(out):
    """A scenario exercises C20's mechanism if an operation blocked, was cancelled, or a default value was written."""
    return ("=%d" % BLOCKED) in out or "fcancel" in out or " default " in out


def features(out):
    fs = set()
    for key, tag in (("=%d" % BLOCKED, "blocked"), ("fcancelw", "cancel-write"), ("fcancelr", "cancel-read"),
                     (" default ", "default-value"), ("=AlreadySent", "cancel:AlreadySent"), ("=Dropped:", "cancel:Dropped"),
                     ("=Cancelled:", "cancel:Cancelled"), ("=Err:", "write:Err"), ("=Ok", "write:Ok"), ("=Val:", "read:Val"),
                     ("=ROk:", "readcancel:Ok"), ("=RErr", "readcancel:Err"), ("=PANIC", "panic"), ("take:", "transfer"),
                     ("vdrop:", "heap-payload"), ("relift:", "relift"), ("tclone", "task-v2")):
        if key in out:
            fs.add(tag)
    return fs
