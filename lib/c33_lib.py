"""C33 machinery: build the REAL wit-bindgen binary from the working tree, generate bindings into
temp dirs, perturb them deterministically, run `--check`, observe (exit status, message class, file
reported, tree hash before/after)."""
import hashlib, os, re, shutil, subprocess
import vf

TMP = os.path.join(vf.BUILD, "tmp")
CLI_TARGET = os.path.join(vf.BUILD, "cli-target")
LANG_ARGS = {"rust": ["--generate-all"], "c": [], "markdown": [], "moonbit": [], "cpp": [], "go": [], "d": [],
             "csharp": ["--runtime", "mono"]}
TIMEOUT = 90
MAX_BYTES = 1 << 20      # worlds whose bindings are larger are skipped (counted): the byte-list model would dominate the run time
ENV = {"RUST_BACKTRACE": "0", "RUST_LIB_BACKTRACE": "0", "RUST_LOG": "off"}


def cli_target_dir():
    """One cargo target dir PER source tree.  Sharing one between /repo and a scratch worktree is unsound:
    cargo's unit hashes and dep-info paths are relative to the workspace root, so the two trees collide on
    the same artifacts and an mtime-fresh artifact of the OTHER tree would be reused."""
    if os.path.realpath(vf.REPO) == "/repo":
        return CLI_TARGET
    return CLI_TARGET + "-" + hashlib.sha256(os.path.realpath(vf.REPO).encode()).hexdigest()[:10]


def build_cli(workdir):
    """cargo build of the working tree's CLI (under a lock) into that tree's own target dir, then hard-link
    the binary into workdir.  Returns (ok, exe, log).  (Scratch trees: remove build/cli-target-* afterwards.)"""
    os.makedirs(workdir, exist_ok=True)
    tdir = cli_target_dir()
    with vf.Lock("cargo-cli-" + os.path.basename(tdir)):
        rc, out = vf.sh(["cargo", "build", "--offline", "--manifest-path", os.path.join(vf.REPO, "Cargo.toml"),
                         "--target-dir", tdir, "--bin", "wit-bindgen"], timeout=3000)
        if rc != 0:
            return False, None, out
        src = os.path.join(tdir, "debug", "wit-bindgen")
        exe = os.path.join(workdir, "wit-bindgen")
        if os.path.exists(exe):
            os.unlink(exe)
        try:
            os.link(src, exe)
        except OSError:
            shutil.copy2(src, exe)
    return True, exe, out


def run_cli(exe, args, cwd):
    e = dict(os.environ); e.update(ENV)
    try:
        p = subprocess.run([exe] + args, cwd=cwd, env=e, stdout=subprocess.PIPE, stderr=subprocess.PIPE, timeout=TIMEOUT)
    except subprocess.TimeoutExpired:
        return 124, "TIMEOUT after %ds" % TIMEOUT
    return p.returncode, p.stderr.decode("utf-8", "replace")


def generate(exe, lang, wit_text, d, fresh=True):
    """Write the world to d/w.wit and generate into d/out (emptied first when `fresh`, otherwise on top of
    what is there).  Returns (ok, ordered names, {name: bytes}, stderr)."""
    os.makedirs(d, exist_ok=True)
    with open(os.path.join(d, "w.wit"), "w") as f:
        f.write(wit_text)
    out = os.path.join(d, "out")
    if fresh and os.path.exists(out):
        shutil.rmtree(out)
    rc, err = run_cli(exe, [lang] + LANG_ARGS.get(lang, []) + ["w.wit", "--out-dir", "out"], d)
    if rc != 0:
        return False, [], {}, err
    names = [n[len("out/"):] for n in re.findall(r'^Generating "(.*)"$', err, flags=re.M)]
    if sum(os.path.getsize(os.path.join(out, n)) for n in names) > MAX_BYTES:
        return False, [], {}, "TOOBIG: generated output exceeds %d bytes" % MAX_BYTES
    files = {}
    for n in names:
        with open(os.path.join(out, n), "rb") as f:
            files[n] = f.read()
    return True, names, files, err


def snapshot(out):
    """{relative path: bytes} of every file below out."""
    disk = {}
    for dp, _, fns in os.walk(out):
        for fn in fns:
            p = os.path.join(dp, fn)
            with open(p, "rb") as f:
                disk[os.path.relpath(p, out)] = f.read()
    return disk


def restore(out, disk):
    if os.path.exists(out):
        shutil.rmtree(out)
    os.makedirs(out)
    for n, b in disk.items():
        p = os.path.join(out, n)
        os.makedirs(os.path.dirname(p), exist_ok=True)
        with open(p, "wb") as f:
            f.write(b)


def tree_state(root):
    """Everything observable about the tree: entry kinds, bytes, mtimes."""
    h = hashlib.sha256()
    n = 0
    for dp, dns, fns in os.walk(root):
        dns.sort()
        rel = os.path.relpath(dp, root)
        st = os.lstat(dp)
        h.update(("D %s %d\n" % (rel, st.st_mtime_ns)).encode())
        for fn in sorted(fns):
            p = os.path.join(dp, fn)
            st = os.lstat(p)
            with open(p, "rb") as f:
                b = f.read()
            h.update(("F %s %d %d %o " % (os.path.join(rel, fn), st.st_mtime_ns, st.st_size, st.st_mode)).encode())
            h.update(hashlib.sha256(b).digest())
            n += 1
    return h.hexdigest(), n


def parse_check(rc, err):
    """(class, file-or-None, number of files visited).  class: ok | read | eol | diff | other"""
    visited = len(re.findall(r'^Generating "', err, flags=re.M))
    if rc == 0:
        return "ok", None, visited
    m = re.search(r'^Error: failed to read "out/(.*)"$', err, flags=re.M)
    if m:
        return "read", m.group(1), visited
    m = re.search(r"^Error: out/(.*) differs only in line endings \(CRLF vs\. LF\)\.", err, flags=re.M)
    if m:
        return "eol", m.group(1), visited
    m = re.search(r"^Error: not up to date: out/(.*)$", err, flags=re.M)
    if m:
        return "diff", m.group(1), visited
    return "other", err[-300:], visited


# ------------------------------------------------------------------------------------------ perturbations
# A perturbation is {"kind", "file", "a", "b"}: a pure function of the pristine bytes and two integers.
# `expect` = what the property demands for a file perturbed this way when it is the first non-identical one
# ("eol" = differs only in CRLF/LF line endings, "diff" = differs otherwise, "read" = missing, None = tie only).
TEXT_KINDS = ["crlf_all", "crlf_some", "crlf_one_line", "alter_char", "insert_text", "delete_line", "truncate",
              "crlf_plus_control", "control_only", "append_newline", "strip_final_newline", "crlf_plus_badutf8",
              "insert_nonascii", "crcrlf", "lf_to_cr", "crlf_plus_alter", "append_cr", "tab_insert_crlf", "empty"]
ANY_KINDS = ["delete", "make_dir", "flip_byte", "append_byte", "crlf_all"]


def is_text(b):
    try:
        b.decode("utf-8")
        return True
    except UnicodeDecodeError:
        return False


def lf_positions(b):
    return [i for i in range(len(b)) if b[i] == 10 and (i == 0 or b[i - 1] != 13)]


def apply_pert(p, orig):
    """-> (new bytes | None (=delete) | "DIR", expect)"""
    k, a, b = p["kind"], p.get("a", 0), p.get("b", 0)
    text = is_text(orig)
    lfs = lf_positions(orig)
    if k == "delete":
        return None, "read"
    if k == "make_dir":
        return "DIR", "read"
    if k == "flip_byte":
        if not orig:
            return b"\x00", "diff"
        i = a % len(orig)
        nb = orig[i] ^ (1 << (b % 7))
        if nb in (10, 13) or orig[i] in (10, 13):      # keep line structure questions to the dedicated kinds
            nb = 0x41 if orig[i] != 0x41 else 0x42
        return orig[:i] + bytes([nb]) + orig[i + 1:], "diff"
    if k == "append_byte":
        return orig + bytes([0x80 | (a % 64)]), "diff"
    if k == "empty":
        return b"", ("diff" if orig.strip(b"\r\n") else None)
    if k == "crlf_all":
        new = orig.replace(b"\r\n", b"\n").replace(b"\n", b"\r\n")
        if new == orig:
            return orig, "same"
        return new, ("eol" if text else "diff")
    if k in ("crlf_some", "crlf_one_line"):
        if not lfs:
            return orig, "same"
        chosen = [lfs[a % len(lfs)]] if k == "crlf_one_line" else [x for j, x in enumerate(lfs) if (a >> (j % 16)) & 1 or j == b % len(lfs)]
        out = bytearray()
        cs = set(chosen)
        for i, c in enumerate(orig):
            if i in cs:
                out += b"\r"
            out.append(c)
        return bytes(out), ("eol" if text else "diff")
    if k == "alter_char":
        idx = [i for i, c in enumerate(orig) if 0x21 <= c <= 0x7e]
        if not idx:
            return orig + b"x", "diff"
        i = idx[a % len(idx)]
        c = 0x21 + (orig[i] - 0x21 + 1 + b % 90) % 94
        if c == orig[i]:
            c = 0x21 + (c - 0x21 + 1) % 94
        return orig[:i] + bytes([c]) + orig[i + 1:], "diff"
    if k == "insert_text":
        i = a % (len(orig) + 1)
        return orig[:i] + b"x" + orig[i:], "diff"
    if k == "insert_nonascii":
        i = a % (len(orig) + 1)
        if text:      # keep it valid UTF-8: insert at a char boundary
            while i < len(orig) and (orig[i] & 0xC0) == 0x80:
                i += 1
        return orig[:i] + "\u00e9\u2028".encode() + orig[i:], "diff"
    if k == "delete_line":
        if not lfs:
            return orig + b"y", "diff"
        j = a % len(lfs)
        start = lfs[j - 1] + 1 if j else 0
        new = orig[:start] + orig[lfs[j] + 1:]
        return new, "diff"
    if k == "truncate":
        if len(orig) < 2:
            return orig + b"z", "diff"
        cut = 1 + a % (len(orig) - 1)
        new = orig[:cut]
        return new, None     # may coincide with "final newline removed": tie only
    if k == "crlf_plus_control":
        new, _ = apply_pert({"kind": "crlf_all"}, orig)
        i = a % (len(new) + 1)
        if i < len(new) and new[i] == 10:
            i += 1
        ctl = [0x0c, 0x1b, 0x00, 0x7f, 0x0b, 0x08][b % 6]
        return new[:i] + bytes([ctl]) + new[i:], "diff"
    if k == "control_only":
        i = a % (len(orig) + 1)
        ctl = [0x0c, 0x1b, 0x00, 0x7f, 0x0b][b % 5]
        return orig[:i] + bytes([ctl]) + orig[i:], "diff"
    if k == "tab_insert_crlf":
        new, _ = apply_pert({"kind": "crlf_all"}, orig)
        i = a % (len(new) + 1)
        if i < len(new) and new[i] == 10:
            i += 1
        return new[:i] + b"\t" + new[i:], "diff"
    if k == "append_newline":
        # after a complete last line this adds an empty line; after an unterminated last line it only
        # terminates it (the code calls that a line-ending difference, the property is silent: tie only)
        return orig + b"\n", ("diff" if orig == b"" or orig.endswith(b"\n") else None)
    if k == "strip_final_newline":
        if orig.endswith(b"\n"):
            return orig[:-1], None          # the code calls this a line-ending difference; the property is silent: tie only
        return orig + b"q", "diff"
    if k == "crlf_plus_badutf8":
        new, _ = apply_pert({"kind": "crlf_all"}, orig)
        return new + b"\xff", "diff"
    if k == "crcrlf":
        new = orig.replace(b"\r\n", b"\n").replace(b"\n", b"\r\r\n")
        return (new, None) if new != orig else (orig, "same")
    if k == "lf_to_cr":
        new = orig.replace(b"\r\n", b"\n").replace(b"\n", b"\r")
        return (new, None) if new != orig else (orig, "same")
    if k == "append_cr":
        return orig + b"\r", None
    if k == "crlf_plus_alter":
        new, _ = apply_pert({"kind": "crlf_all"}, orig)
        new2, _ = apply_pert({"kind": "alter_char", "a": a, "b": b}, new)
        return new2, "diff"
    raise ValueError("unknown perturbation " + k)


def materialize(out_dir, names, files, perts, disk=None):
    """Rewrite out_dir to the state right after generation (`disk`: every file that was there, generated
    or not), then apply the perturbations.  Returns {name: expect} for perturbed names and the resulting
    per-file state {name: bytes | None}."""
    restore(out_dir, disk if disk is not None else files)
    state = {n: files[n] for n in names}
    expect = {}
    for pt in perts:
        if pt["kind"] == "extra_file":
            with open(os.path.join(out_dir, "zz-unrelated.txt"), "wb") as f:
                f.write(b"not generated\r\n")
            continue
        n = pt["file"]
        if n not in files:
            continue
        new, ex = apply_pert(pt, files[n])
        p = os.path.join(out_dir, n)
        if ex == "same":
            continue
        if new is None:
            os.unlink(p); state[n] = None
        elif new == "DIR":
            os.unlink(p); os.mkdir(p); state[n] = None
        else:
            with open(p, "wb") as f:
                f.write(new)
            state[n] = new
        expect[n] = ex
    return expect, state


def model_line(names, files, state):
    items = []
    for n in names:
        c = files[n]
        s = state[n]
        prev = "!" if s is None else ("=" if s == c else (s.hex() or "-"))
        items.append("%s:%s:%s" % (n.encode().hex(), prev, c.hex() or "-"))
    return " ".join(items)
