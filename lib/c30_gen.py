"""C30: seeded generator of MULTI-PACKAGE WIT worlds (witgen produces one package): several
`package ns:name@ver { ... }` blocks + a main package whose world imports/exports interfaces of all of
them.  Built to stress MoonBit's package graph: interfaces whose last path segment coincides across
packages and namespaces, kebab-case and versioned names, two versions of one package, names that look
like the generator's own disambiguated names (types0), `use` chains across packages, world-level
functions/types, inline interfaces, resources, futures/streams, async functions.

    w = gen(rng, feats)     w.text, w.world (name), w.meta
Everything is validated with the real wit-parser by the caller (mbtpkg worldinfo)."""

NS = ["a", "b-c", "my-ns", "wasi", "x1", "dep"]
PK = ["p", "other-pkg", "http", "types", "io-x", "leaf-pkg"]
IFN = ["types", "types", "types", "leaf-iface", "types0", "types1", "io", "gen", "async-core", "error",
       "a", "my-types", "ffi", "top", "w", "types00", "HTTP-api", "deque"]
VERS = [None, None, "1.0.0", "0.2.1", "2.0.0", "1.0.0-rc.1", "0.1.0"]
TYN = ["r", "e", "v", "my-rec", "kind", "t", "res", "error", "item", "flags-x", "some-error", "big-thing", "x1"]
FN = ["f", "get-x", "do-it", "run", "new-thing", "g", "h", "poll-one", "to-string"]
FIELD = ["a", "b", "c-d", "x1", "the-name", "id"]
PRIMS = ["bool", "u8", "s8", "u16", "s16", "u32", "s32", "u64", "s64", "f32", "f64", "char", "string"]
KW = {"use", "type", "func", "resource", "own", "borrow", "record", "flags", "variant", "enum", "bool", "string",
      "option", "result", "future", "stream", "list", "map", "as", "from", "static", "interface", "tuple", "import",
      "export", "world", "package", "constructor", "async", "include", "with", "char", "error-context"}


def esc(n):
    return "%" + n if n in KW else n


class MW:
    def __init__(self):
        self.text, self.world, self.meta = "", "", {}


class Iface:
    def __init__(self, pkg, name):
        self.pkg, self.name = pkg, name     # pkg = (ns, name, ver) ; name = interface name
        self.types = []                      # (name, kind) kind in record enum variant flags resource alias
        self.body = []

    def ref(self, from_pkg):
        """how another interface / the world refers to this one"""
        if from_pkg == self.pkg:
            return esc(self.name)
        ns, pn, ver = self.pkg
        return "%s:%s/%s%s" % (ns, pn, esc(self.name), ("@" + ver) if ver else "")


class _G:
    def __init__(self, rng, feats):
        self.r, self.f = rng, set(feats)

    def pick_name(self, pool, taken, prefix=""):
        r = self.r
        for _ in range(50):
            n = prefix + r.choice(pool)
            if r.chance(1, 6):
                n += str(r.below(3))
            if n not in taken:
                taken.add(n)
                return n
        i = 0
        while "%sn%d" % (prefix, i) in taken:
            i += 1
        taken.add("%sn%d" % (prefix, i))
        return "%sn%d" % (prefix, i)

    def ty(self, scope, depth, param):
        """scope: list of (name, kind) visible.  param: borrows allowed."""
        r = self.r
        ch = [("prim", 6)]
        if scope:
            ch.append(("named", 10))
        if depth > 0:
            ch += [("list", 2), ("option", 2), ("result", 2), ("tuple", 2)]
            if "futures" in self.f:
                ch.append(("future", 1))
            if "streams" in self.f:
                ch.append(("stream", 1))
        k = r.weighted(ch)
        if k == "prim":
            return r.choice(PRIMS)
        if k == "named":
            n, kind = r.choice(scope)
            if kind == "resource":
                if param and r.chance(1, 2):
                    return "borrow<%s>" % esc(n)
                return r.choice([esc(n), "own<%s>" % esc(n)])
            return esc(n)
        if k == "list":
            return "list<%s>" % self.ty(scope, depth - 1, param)
        if k == "option":
            return "option<%s>" % self.ty(scope, depth - 1, param)
        if k == "tuple":
            return "tuple<%s>" % ", ".join(self.ty(scope, depth - 1, param) for _ in range(r.range(1, 3)))
        if k == "result":
            a = self.ty(scope, depth - 1, param) if r.chance(2, 3) else None
            b = self.ty(scope, depth - 1, param) if r.chance(2, 3) else None
            if a is None and b is None:
                return "result"
            if b is None:
                return "result<%s>" % a
            return "result<%s, %s>" % (a or "_", b)
        inner = self.ty([s for s in scope if s[1] != "resource"], depth - 1, False)
        if r.chance(1, 6):
            return k
        return "%s<%s>" % (k, inner)

    def sig(self, scope, allow_async=True):
        r = self.r
        names = set()
        ps = ", ".join("%s: %s" % (esc(self.pick_name(FIELD, names)), self.ty(scope, 2, True)) for _ in range(r.range(0, 3)))
        asy = "async " if (allow_async and "async" in self.f and r.chance(1, 3)) else ""
        if r.chance(1, 4):
            return "%sfunc(%s)" % (asy, ps)
        return "%sfunc(%s) -> %s" % (asy, ps, self.ty(scope, 2, False))

    def typedef(self, scope, names, ind, allow_resource=True):
        r = self.r
        kinds = [("record", 3), ("variant", 3), ("enum", 2), ("flags", 1), ("alias", 2)]
        if "resources" in self.f and allow_resource:
            kinds.append(("resource", 2))
        k = r.weighted(kinds)
        n = self.pick_name(TYN, names)
        data = [s for s in scope if s[1] != "resource"] if r.chance(1, 2) else scope
        if k == "record":
            fs = set()
            body = "".join("%s  %s: %s,\n" % (ind, esc(self.pick_name(FIELD, fs)), self.ty(data, 1, False)) for _ in range(r.range(1, 3)))
            txt = "%srecord %s {\n%s%s}\n" % (ind, esc(n), body, ind)
        elif k == "variant":
            fs = set()
            cs = []
            for _ in range(r.range(1, 3)):
                cn = esc(self.pick_name(FIELD, fs))
                cs.append("%s  %s(%s),\n" % (ind, cn, self.ty(data, 1, False)) if r.chance(2, 3) else "%s  %s,\n" % (ind, cn))
            txt = "%svariant %s {\n%s%s}\n" % (ind, esc(n), "".join(cs), ind)
        elif k == "enum":
            fs = set()
            txt = "%senum %s {\n%s%s}\n" % (ind, esc(n), "".join("%s  %s,\n" % (ind, esc(self.pick_name(FIELD, fs))) for _ in range(r.range(1, 3))), ind)
        elif k == "flags":
            fs = set()
            txt = "%sflags %s {\n%s%s}\n" % (ind, esc(n), "".join("%s  %s,\n" % (ind, esc(self.pick_name(FIELD, fs))) for _ in range(r.range(1, 3))), ind)
        elif k == "alias":
            t = self.ty(data, 2, False)
            txt = "%stype %s = %s;\n" % (ind, esc(n), t)
            for sn, sk in scope:
                if t == esc(sn) and sk == "resource":
                    k = "resource"
        else:
            items = []
            sc2 = scope + [(n, "resource")]
            ms = {"self"}
            if r.chance(2, 3):
                items.append("%s  constructor(%s);\n" % (ind, "x: %s" % self.ty(scope, 1, True) if r.chance(1, 2) else ""))
            for _ in range(r.range(0, 2)):
                st = "static " if r.chance(1, 4) else ""
                items.append("%s  %s: %s%s;\n" % (ind, esc(self.pick_name(FN, ms)), st, self.sig(sc2)))
            txt = "%sresource %s {\n%s%s}\n" % (ind, esc(n), "".join(items), ind) if items else "%sresource %s;\n" % (ind, esc(n))
        scope.append((n, k))
        return txt

    def uses(self, itf_pkg, earlier, scope, names, ind):
        """`use` lines importing types of earlier interfaces into scope."""
        r = self.r
        out = []
        cands = [i for i in earlier if i.types]
        for _ in range(r.weighted([(0, 2), (1, 4), (2, 3), (3, 1)])):
            if not cands:
                break
            src = r.choice(cands)
            picks = []
            for (tn, tk) in src.types:
                if r.chance(1, 2):
                    if tn in names or r.chance(1, 5):
                        al = self.pick_name(TYN, names)
                        picks.append("%s as %s" % (esc(tn), esc(al)))
                        scope.append((al, tk))
                    else:
                        names.add(tn)
                        picks.append(esc(tn))
                        scope.append((tn, tk))
            if picks:
                out.append("%suse %s.{%s};\n" % (ind, src.ref(itf_pkg), ", ".join(picks)))
                cands = [c for c in cands if c is not src]
        return out

    def iface_body(self, itf, earlier, ind):
        r = self.r
        scope, names = [], set()
        body = self.uses(itf.pkg, earlier, scope, names, ind)
        n_used = len(scope)
        for _ in range(r.range(0, 3)):
            body.append(self.typedef(scope, names, ind))
        itf.types = [s for s in scope[n_used:]]
        fn = set(names)
        for _ in range(r.range(1, 3)):
            body.append("%s%s: %s;\n" % (ind, esc(self.pick_name(FN, fn)), self.sig(scope)))
        return "".join(body)

    def gen(self):
        r = self.r
        npk = r.range(1, 4)
        pkgs, seen = [], set()
        while len(pkgs) < npk:
            if pkgs and r.chance(1, 3):                      # another version of an existing package
                ns, pn, _ = r.choice(pkgs)
                ver = r.choice([v for v in VERS if v])
            else:
                ns, pn, ver = r.choice(NS), r.choice(PK), r.choice(VERS)
            if (ns, pn, ver) in seen or any((ns, pn) == (a, b) and (ver is None) != (c is None) for a, b, c in seen):
                continue
            seen.add((ns, pn, ver))
            pkgs.append((ns, pn, ver))
        main = pkgs[-1]
        ifaces = []
        blocks = []
        for p in pkgs:
            names = set()
            mine = []
            for _ in range(r.range(1, 3)):
                itf = Iface(p, self.pick_name(IFN, names))
                ind = "  " if p is main else "    "
                txt = self.iface_body(itf, ifaces, ind)
                mine.append("%sinterface %s {\n%s%s}\n" % (ind[2:], esc(itf.name), txt, ind[2:]))
                ifaces.append(itf)
            ns, pn, ver = p
            if p is main:
                blocks.append(("main", "".join(mine), names))
            else:
                blocks.append(("dep", "package %s:%s%s {\n%s}\n\n" % (ns, pn, ("@" + ver) if ver else "", "".join(mine)), names))
        main_names = blocks[-1][2]
        wname = self.pick_name(["w", "http-proxy", "the-world", "types", "gen", "runner"], main_names)
        wb = []
        wscope, wnames = [], set()
        inames, enames = set(), set()
        n_imp = n_exp = 0
        for itf in ifaces:
            mode = r.weighted([("import", 3), ("export", 3), ("both", 2), ("none", 2)])
            if mode in ("import", "both"):
                wb.append("  import %s;\n" % itf.ref(main)); n_imp += 1
            if mode in ("export", "both"):
                wb.append("  export %s;\n" % itf.ref(main)); n_exp += 1
        if n_imp + n_exp == 0:
            wb.append("  import %s;\n" % ifaces[0].ref(main))
        if r.chance(1, 2):
            wb += self.uses(main, ifaces, wscope, wnames, "  ")
        if r.chance(1, 3):
            for _ in range(r.range(1, 2)):
                wb.append(self.typedef(wscope, wnames, "  ", allow_resource=False))
        used = set(wnames)
        for _ in range(r.range(0, 3)):
            d = r.choice(["import", "export"])
            fn = self.pick_name(FN, used)
            wb.append("  %s %s: %s;\n" % (d, esc(fn), self.sig(wscope)))
        for _ in range(r.weighted([(0, 3), (1, 2), (2, 1)])):
            d = r.choice(["import", "export"])
            iname = self.pick_name(IFN + ["inl"], used)
            it = Iface(("", "", None), iname)
            wb.append("  %s %s: interface {\n%s  }\n" % (d, esc(iname), self.iface_body(it, ifaces, "    ")))
        ns, pn, ver = main
        text = "package %s:%s%s;\n\n" % (ns, pn, ("@" + ver) if ver else "")
        text += "".join(b[1] for b in blocks if b[0] == "dep")
        text += blocks[-1][1]
        text += "\nworld %s {\n%s}\n" % (esc(wname), "".join(wb))
        w = MW()
        w.text, w.world = text, wname
        lastsegs = [i.name for i in ifaces]
        w.meta = {"packages": ["%s:%s%s" % (a, b, ("@" + c) if c else "") for a, b, c in pkgs],
                  "interfaces": len(ifaces),
                  "coinciding_last_segments": len(lastsegs) - len(set(lastsegs)),
                  "kebab_names": sum(1 for n in lastsegs + [a for a, _, _ in pkgs] + [b for _, b, _ in pkgs] if "-" in n),
                  "versioned_packages": sum(1 for _, _, c in pkgs if c),
                  "multi_version": len(pkgs) - len({(a, b) for a, b, _ in pkgs})}
        return w


def gen(rng, feats=()):
    return _G(rng, feats).gen()
