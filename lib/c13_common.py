"""C13 shared scraper helpers.  A scraped declaration is a dict
   {"dir": "I"|"E", "module": str, "field": str, "sig": "<params>><results>" over i I f F or "?" (unreadable),
    "ident": source identifier, "file": file name, "line": 1-based line, "referenced": bool}.
Scrapers are trusted glue (regexes over generated text); a scraper that finds nothing for a world that
must have declarations is reported as a broken tie by checks/c13.py, never as a pass."""
import re


def line_of(text, pos):
    return text.count("\n", 0, pos) + 1


def count_word(name, texts):
    pat = re.compile(r"(?<![A-Za-z0-9_$])" + re.escape(name) + r"(?![A-Za-z0-9_$])")
    return sum(len(pat.findall(t)) for t in texts)


def mk(dir_, module, field, sig, ident, file, line, referenced=True):
    return {"dir": dir_, "module": module, "field": field, "sig": sig, "ident": ident, "file": file,
            "line": line, "referenced": referenced}


def mark_referenced(decls, wcs):
    """An import is 'actually referenced' when its source identifier occurs in its scope (decl['_scope'] indexes the
    word counters `wcs`) more often than it is declared there."""
    import collections
    dc = collections.Counter((d.get("_scope"), d["ident"]) for d in decls if d["dir"] == "I")
    for d in decls:
        if d["dir"] == "I" and "_scope" in d:
            d["referenced"] = wcs[d["_scope"]][d["ident"]] > dc[(d["_scope"], d["ident"])]
    for d in decls:
        d.pop("_scope", None)
    return decls


def text_files(files, exts):
    return {n: t for n, t in files.items() if isinstance(t, str) and n.endswith(tuple(exts))}


def split_params(s):
    """Split a parameter list at top-level commas."""
    out, depth, cur = [], 0, ""
    for ch in s:
        if ch in "([<{":
            depth += 1
        elif ch in ")]>}":
            depth -= 1
        if ch == "," and depth == 0:
            out.append(cur)
            cur = ""
        else:
            cur += ch
    if cur.strip():
        out.append(cur)
    return [p.strip() for p in out if p.strip()]


_WORD = re.compile(r"[A-Za-z_$][A-Za-z0-9_$]*")


def word_counts(texts):
    """identifier -> number of occurrences over the texts (one pass; replaces repeated count_word calls)."""
    import collections
    c = collections.Counter()
    for t in texts:
        c.update(_WORD.findall(t))
    return c
