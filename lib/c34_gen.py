"""C34: input generators, wire encoding and the property's own executable statement (Python reference
used only by the SEARCH leg, on the real outputs \u2014 never as the thing under test)."""
import re

# ------------------------------------------------------------------------------------------ wire
def enc(s):
    return "-" if s == "" else ".".join("%x" % ord(c) for c in s)


def dec(t):
    return "" if t == "-" else "".join(chr(int(h, 16)) for h in t.split("."))


def enc_list(l):
    return "~" if not l else ",".join(enc(s) for s in l)


def dec_list(t):
    return [] if t == "~" else [dec(x) for x in t.split(",")]


# ------------------------------------------------------------------------------------------ the statement
# Unicode White_Space (what "whitespace-separated" means for a Rust string)
WS = "\t\n\x0b\x0c\r \x85\xa0\u1680" + "".join(chr(c) for c in range(0x2000, 0x200b)) + "\u2028\u2029\u202f\u205f\u3000"
WS_RE = re.compile("[" + re.escape(WS) + "]+")
# look-alikes that are NOT White_Space
NOT_WS = "\x08\x1c\x1d\x1e\x1f\x7f\xad\u180e\u200b\u200c\u2060\ufeff\ue000\ud7ff\ufffd\U0010ffff"


def ref_words(s):
    return [w for w in WS_RE.split(s) if w != ""]


def ref_lines(s):
    """Lines of a file: terminated by LF or CRLF; a last line without LF is kept as is (incl. a CR)."""
    parts = s.split("\n")
    last_unterminated = parts.pop()          # text after the last LF ("" if the file ends with LF or is empty)
    out = [p[:-1] if p.endswith("\r") else p for p in parts]
    if last_unterminated != "":
        out.append(last_unterminated)
    return out


def ref_config_text(marker, contents):
    """The leading lines that start with the marker, marker removed, joined by LF; nothing after the
    first other line."""
    cfg = []
    for l in ref_lines(contents):
        if not l.startswith(marker):
            break
        cfg.append(l[len(marker):])
    return "\n".join(cfg)


# ------------------------------------------------------------------------------------------ TOML writer (trusted glue)
def toml_basic(rng, s, multiline=False):
    out = []
    for c in s:
        o = ord(c)
        if c == '"':
            out.append('\\"')
        elif c == "\\":
            out.append("\\\\")
        elif c == "\n" and multiline:
            out.append("\n")
        elif o < 0x20 and c != "\t" or o == 0x7f or (0xd800 <= o <= 0xdfff):
            out.append({"\n": "\\n", "\r": "\\r", "\x0c": "\\f", "\x08": "\\b"}.get(c, "\\u%04x" % o) if rng.chance(1, 2) else "\\u%04X" % o)
        elif o > 0x7e and rng.chance(1, 3):
            out.append("\\u%04x" % o if o <= 0xffff else "\\U%08x" % o)
        elif c == "\t" and rng.chance(1, 2):
            out.append("\\t")
        else:
            out.append(c)
    body = "".join(out)
    return '"""' + body + '"""' if multiline else '"' + body + '"'


def toml_string(rng, s):
    """One TOML string literal denoting exactly s (may span several lines)."""
    plain = all(0x20 <= ord(c) != 0x7f or c == "\t" for c in s)
    if plain and "'" not in s and rng.chance(1, 3):
        return "'" + s + "'"
    if "\n" in s and not s.startswith("\n") and "\r" not in s and rng.chance(2, 3):
        return toml_basic(rng, s, multiline=True)
    return toml_basic(rng, s)


# ------------------------------------------------------------------------------------------ generators
MARKERS = [("//@", 10), (";;@", 5), ("#@", 2), ("--@", 1), ("//", 1), ("@", 1), ("%@@", 1)]
CODE = ["", "fn main() {}", "include!(env!(\"BINDINGS\"));", "(module)", "int main(void) { return 0; }",
        "package a:b;", "// plain comment", "world w {}", "\t", "x = 1", "#include <assert.h>"]


def near_marker(rng, m):
    """Lines that almost start with the marker."""
    k = rng.below(6)
    if k == 0:
        return " " + m + " a = 1"
    if k == 1:
        return m[:-1] + " a = 1" if len(m) > 1 else "x" + m
    if k == 2:
        return m[:-1] + "!" + m[-1:] + " a = 1"
    if k == 3:
        return "\t" + m
    if k == 4:
        return m[1:] + m[:1] if len(m) > 1 and m[1:] + m[:1] != m else "y"
    return "\ufeff" + m + " a = 1"


def cfg_line(rng, i, m):
    k = rng.below(14)
    if k == 0:
        return ""
    if k == 1:
        return " # note"
    if k == 2:
        return " k%d = %d" % (i, rng.below(100))
    if k == 3:
        return "k%d = 'v %d'" % (i, rng.below(9))
    if k == 4:
        return " k%d = [1, 2]" % i
    if k == 5:
        return m + " k%d = 1" % i            # marker repeated inside the line
    if k == 6:
        return " k%d = \"a\\tb\"" % i
    if k == 7:
        return " k%d = 1\r" % i              # text ending in CR (forces a CRLF terminator)
    if k == 8:
        return " k%d = true  " % i
    if k == 9:
        return "k%d.sub = \"\u00e9\u3000\"" % i
    if k == 10:
        return " not toml at all"
    if k == 11:
        return " k%d = 1 \r x" % i           # CR in the middle
    if k == 12:
        return "\tk%d = 0x%x" % (i, rng.below(255))
    return " k%d = \"%s\"" % (i, "".join(rng.choice("ab @/;#") for _ in range(rng.below(5))))


def gen_structured(rng):
    """A file of the shape of the theorems.  Returns (marker, contents, expected_text, info)."""
    m = rng.weighted(MARKERS)
    all_crlf = rng.chance(1, 6)
    n = rng.weighted([(0, 2), (1, 4), (2, 4), (3, 3), (4, 2), (6, 1)])
    cfg, parts = [], []
    info = {"cfg": n, "crlf": 0, "later_marker": 0, "tail": "none", "other": "none"}
    for i in range(n):
        t = cfg_line(rng, i, m)
        crlf = all_crlf or rng.chance(1, 4) or t.endswith("\r")
        info["crlf"] += crlf
        cfg.append(t)
        parts.append(m + t + ("\r\n" if crlf else "\n"))
    expected = list(cfg)
    shape = rng.weighted([("other", 8), ("tailcfg", 2), ("tailother", 1), ("end", 1)])
    if shape == "other":
        o = near_marker(rng, m) if rng.chance(1, 3) else rng.choice(CODE)
        if o.startswith(m):
            o = "?" + o
        crlf = all_crlf or rng.chance(1, 4) or o.endswith("\r")
        info["crlf"] += crlf
        info["other"] = "blank" if o == "" else ("near-marker" if m[:1] and m[:1] in o else "code")
        parts.append(o + ("\r\n" if crlf else "\n"))
        for j in range(rng.below(5)):
            k = rng.below(5)
            if k <= 1:
                parts.append(m + " late%d = %d" % (j, j) + rng.choice(["\n", "\r\n", "\n", ""]))
                info["later_marker"] += 1
            elif k == 2:
                parts.append(rng.choice(CODE) + rng.choice(["\n", "\r\n"]))
            elif k == 3:
                parts.append("".join(rng.choice("/@;# \r\n\ta=1\"'") for _ in range(rng.below(12))))
            else:
                parts.append(m + "\n")
                info["later_marker"] += 1
    elif shape == "tailcfg":
        t = cfg_line(rng, n, m)
        if m + t != "":
            expected.append(t)
        parts.append(m + t)
        info["tail"] = "cfg" + ("+cr" if t.endswith("\r") else "")
    elif shape == "tailother":
        o = near_marker(rng, m) if rng.chance(1, 2) else rng.choice([c for c in CODE if c])
        if o.startswith(m):
            o = "?" + o
        parts.append(o)
        info["tail"] = "other"
    return m, "".join(parts), "\n".join(expected), info


RAW_ALPHABET = "/@;#\n\r \ta=1\"'\u00e9\u2028\u0085-"


def gen_raw(rng):
    """Unstructured (mostly malformed) file and marker."""
    if rng.chance(3, 4):
        m = rng.weighted(MARKERS)
    else:
        m = "".join(rng.choice(RAW_ALPHABET) for _ in range(rng.below(4)))
    s = []
    for _ in range(rng.below(9)):
        k = rng.below(4)
        if k == 0:
            s.append(m)
        elif k == 1:
            s.append(rng.choice(["\n", "\r\n", "\r", "\n\n", "\r\r\n"]))
        else:
            s.append("".join(rng.choice(RAW_ALPHABET) for _ in range(rng.below(6))))
    return m, "".join(s)


WORD_CH = "abxyz-=_/.,:\"'\\09"


def gen_word(rng):
    n = rng.range(1, 5)
    w = []
    for _ in range(n):
        w.append(rng.choice(NOT_WS) if rng.chance(1, 8) else rng.choice(WORD_CH))
    return "".join(w)


def gen_sep(rng, ascii_only=False):
    n = rng.weighted([(1, 6), (2, 3), (3, 1)])
    pool = " \t\n\r\x0b\x0c" if ascii_only else WS
    return "".join(" " if rng.chance(1, 2) else rng.choice(pool) for _ in range(n))


def gen_arg_string(rng):
    """(string, words) \u2014 the string is words interleaved with non-empty whitespace runs."""
    nw = rng.weighted([(0, 1), (1, 2), (2, 4), (3, 4), (5, 2), (8, 1)])
    words = [gen_word(rng) for _ in range(nw)]
    ascii_only = rng.chance(1, 2)
    s = gen_sep(rng, ascii_only) if rng.chance(1, 4) else ""
    for i, w in enumerate(words):
        if i:
            s += gen_sep(rng, ascii_only)
        s += w
    if rng.chance(1, 4):
        s += gen_sep(rng, ascii_only)
    return s, words


def gen_raw_string(rng):
    pool = WS + NOT_WS + "ab-"
    return "".join(rng.choice(pool) for _ in range(rng.below(12)))


def file_with_toml(rng, m, toml_text, trailer=True):
    """Put TOML text (possibly several lines) into the leading comment block of a source file."""
    lines = toml_text.split("\n")
    eol = "\r\n" if rng.chance(1, 4) else "\n"
    out = "".join(m + l + eol for l in lines)
    if trailer:
        out += rng.choice(["", "\n", "fn main() {}\n", "\n" + m + "args = 'late'\n", "x\r\n" + m + "wasmtime-flags = 'late'"])
    else:
        out = out[:-len(eol)]
    return out
