"""Scenario generator and runners shared by C22 and C23 (driver grammar: harness/crates/rtmock/src/bin/tasks.rs).

A scenario is one line  `<feat> <mode> ; <ops> ; <bodies> ; <roots> ; <actions>`.  It is total on both
sides (model and harness): an action that is not enabled is skipped by both, so every generated line is
a usable case; whether a line is *valid* for the property (no documented user error) is decided by the
model's outcome."""
import os, re, sys
import vf, rtmock

FEATS = {"d": None, "s": ["async-spawn"], "i": ["inter-task-wakeup"], "a": ["async-spawn", "inter-task-wakeup"]}
FEAT_NAME = {"d": "default", "s": "async-spawn", "i": "inter-task-wakeup", "a": "async-spawn+inter-task-wakeup"}
OPS = ["sub", "sub0", "subI", "sr", "srI", "sw", "swI", "fr", "frI", "fw", "fwI"]


class Sc:
    """Structured scenario; `line()` renders it."""
    def __init__(self, feat, mode, ops, bodies, roots, actions):
        self.feat, self.mode, self.ops, self.bodies, self.roots, self.actions = feat, mode, ops, bodies, roots, actions

    def line(self):
        b = " ".join((",".join(x) if x else "-") for x in self.bodies) or "-"
        return "%s %s ; %s ; %s ; %s ; %s" % (self.feat, self.mode, " ".join(self.ops) or "-", b,
                                               " ".join(map(str, self.roots)), " ".join(self.actions) or "-")


def parse_line(line):
    secs = [s.strip() for s in line.split(";")]
    feat, mode = secs[0].split()
    ops = [x for x in secs[1].split() if x != "-"]
    bodies = [([] if b == "-" else b.split(",")) for b in secs[2].split()]
    roots = [int(x) for x in secs[3].split() if x != "-"]
    acts = [x for x in secs[4].split() if x != "-"]
    return Sc(feat, mode, ops, bodies, roots, acts)


def gen_scenario(rng, feat, mode, ntasks=1, flags=None, big=False):
    """Random well-formed scenario: every op id is awaited once, every non-root body is spawned at most once."""
    spawn = feat in ("s", "a")
    itw = feat in ("i", "a")
    if flags is None:
        flags = itw or rng.chance(1, 4)
    nflags = rng.range(1, 2)
    ops, bodies = [], []
    roots = []
    pending_spawn = []   # body ids allocated but not yet generated

    def new_op():
        kinds = ["sub", "sub", "sub0", "sr", "sw", "fr", "fw"]
        k = rng.choice(kinds)
        if rng.chance(1, 6) and k != "sub0":
            k = k + "I" if k != "sub" else "subI"
        ops.append(k)
        return len(ops) - 1

    def gen_body(bid, depth):
        n = rng.range(0, 6 if big else 4)
        steps = []
        for _ in range(n):
            c = rng.weighted([("a", 10), ("y", 3), ("s", 4 if spawn and depth < 3 and len(bodies) < (8 if big else 5) else 0),
                              ("f", 3 if flags else 0), ("w", 3 if flags else 0), ("j", 2 if flags else 0), ("c", 1), ("g", 1)])
            if c == "a":
                # rarely re-use an operation id / name one that does not exist: the driver skips such awaits
                steps.append("a%d" % (rng.below(len(ops) + 2) if (ops and rng.chance(1, 25)) else new_op()))
            elif c == "y":
                steps.append("y")
            elif c == "s" and len(bodies) > 1 and rng.chance(1, 20):
                steps.append("s%d" % rng.below(len(bodies)))   # spawning an existing body again is skipped
            elif c == "s":
                bodies.append(None)
                nb = len(bodies) - 1
                steps.append("s%d" % nb)
                pending_spawn.append((nb, depth + 1))
            elif c == "f":
                steps.append("f%d" % rng.below(nflags))
            elif c == "w":
                steps.append("w%d" % rng.below(nflags))
            elif c == "j":
                steps.append("j%d.%d" % (new_op(), rng.below(nflags)))
            elif c == "g":
                steps.append("g%d" % new_op())
            else:
                steps.append("c")
        bodies[bid] = steps

    for t in range(ntasks):
        bodies.append(None)
        roots.append(len(bodies) - 1)
        gen_body(roots[-1], 0)
        while pending_spawn:
            nb, d = pending_spawn.pop(0)
            gen_body(nb, d)
    acts = []
    if mode == "S":
        order = list(range(ntasks))
        acts.append("s%d" % order[0])
        started = 1
        n = rng.range(2, 14 if big else 9) * ntasks
        cancel = rng.chance(1, 3)
        for i in range(n):
            if started < ntasks and rng.chance(1, 3):
                acts.append("s%d" % order[started]); started += 1; continue
            t = rng.below(ntasks)
            c = rng.weighted([("r", 8), ("e", 10), ("n", 2), ("p", 2), ("d", 1), ("w", 3 if flags else 0),
                              ("x", 1 if cancel else 0)])
            if c in ("e", "n", "x"):
                acts.append("%s%d" % (c, t))
            elif c == "w":
                acts.append("w%d" % rng.below(nflags))
            else:
                acts.append("%s%d" % (c, rng.below(3)))
        while started < ntasks:
            acts.append("s%d" % order[started]); started += 1
        if rng.chance(2, 3):
            # drive to completion: alternate resolve / deliver
            for _ in range(rng.range(2, 8)):
                acts.append("r0")
                acts.append("e%d" % rng.below(ntasks))
        if cancel and rng.chance(1, 2):
            acts.append("x%d" % rng.below(ntasks))
        if flags and rng.chance(1, 3):
            acts.append("w%d" % rng.below(nflags))
    else:
        for _ in range(rng.range(0, 6)):
            c = rng.weighted([("r", 8), ("p", 2), ("d", 1), ("w", 2 if (flags and itw) else 0)])
            acts.append("w%d" % rng.below(nflags) if c == "w" else "%s%d" % (c, rng.below(3)))
    return Sc(feat, mode, ops, bodies, roots, acts)


def gen_yield_delivery(rng, feat):
    """Targeted family: a waitable that is not awaited by the body that yields (leaked operation, or the
    operation side of a join) has its event ready in the same turn in which a body yields: the runtime
    delivers it in-line, polls again, and what happens next (block without a wake / yield again / finish)
    decides the answer."""
    ops = [rng.choice(["sub", "sr", "fr", "sw"]), rng.choice(["sub", "sub0", "sr", "fw"])]
    first = rng.choice(["g0", "j0.0"])
    tail = rng.choice([["a1"], ["y", "a1"], ["a1", "y"], [], ["c", "a1"], ["f1"] if feat in ("i", "a") else ["a1"]])
    body = [first] + ["y"] * rng.range(1, 3) + tail
    acts = ["s0"]
    for _ in range(rng.range(0, 2)):
        acts.append(rng.choice(["n0", "e0"]))
    acts.append("r0")
    if first.startswith("j"):
        acts.append("w0")
    for _ in range(rng.range(1, 4)):
        acts.append(rng.choice(["n0", "n0", "e0", "r0"]))
    return Sc(feat, "S", ops, [body], [0], acts)


# ---------------------------------------------------------------------------------------------- builds
TARGETS = ["theories/Extract/ExTask.vo"]


def build_model():
    ok0, clog = vf.coq_make(TARGETS)
    if not ok0:
        return False, None, clog
    return vf.ocaml_build("task_driver", ["task_model"], ["util.ml", "task_driver.ml"])


def build_real(feat, bin="tasks"):
    return rtmock.build(bin, FEATS[feat])


# ---------------------------------------------------------------------------------------------- outcomes
PANIC_CLASSES = [
    (1, r"Rust_task_cannot_sleep_waiting_only_on_Rust-originating"),
    (2, r"Cannot_support_cross-component-model-task_wakeup"),
    (5, r"assertion_failed:_!state\.is_null\(\)"),
    (6, r"assertion_failed:_task_state::get\(\)\.is_null\(\)"),
    (10, r"assertion_failed:_(!)?(me|self)\.tasks\.is_empty\(\)|assertion_failed:_!spawned|assertion_failed:_prev"),
    (11, r"internal_error:_entered_unreachable_code$"),
    (78, r"assertion_`left_==_right`_failed"),
    (34, r"called_`Option::unwrap\(\)`_on_a_`None`_value"),
]


def panic_class(tok):
    """Class of a real `PANIC:<message>` token: a set of model classes it can stand for."""
    msg = tok[len("PANIC:"):]
    for c, pat in PANIC_CLASSES:
        if re.search(pat, msg):
            return {78: {7, 8}, 34: {3, 4, 9, 12}}.get(c, {c})
    return {13}


TRAP_NORM = {"write:bad-handle": "rw:bad-handle", "read:bad-handle": "rw:bad-handle", "write:not-writable": "rw:wrong-direction",
             "read:not-readable": "rw:wrong-direction", "write:busy": "rw:busy", "read:busy": "rw:busy",
             "write:future-done": "rw:future-done", "read:future-done": "rw:future-done"}


def norm_real(out):
    toks = out.split(" ") if out else []
    res = []
    for t in toks:
        if t.startswith("TRAP:"):
            t = "TRAP:" + TRAP_NORM.get(t[5:], t[5:])
        res.append(t)
    return res


def agree(real_out, model_out):
    """None if the real log and the model's prediction agree, else a description.
    Without a panic: token-for-token equality.  With a panic: same class, and the model's log (frozen at
    the panic) is a prefix of the real one (unwinding may run more destructors on the real side)."""
    r = norm_real(real_out)
    m = model_out.split(" ") if model_out else []
    rp = r[-1] if r and r[-1].startswith("PANIC:") else None
    mp = m[-1] if m and m[-1].startswith("PANIC:") else None
    if real_out.startswith("ABORT"):
        if mp in ("PANIC:15", "PANIC:2", "PANIC:1", "PANIC:8"):
            return None      # a panic inside an extern "C" frame (on_block hook, C-ABI callback) aborts the process
        return "real run aborted (%s), model says %s" % (real_out[:80], mp)
    if rp is None and mp is None:
        if r == m:
            return None
        i = next((i for i, (a, b) in enumerate(zip(r, m)) if a != b), min(len(r), len(m)))
        return "logs differ at token %d: real %r vs model %r" % (i, r[i:i + 4], m[i:i + 4])
    if (rp is None) != (mp is None):
        return "panic on one side only: real %r, model %r" % (rp, mp)
    if int(mp[6:]) not in panic_class(rp):
        return "different panic: real %r, model class %s" % (rp, mp)
    mb = m[:-1]
    if r[:len(mb)] != mb:
        i = next((i for i, (a, b) in enumerate(zip(r, mb)) if a != b), min(len(r), len(mb)))
        return "logs before the panic differ at token %d: real %r vs model %r" % (i, r[i:i + 4], mb[i:i + 4])
    return None


def model_panic(model_out):
    m = model_out.rsplit(" ", 1)[-1]
    return int(m[6:]) if m.startswith("PANIC:") else None


# ---------------------------------------------------------------------------------------------- check helpers
def _newest_mtime(paths):
    m = 0
    for p in paths:
        if os.path.isdir(p):
            for d, _, fs in os.walk(p):
                if "/target" in d:
                    continue
                for f in fs:
                    try:
                        m = max(m, os.path.getmtime(os.path.join(d, f)))
                    except OSError:
                        pass
        elif os.path.exists(p):
            m = max(m, os.path.getmtime(p))
    return m


def build_real_cached(feat, bin="tasks"):
    """rtmock.build, skipped when the feature-tagged executable is newer than every source it depends on
    (wit-bindgen's guest-rust crate in vf.REPO, the rtmock crate, this repo's Cargo.lock): the four feature
    builds share one cargo target dir, so an unconditional rebuild recompiles wit-bindgen four times per run."""
    import hashlib
    feats = sorted(FEATS[feat]) if FEATS[feat] else []
    tag = hashlib.sha256(os.path.realpath(vf.REPO).encode()).hexdigest()[:10]
    dst = os.path.join(vf.BUILD, "rtmock", tag, bin + "".join("+" + f for f in feats))
    srcs = [os.path.join(vf.REPO, "crates", "guest-rust"), os.path.join(vf.REPO, "Cargo.lock"), os.path.join(vf.REPO, "Cargo.toml"),
            os.path.join(vf.HARNESS, "crates", "rtmock"), os.path.join(vf.HARNESS, "Cargo.toml")]
    if os.path.exists(dst) and os.path.getmtime(dst) > _newest_mtime(srcs):
        return True, dst, "up to date"
    return rtmock.build(bin, FEATS[feat])


def read_corpus(prop):
    p = os.path.join(vf.ROOT, "corpus", prop + ".txt")
    if not os.path.exists(p):
        return []
    return [l.strip() for l in open(p) if l.strip() and not l.startswith("#")]


def nontrivial(real_out):
    return ("join:" in real_out) or bool(re.search(r"(cb:\d+:\d+,\d+,\d+|start:\d+)=([1-9]\d*)", real_out))


def canon(case):
    return case


def tally(dist, case, real_out):
    sc = parse_line(case)
    d = dist.setdefault(FEAT_NAME[sc.feat], {})

    def inc(k, n=1):
        d[k] = d.get(k, 0) + n
    inc("scenarios")
    inc("mode_" + ("start_task" if sc.mode == "S" else "block_on"))
    if len(sc.roots) > 1:
        inc("two_tasks")
    for b in sc.bodies:
        for s in b:
            inc("step_" + {"a": "await", "y": "yield", "s": "spawn", "f": "flag_wait", "w": "flag_signal", "j": "join", "c": "ctx_obs", "g": "detach"}[s[0]])
    for o in sc.ops:
        inc("op_" + o)
    for a in sc.actions:
        inc("act_" + {"s": "start", "n": "none", "e": "event", "x": "cancel", "r": "resolve", "d": "peer_drop", "p": "progress", "w": "xwake", "k": "kwake", "R": "raw", "z": "cleanup"}[a[0]])
    for m in re.finditer(r"(?:cb:\d+:(\d+),\d+,\d+|start:\d+)=(\d+)", real_out):
        code = int(m.group(2))
        inc("answer_" + ("exit" if code == 0 else "yield" if code == 1 else "wait"))
        if m.group(1):
            inc("event_kind_%s" % m.group(1))
    if "taskcancel" in real_out:
        inc("cancelled_before_return")
    if "PANIC:" in real_out:
        inc("real_panics")
    if re.search(r"fcancelw:\d+=2 fwrite", real_out):
        inc("deferred_default_write")


def run_real(exe, lines, shards=4, max_aborts=12):
    """Few processes (process creation is the dominant cost on a loaded machine).  When a shard dies (a
    panic inside an extern "C" frame aborts the process; the driver's watchdog aborts a scenario that does
    not terminate) the lines are re-run sequentially, restarting after each abort; after `max_aborts`
    scenarios that did not terminate the remaining lines are reported as `ABORT:skipped` (only a broken
    runtime gets there)."""
    if not lines:
        return []
    try:
        return vf.run_filter([exe], lines, shards=min(shards, max(1, len(lines) // 64)) or 1, timeout=600)
    except RuntimeError:
        pass
    out, i, aborts = [], 0, 0
    while i < len(lines):
        if aborts >= max_aborts:
            out += ["ABORT:skipped"] * (len(lines) - i)
            break
        rc, so, se = vf.sh2([exe], input="\n".join(lines[i:]) + "\n", timeout=600)
        got = so.split("\n")
        if got and got[-1] == "":
            got.pop()
        got = got[:len(lines) - i]
        out += got
        i += len(got)
        if i < len(lines):
            last = [l for l in se.strip().split("\n") if l.strip()]
            msg = last[-1].strip().replace(" ", "_") if last else "rc=%s" % rc
            out.append("ABORT:" + msg)
            i += 1
            if "watchdog" in msg or rc == 124:
                aborts += 1      # only scenarios that did not terminate count (an abort by panic is quick)
    return out
