"""Seeded generator of WIT interfaces for the ABI tie (C01–C04): one interface per case with named type
definitions and a few functions whose parameter/result types exercise every constructor, nesting up to
`depth`, flags with 1..=65 members, variants/enums crossing the u8/u16 discriminant boundary, payload mixes
that hit every `join` pair, records forcing padding, maps, fixed-length lists, and signatures with 0..=20
parameters crossing the 16/4/1 flat limits from both sides.  Also the distribution bookkeeping."""

PRIMS = ["bool", "u8", "s8", "u16", "s16", "u32", "s32", "u64", "s64", "f32", "f64", "char", "string"]
KEYS = ["bool", "u8", "s8", "u16", "s16", "u32", "s32", "u64", "s64", "char", "string"]
JOIN_MIX = ["s32", "u32", "f32", "s64", "u64", "f64", "string", "list<u8>", "char", "u8"]


class G:
    def __init__(self, rng, depth=4, resources=True, futures=True, errctx=True, fixed=True, maps=True):
        self.r = rng
        self.depth = depth
        self.defs = []
        self.n = 0
        self.hist = {}
        self.resources = resources
        self.futures, self.errctx, self.fixed, self.maps = futures, errctx, fixed, maps
        self.has_res = False

    def h(self, k):
        self.hist[k] = self.hist.get(k, 0) + 1

    def name(self, p):
        self.n += 1
        return "%s%d" % (p, self.n)

    def res(self):
        if not self.has_res:
            self.defs.append("  resource res;\n")
            self.has_res = True
        return "res"

    def ty(self, d, borrow_ok=False, in_payload=False):
        r = self.r
        ch = [("prim", 12)]
        if d > 0:
            ch += [("list", 4), ("option", 4), ("result", 4), ("tuple", 3), ("record", 4), ("variant", 5),
                   ("enum", 2), ("flags", 3)]
            if self.fixed:
                ch.append(("fixed", 2))
            if self.maps:
                ch.append(("map", 2))
            if self.futures:
                ch += [("future", 1), ("stream", 1)]
        else:
            ch += [("enum", 1), ("flags", 1)]
        if self.resources:
            ch.append(("own", 1))
            if borrow_ok:
                ch.append(("borrow", 1))
        if self.errctx:
            ch.append(("errctx", 1))
        k = r.weighted(ch)
        self.h(k)
        if k == "prim":
            return r.choice(PRIMS)
        if k == "list":
            return "list<%s>" % self.ty(d - 1, borrow_ok)
        if k == "fixed":
            return "list<%s, %d>" % (self.ty(d - 1, borrow_ok), r.choice([1, 2, 3, 4, 5, 8, 16, 17]))
        if k == "map":
            return "map<%s, %s>" % (r.choice(KEYS), self.ty(d - 1, borrow_ok))
        if k == "option":
            return "option<%s>" % self.ty(d - 1, borrow_ok)
        if k == "tuple":
            return "tuple<%s>" % ", ".join(self.ty(d - 1, borrow_ok) for _ in range(r.range(1, 5)))
        if k == "result":
            a = self.ty(d - 1, borrow_ok) if r.chance(2, 3) else None
            b = self.ty(d - 1, borrow_ok) if r.chance(2, 3) else None
            if a is None and b is None:
                return "result"
            if b is None:
                return "result<%s>" % a
            return "result<%s, %s>" % (a or "_", b)
        if k == "record":
            n = r.range(1, 6)
            fs = [self.ty(d - 1, borrow_ok) for _ in range(n)]
            nm = self.name("r")
            self.defs.append("  record %s { %s }\n" % (nm, ", ".join("f%d: %s" % (i, t) for i, t in enumerate(fs))))
            return nm
        if k == "variant":
            if r.chance(1, 30):
                n = r.choice([255, 256, 257, 300])
            else:
                n = r.range(1, 6)
            cs = []
            mix = r.chance(1, 2)
            for i in range(n):
                if n > 20:
                    cs.append("c%d" % i if i % 50 else "c%d(%s)" % (i, r.choice(JOIN_MIX)))
                elif r.chance(1, 3):
                    cs.append("c%d" % i)
                elif mix:
                    cs.append("c%d(%s)" % (i, r.choice(JOIN_MIX)))
                else:
                    cs.append("c%d(%s)" % (i, self.ty(d - 1, borrow_ok)))
            nm = self.name("v")
            self.defs.append("  variant %s { %s }\n" % (nm, ", ".join(cs)))
            return nm
        if k == "enum":
            n = r.choice([1, 2, 3, 5, 200]) if not r.chance(1, 25) else r.choice([256, 257, 1000])
            nm = self.name("e")
            self.defs.append("  enum %s { %s }\n" % (nm, ", ".join("k%d" % i for i in range(n))))
            return nm
        if k == "flags":
            n = r.choice([1, 2, 7, 8, 9, 15, 16, 17, 31, 32]) if not r.chance(1, 6) else r.range(33, 65)
            nm = self.name("fl")
            self.defs.append("  flags %s { %s }\n" % (nm, ", ".join("b%d" % i for i in range(n))))
            return nm
        if k == "own":
            return self.res() if r.chance(1, 2) else "own<%s>" % self.res()
        if k == "borrow":
            return "borrow<%s>" % self.res()
        if k == "future":
            return "future" if r.chance(1, 4) else "future<%s>" % self.ty(d - 1, False)
        if k == "stream":
            return "stream" if r.chance(1, 4) else "stream<%s>" % self.ty(d - 1, False)
        if k == "errctx":
            return "error-context"
        raise AssertionError(k)


def gen_case(rng, nfuncs=3, depth=None):
    """Returns (wit_text, meta)."""
    g = G(rng, depth=depth if depth is not None else rng.range(1, 4))
    funcs = []
    for i in range(nfuncs):
        style = rng.weighted([("small", 6), ("edge", 3), ("many", 2), ("none", 1)])
        if style == "small":
            n = rng.range(1, 3)
        elif style == "edge":
            n = rng.choice([3, 4, 5, 15, 16, 17])
        elif style == "many":
            n = rng.range(6, 20)
        else:
            n = 0
        ps = []
        for j in range(n):
            d = g.depth if n <= 5 else min(g.depth, 1)
            ps.append("p%d: %s" % (j, g.ty(d, borrow_ok=True)))
        res = "" if rng.chance(1, 5) else " -> %s" % g.ty(g.depth, False)
        funcs.append("  f%d: func(%s)%s;\n" % (i, ", ".join(ps), res))
    text = "package t:p;\ninterface i {\n%s%s}\n" % ("".join(g.defs), "".join(funcs))
    return text, {"hist": g.hist, "nfuncs": nfuncs}


CORPUS = [
    # hand-written cases kept from development: every join pair, flat-limit edges, padding patterns
    "package t:p;\ninterface i {\n  variant v1 { a(s32), b(f32), c(s64), d(f64), e(string), g(list<u8>), h }\n  f0: func(x: v1) -> v1;\n}\n",
    "package t:p;\ninterface i {\n  record r1 { a: u8, b: u64, c: u16, d: string, e: u8 }\n  f0: func(x: r1, y: list<r1>) -> tuple<r1, r1>;\n}\n",
    "package t:p;\ninterface i {\n  f0: func(a: u32, b: u32, c: u32, d: u32, e: u32, f: u32, g: u32, h: u32, i: u32, j: u32, k: u32, l: u32, m: u32, n: u32, o: u32, p: u32) -> u32;\n  f1: func(a: u32, b: u32, c: u32, d: u32, e: u32, f: u32, g: u32, h: u32, i: u32, j: u32, k: u32, l: u32, m: u32, n: u32, o: u32, p: u32, q: u32) -> tuple<u32, u32>;\n}\n",
    "package t:p;\ninterface i {\n  flags fl1 { a, b, c, d, e, f, g, h, i }\n  f0: func(x: fl1, y: option<option<string>>, z: result<_, string>) -> result<list<string>, fl1>;\n}\n",
    "package t:p;\ninterface i {\n  resource res;\n  f0: func(x: borrow<res>, y: res, z: list<own<res>>) -> option<res>;\n  f1: func(x: future<string>, y: stream<u8>, z: error-context) -> stream;\n}\n",
    "package t:p;\ninterface i {\n  f0: func(x: list<string, 3>, y: map<string, list<u32>>) -> list<u64, 17>;\n}\n",
    # results exactly at / around the flat limits (1, 4, 16) — the async paths decide flat-vs-pointer on them
    "package t:p;\ninterface i {\n  f0: func() -> tuple<%s>;\n  f1: func() -> tuple<%s>;\n  f2: func() -> tuple<%s>;\n}\n" % (", ".join(["u32"] * 16), ", ".join(["u32"] * 15), ", ".join(["u32"] * 17)),
    "package t:p;\ninterface i {\n  f0: func() -> tuple<%s>;\n  f1: func(a: u8) -> tuple<u32, u64, f32, f64>;\n  f2: func() -> tuple<u32, u64, f32, f64, u8>;\n  f3: func() -> tuple<u32, u64, f32>;\n}\n" % ", ".join(["string"] * 8),
    "package t:p;\ninterface i {\n  f0: func(a: string, b: string) -> tuple<u32, u32>;\n  f1: func(a: tuple<u32, u32, u32, u32>) -> u32;\n  f2: func(a: tuple<u32, u32, u32, u32, u32>) -> string;\n}\n",
    "package t:p;\ninterface i {\n  f0: func() -> error-context;\n  f1: func() -> list<string, 3>;\n  f2: func() -> option<error-context>;\n}\n",
]
