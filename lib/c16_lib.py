"""C16 helpers (work package det-nopanic): everything that is re-derived from the CURRENT working tree of
wit-bindgen on every run —

  * per-backend test configuration: `should_fail_verify`, `codegen_test_variants`, default bindgen arguments, parsed
    from <REPO>/crates/test/src/<lang>.rs and evaluated on the tests/codegen corpus, from which the set of WIT features
    each backend (and option variant) DECLARES unsupported is computed;
  * WIT feature detection on world text (same vocabulary for corpus files and random worlds);
  * stable classification keys for panics: `lang:<file>:<enclosing fn>:<source line at the panic location>`;
  * the constructor -> arm tables of the anchored dispatch functions (Markdown `print_ty`, Markdown's `type_*`
    callbacks, core `define_type`, `WorldGenerator::generate`), scanned from the source text.
"""
import os, re, glob
import vf

LANGS = ["rust", "c", "cpp", "markdown", "moonbit", "csharp", "go", "d"]
TEST_LANG_FILE = {"rust": "rust.rs", "c": "c.rs", "cpp": "cpp.rs", "moonbit": "moonbit.rs", "csharp": "csharp.rs",
                  "go": "go.rs", "d": "d.rs"}  # markdown is not a test language: no declared exclusions

PANIC_MACROS = ("todo!", "unimplemented!", "unreachable!", "panic!", "assert!", "assert_eq!", "assert_ne!")


# ------------------------------------------------------------------------------------------ Rust text utilities
def strip_rust_comments(txt):
    """Remove // and /* */ comments, keep string literals intact, keep line structure."""
    out, i, n = [], 0, len(txt)
    while i < n:
        c = txt[i]
        if c == '"':
            j = i + 1
            while j < n and txt[j] != '"':
                j += 2 if txt[j] == "\\" else 1
            out.append(txt[i:j + 1]); i = j + 1; continue
        if c == "'" and i + 2 < n and (txt[i + 2] == "'" or (txt[i + 1] == "\\" and txt.find("'", i + 2) in (i + 3, i + 4))):
            j = txt.find("'", i + 2)
            out.append(txt[i:j + 1]); i = j + 1; continue
        if txt.startswith("//", i):
            j = txt.find("\n", i)
            i = n if j < 0 else j
            continue
        if txt.startswith("/*", i):
            depth, j = 1, i + 2
            while j < n and depth:
                if txt.startswith("/*", j): depth += 1; j += 2
                elif txt.startswith("*/", j): depth -= 1; j += 2
                else: j += 1
            out.append("\n" * txt.count("\n", i, j)); i = j; continue
        out.append(c); i += 1
    return "".join(out)


def match_brace(txt, i, open_="{", close="}"):
    """txt[i] is an opening bracket; returns index of the matching closing one (string-literal aware)."""
    depth, n = 0, len(txt)
    while i < n:
        c = txt[i]
        if c == '"':
            j = i + 1
            while j < n and txt[j] != '"':
                j += 2 if txt[j] == "\\" else 1
            i = j + 1; continue
        if c == open_: depth += 1
        elif c == close:
            depth -= 1
            if depth == 0:
                return i
        i += 1
    raise ValueError("unbalanced")


def fn_body(txt, name, start=0):
    """Body text (between the outer braces) of the first `fn <name>` at or after `start` that HAS a body; None if absent."""
    for m in re.finditer(r"\bfn\s+%s\b" % re.escape(name), txt):
        if m.start() < start:
            continue
        i = m.end()
        # find '{' or ';' at paren depth 0
        depth = 0
        while i < len(txt):
            c = txt[i]
            if c in "(<[": depth += 1 if c != "<" else 0
            if c in ")]": depth -= 1
            if c == "(": pass
            if c == ";" and depth <= 0: break
            if c == "{" and depth <= 0:
                j = match_brace(txt, i)
                return txt[i + 1:j]
            i += 1
    return None


def split_top(txt, sep=","):
    """Split at `sep` on bracket depth 0 (string aware)."""
    parts, depth, cur, i, n = [], 0, [], 0, len(txt)
    while i < n:
        c = txt[i]
        if c == '"':
            j = i + 1
            while j < n and txt[j] != '"':
                j += 2 if txt[j] == "\\" else 1
            cur.append(txt[i:j + 1]); i = j + 1; continue
        if c in "([{": depth += 1
        elif c in ")]}": depth -= 1
        if depth == 0 and txt.startswith(sep, i):
            parts.append("".join(cur)); cur = []; i += len(sep); continue
        cur.append(c); i += 1
    parts.append("".join(cur))
    return parts


def match_arms(body):
    """Arms of the FIRST `match … {` in `body`: list of (pattern text, arm body text)."""
    m = re.search(r"\bmatch\b[^{;]*\{", body)
    if not m:
        return None
    i = m.end() - 1
    j = match_brace(body, i)
    inner = body[i + 1:j]
    arms, k, n = [], 0, len(inner)
    while k < n:
        # pattern up to '=>' on depth 0
        depth, p = 0, k
        while p < n:
            c = inner[p]
            if c == '"':
                q = p + 1
                while q < n and inner[q] != '"':
                    q += 2 if inner[q] == "\\" else 1
                p = q + 1; continue
            if c in "([{": depth += 1
            elif c in ")]}": depth -= 1
            if depth == 0 and inner.startswith("=>", p): break
            p += 1
        if p >= n:
            break
        pat = inner[k:p].strip()
        p += 2
        while p < n and inner[p].isspace(): p += 1
        if p < n and inner[p] == "{":
            q = match_brace(inner, p)
            arm = inner[p:q + 1]
            p = q + 1
            while p < n and (inner[p].isspace() or inner[p] == ","): p += 1
        else:
            depth, q = 0, p
            while q < n:
                c = inner[q]
                if c == '"':
                    r = q + 1
                    while r < n and inner[r] != '"':
                        r += 2 if inner[r] == "\\" else 1
                    q = r + 1; continue
                if c in "([{": depth += 1
                elif c in ")]}": depth -= 1
                if depth == 0 and c == ",": break
                q += 1
            arm = inner[p:q]
            p = q + 1
        arms.append((pat, arm.strip()))
        k = p
    return arms


def arm_verdict(arm):
    """'ok' or 'err:<macro>' — an arm is a panic arm iff a panicking macro occurs in it outside nested closures… (any
    occurrence counts: conservative)."""
    for mac in PANIC_MACROS:
        if re.search(r"(?<![A-Za-z0-9_])" + re.escape(mac), arm):
            return "err:" + mac[:-1]
    return "ok"


def pattern_ctors(pat, enum):
    """Constructors of `enum` named by a pattern like `TypeDefKind::A(_) | TypeDefKind::B`; '_' for a wildcard."""
    out = []
    for alt in split_top(pat, "|"):
        alt = alt.strip()
        if alt == "_":
            out.append("_"); continue
        m = re.match(r"(?:&\s*)?%s::([A-Za-z0-9_]+)\s*(.*)$" % re.escape(enum), alt, flags=re.S)
        if m:
            rest = m.group(2)
            sub = re.search(r"Handle::(Own|Borrow)", rest)
            out.append(m.group(1) + (sub.group(1) if sub else ""))
        else:
            out.append("?" + alt)
    return out


# ------------------------------------------------------------------------------------------ dispatch tables (translator tie)
def wit_parser_src():
    """Directory of the wit-parser version pinned by <REPO>/Cargo.lock in the local cargo registry."""
    lock = open(os.path.join(vf.REPO, "Cargo.lock")).read()
    m = re.search(r'name = "wit-parser"\nversion = "([^"]+)"', lock)
    ver = m.group(1) if m else "*"
    c = sorted(glob.glob(os.path.expanduser("~/.cargo/registry/src/*/wit-parser-%s" % ver)))
    return c[0] if c else None


def enum_ctors(src_txt, name):
    m = re.search(r"pub enum %s\s*\{" % re.escape(name), src_txt)
    if not m:
        return None
    j = match_brace(src_txt, m.end() - 1)
    body = src_txt[m.end():j]
    body = re.sub(r"#\[[^\]]*\]", "", body)
    return [re.match(r"\s*([A-Za-z0-9_]+)", p).group(1) for p in split_top(body) if p.strip()]


def dispatch_tables():
    """Re-derives from the working tree:  {table name: {constructor: 'ok' | 'err:<macro>'}}  for the anchored functions.
    Raises ValueError with a message when an anchor can no longer be located."""
    t = {}
    wp = wit_parser_src()
    if not wp:
        raise ValueError("wit-parser source not found in the cargo registry")
    wtxt = strip_rust_comments(open(os.path.join(wp, "src", "lib.rs")).read())
    kinds = enum_ctors(wtxt, "TypeDefKind")
    types = enum_ctors(wtxt, "Type")
    if not kinds or not types:
        raise ValueError("enum TypeDefKind / Type not found in wit-parser")
    t["enum:TypeDefKind"] = {k: "ctor" for k in kinds}
    t["enum:Type"] = {k: "ctor" for k in types}

    md = strip_rust_comments(open(os.path.join(vf.REPO, "crates/markdown/src/lib.rs")).read())
    core = strip_rust_comments(open(os.path.join(vf.REPO, "crates/core/src/lib.rs")).read())

    def expand(tab, all_ctors, what):
        """Handle is split into HandleOwn/HandleBorrow in the model; wildcard arms cover the remaining constructors."""
        out = {}
        wild = tab.pop("_", None)
        for k, v in tab.items():
            if k == "Handle":
                out["HandleOwn"] = v; out["HandleBorrow"] = v
            else:
                out[k] = v
        for k in all_ctors:
            ks = ["HandleOwn", "HandleBorrow"] if k == "Handle" else [k]
            for kk in ks:
                if kk not in out:
                    if wild is None:
                        raise ValueError("%s: no arm for %s" % (what, kk))
                    out[kk] = wild
        return out

    # Markdown print_ty: outer match on Type, inner match on &ty.kind
    b = fn_body(md, "print_ty")
    if b is None:
        raise ValueError("markdown: fn print_ty not found")
    outer = match_arms(b)
    tab, inner_body = {}, None
    for pat, arm in outer:
        for c in pattern_ctors(pat, "Type"):
            if c == "Id":
                inner_body = arm
                tab[c] = "ok"  # judged by the inner table
            else:
                tab[c] = arm_verdict(arm)
    t["md:print_ty:Type"] = expand(tab, types, "markdown print_ty (Type)")
    if inner_body is None:
        raise ValueError("markdown print_ty: no Type::Id arm")
    if not re.search(r"if\s+let\s+Some\(\s*name\s*\)\s*=\s*&ty\.name\s*\{", inner_body) or "return" not in inner_body.split("match")[0]:
        raise ValueError("markdown print_ty: the `if let Some(name) = &ty.name { … return }` prefix of the Id arm changed")
    pre = inner_body.split("match")[0]
    if arm_verdict(pre) != "ok":
        raise ValueError("markdown print_ty: panicking macro before the kind dispatch")
    inner = match_arms(inner_body[inner_body.index("match"):])
    tab = {}
    for pat, arm in inner:
        for c in pattern_ctors(pat, "TypeDefKind"):
            tab[c] = arm_verdict(arm)
    t["md:print_ty:kind"] = expand(tab, kinds, "markdown print_ty (TypeDefKind)")

    # Markdown type_* callbacks (impl InterfaceGenerator for markdown's InterfaceGenerator)
    impl_at = md.find("impl<'a> wit_bindgen_core::InterfaceGenerator<'a> for InterfaceGenerator<'a>")
    if impl_at < 0:
        raise ValueError("markdown: impl of wit_bindgen_core::InterfaceGenerator not found")
    cb = {}
    for name in ["type_record", "type_resource", "type_flags", "type_tuple", "type_variant", "type_option", "type_result",
                 "type_enum", "type_alias", "type_list", "type_fixed_length_list", "type_map", "type_future", "type_stream"]:
        bb = fn_body(md, name, impl_at)
        if bb is None:
            raise ValueError("markdown: fn %s not found" % name)
        cb[name] = arm_verdict(bb)
    t["md:callbacks"] = cb
    # which print_ty argument the delegating callbacks use (type_list & co print Type::Id(id) = the named type itself)
    deleg = {}
    for name in ["type_list", "type_fixed_length_list", "type_map"]:
        bb = re.sub(r"\s+", "", fn_body(md, name, impl_at))
        deleg[name] = "alias-of-self" if bb == "self.type_alias(id,name,&Type::Id(id),docs);" else "other:" + bb[:60]
    t["md:delegation"] = deleg

    # core define_type
    at = core.find("pub fn define_type")
    b = fn_body(core, "define_type", at if at >= 0 else 0)
    if at < 0 or b is None:
        raise ValueError("core: pub fn define_type not found")
    tab, calls = {}, {}
    for pat, arm in match_arms(b):
        for c in pattern_ctors(pat, "TypeDefKind"):
            tab[c] = arm_verdict(arm)
            m = re.search(r"generator\.(type_[a-z_]+)\(", arm)
            calls[c] = m.group(1) if m else "-"
    t["core:define_type"] = expand(tab, kinds, "core define_type")
    t["core:define_type:callback"] = expand(calls, kinds, "core define_type")

    # core WorldGenerator::generate — the export loop's `WorldItem::Type { .. } => unreachable!()`
    b = fn_body(core, "generate")
    if b is None:
        raise ValueError("core: fn generate not found")
    loops = [m.start() for m in re.finditer(r"\bmatch\s+(import|export)\s*\{", b)]
    if len(loops) != 2:
        raise ValueError("core generate: expected one `match import` and one `match export`")
    for which, at in zip(("imports", "exports"), loops):
        tab = {}
        for pat, arm in match_arms(b[at:]):
            for c in pattern_ctors(pat, "WorldItem"):
                tab[c] = arm_verdict(arm)
        t["core:generate:" + which] = tab
    return t


def tables_to_text(t):
    return "\n".join("%s %s=%s" % (name, k, v) for name in sorted(t) for k, v in sorted(t[name].items())) + "\n"


# ------------------------------------------------------------------------------------------ crates/test/src/<lang>.rs
def _rust_expr_to_py(e):
    e = e.strip().rstrip(";").strip()
    e = re.sub(r"\breturn\b", "", e)

    def matches(m):
        alts = [a.strip() for a in split_top(m.group(1), "|")]
        return "(name in (%s,))" % ", ".join(alts)
    e = re.sub(r"matches!\(\s*name\s*,((?:[^()]|\([^()]*\))*)\)", matches, e, flags=re.S)

    def match_name(m):
        arms = match_arms("match name {" + m.group(1) + "}")
        pos = []
        for pat, arm in arms:
            if pat.strip() == "_":
                if arm.strip() != "false":
                    raise ValueError("match name: wildcard arm is not false")
            elif arm.strip() == "true":
                pos += [a.strip() for a in split_top(pat, "|")]
            else:
                raise ValueError("match name: arm %r => %r" % (pat, arm))
        return "(name in (%s,))" % ", ".join(pos)
    e = re.sub(r"match\s+name\s*\{((?:[^{}])*)\}", match_name, e, flags=re.S)
    e = re.sub(r"name\.starts_with\(", "name.startswith(", e)
    e = e.replace("config.error_context", "C['error_context']").replace("config.async_", "C['async']")
    e = e.replace("runner.go_async_supported()", "GO_ASYNC")
    e = e.replace("||", " or ").replace("&&", " and ")
    e = re.sub(r"!(?=[A-Za-z(])", " not ", e)
    e = re.sub(r"\btrue\b", "True", e)
    e = re.sub(r"\bfalse\b", "False", e)
    return e.strip()


def _compile_should_fail(body):
    """Statement-level translation of a `should_fail_verify` body into a Python function (name, C) -> bool."""
    body = body.strip()
    stmts = []     # list of ("if", cond, retexpr) | ("ret", expr)
    i, n = 0, len(body)
    while i < n:
        while i < n and body[i].isspace(): i += 1
        if i >= n: break
        if body.startswith("if", i) and re.match(r"if\b", body[i:]):
            j = body.index("{", i)
            # the condition may itself contain no braces in these files
            cond = body[i + 2:j]
            k = match_brace(body, j)
            inner = body[j + 1:k].strip()
            m = re.match(r"return\s+(.*);\s*$", inner, flags=re.S)
            if not m:
                raise ValueError("unsupported if-body: %r" % inner[:80])
            stmts.append(("if", _rust_expr_to_py(cond), _rust_expr_to_py(m.group(1))))
            i = k + 1
            if re.match(r"\s*else\b", body[i:]):
                raise ValueError("else branch not supported")
        else:
            # tail expression or `return …;` up to the end / to the ';' on depth 0
            parts = split_top(body[i:], ";")
            expr = parts[0]
            stmts.append(("ret", _rust_expr_to_py(expr)))
            i += len(expr) + 1
            if "".join(parts[1:]).strip():
                # something follows a return: only allowed if this was an explicit `return`
                if not expr.strip().startswith("return"):
                    raise ValueError("statement not understood: %r" % expr[:80])
            break
    if not stmts or stmts[-1][0] != "ret":
        raise ValueError("no final value")
    codes = [(k, compile(a, "<should_fail_verify>", "eval"), compile(b, "<should_fail_verify>", "eval") if b else None)
             for k, a, b in [(s[0], s[1], s[2] if len(s) > 2 else None) for s in stmts]]

    def f(name, C, go_async=True):
        env = {"name": name, "C": C, "GO_ASYNC": go_async}
        for k, a, b in codes:
            if k == "if":
                if eval(a, {}, env):
                    return bool(eval(b, {}, env))
            else:
                return bool(eval(a, {}, env))
        raise AssertionError
    f.source = stmts
    return f


def _str_list(body):
    return re.findall(r'"((?:[^"\\]|\\.)*)"', body)


class LangTests:
    pass


def parse_lang_tests(lang):
    """should_fail_verify (as a Python function), codegen variants and default args of one backend, from the working tree."""
    lt = LangTests()
    lt.lang = lang
    if lang not in TEST_LANG_FILE:
        lt.should_fail = lambda name, C, go_async=True: False
        lt.should_fail.source = "(not a test language: no should_fail_verify; the property names no exclusion)"
        lt.variants, lt.default_args, lt.codegen_args = [], [], []
        return lt
    path = os.path.join(vf.REPO, "crates/test/src", TEST_LANG_FILE[lang])
    txt = strip_rust_comments(open(path).read())
    b = fn_body(txt, "should_fail_verify")
    if b is None:
        raise ValueError("%s: fn should_fail_verify not found" % path)
    lt.should_fail = _compile_should_fail(b)
    lt.should_fail_text = re.sub(r"\s+", " ", b).strip()
    lt.variants = []
    vb = fn_body(txt, "codegen_test_variants")
    if vb is not None:
        inner = vb.strip()
        m = re.match(r"&\[(.*)\]\s*$", inner, flags=re.S)
        if not m:
            raise ValueError("%s: codegen_test_variants body not a slice literal" % path)
        for tup in split_top(m.group(1)):
            tup = tup.strip()
            if not tup:
                continue
            mm = re.match(r'\(\s*"([^"]+)"\s*,\s*&\[(.*)\]\s*,?\s*\)$', tup, flags=re.S)
            if not mm:
                raise ValueError("%s: variant %r not understood" % (path, tup[:80]))
            lt.variants.append((mm.group(1), _str_list(mm.group(2))))

    def args_of(fname):
        bb = fn_body(txt, fname)
        return _str_list(bb) if bb is not None else []
    lt.default_args = args_of("default_bindgen_args")
    lt.codegen_args = args_of("default_bindgen_args_for_codegen")
    return lt


# ------------------------------------------------------------------------------------------ WIT features
FEATURES = ["resources", "futures", "streams", "async", "fixed", "maps", "errctx", "fallible-ctor", "async-method", "handle-alias"]


def strip_wit_comments(t):
    t = re.sub(r"/\*.*?\*/", " ", t, flags=re.S)
    return re.sub(r"//[^\n]*", "", t)


def wit_features(text):
    """Feature vocabulary = witgen's features + three finer ones that crates/test names individually."""
    t = strip_wit_comments(text)
    f = set()
    if re.search(r"(?<![a-z0-9%-])resource\s+%?[a-z]", t): f.add("resources")
    if re.search(r"(?<![a-z0-9%-])future(?![a-z0-9-])", t): f.add("futures")
    if re.search(r"(?<![a-z0-9%-])stream(?![a-z0-9-])", t): f.add("streams")
    if re.search(r":\s*(static\s+)?async\s+func", t): f.add("async")
    if re.search(r"list<[^;{}]*,\s*[0-9]+\s*>", t): f.add("fixed")
    if re.search(r"(?<![a-z0-9%-])map<", t): f.add("maps")
    if re.search(r"(?<![a-z0-9%-])error-context(?![a-z0-9-])", t): f.add("errctx")
    if re.search(r"constructor\([^;]*\)\s*->", t): f.add("fallible-ctor")
    # async func inside a resource body
    for m in re.finditer(r"(?<![a-z0-9%-])resource\s+%?[a-z0-9-]+\s*\{", t):
        j = match_brace(t, m.end() - 1)
        if re.search(r":\s*(static\s+)?async\s+func", t[m.end():j]):
            f.add("async-method")
    if re.search(r"(?<![a-z0-9%-])type\s+%?[a-z0-9-]+\s*=\s*(own|borrow)<", t): f.add("handle-alias")
    return f


def wit_config(text):
    """`//@ key = value` header lines as crates/test's config parser reads them (only the two booleans matter here)."""
    C = {"async": False, "error_context": False}
    for line in text.split("\n"):
        s = line.strip()
        if not s:
            continue
        if not s.startswith("//@"):
            break
        m = re.match(r"//@\s*([a-z-]+)\s*=\s*(\S+)", s)
        if m and m.group(1) == "async": C["async"] = m.group(2) == "true"
        if m and m.group(1) == "error-context": C["error_context"] = m.group(2) == "true"
    return C


def config_of_features(feats):
    """The header a test author has to write for a world with these features (what tests/codegen does)."""
    return {"async": bool(feats & {"futures", "streams", "async", "errctx", "async-method"}), "error_context": "errctx" in feats}


def codegen_corpus():
    """[(test name as crates/test uses it, wit text (all files concatenated for directories), path)]"""
    out = []
    base = os.path.join(vf.REPO, "tests", "codegen")
    for e in sorted(os.listdir(base)):
        p = os.path.join(base, e)
        if os.path.isdir(p):
            txt = ""
            for d, _, fs in sorted(os.walk(p)):
                for f in sorted(fs):
                    if f.endswith(".wit"):
                        txt += open(os.path.join(d, f)).read() + "\n"
            out.append((e, txt, p))
        elif e.endswith(".wit"):
            out.append((e, open(p).read(), p))
    return out


def declared_unsupported(lt, corpus=None):
    """{variant kind ('' = default): set of features the backend declares unsupported}, plus the explanation rows.
    A feature is declared unsupported for (backend, variant) when
      (flag)  should_fail_verify is true for an otherwise unknown test name with the config flag the feature implies, or
      (name)  a tests/codegen file is excluded BY NAME and the feature occurs in it but in no file that is expected to pass.
    """
    corpus = corpus or codegen_corpus()
    res, rows = {}, []
    fresh = "zz-not-a-test.wit"
    feats_of = {n: wit_features(t) for n, t, _ in corpus}
    cfg_of = {n: wit_config(t) for n, t, _ in corpus}
    for kind, _ in [("", [])] + list(lt.variants):
        def tname(n):
            return n + ("-" + kind if kind else "")
        U = set()
        if lt.should_fail(tname(fresh), {"async": True, "error_context": False}):
            U |= {"futures", "streams", "async", "async-method"}
            rows.append((kind, "config.async_", sorted({"futures", "streams", "async", "async-method"})))
        if lt.should_fail(tname(fresh), {"async": True, "error_context": True}) and \
                not lt.should_fail(tname(fresh), {"async": True, "error_context": False}) or \
                lt.should_fail(tname(fresh), {"async": False, "error_context": True}):
            U |= {"errctx"}
            rows.append((kind, "config.error_context", ["errctx"]))
        passing = set()
        by_name = []
        for n, _, _ in corpus:
            C = cfg_of[n]
            if lt.should_fail(tname(n), C):
                if not lt.should_fail(tname(fresh), C):
                    by_name.append(n)
            else:
                passing |= feats_of[n]
        for n in by_name:
            d = feats_of[n] - passing
            rows.append((kind, "name:" + n, sorted(d)))
            U |= d
        res[kind] = U
    return res, rows


# ------------------------------------------------------------------------------------------ panic keys
_src_cache = {}


def _src_lines(path):
    if path not in _src_cache:
        try:
            _src_cache[path] = open(path, errors="replace").read().split("\n")
        except OSError:
            _src_cache[path] = None
    return _src_cache[path]


def panic_key(lang, loc, msg):
    """Stable key of a panic: backend, file (relative to the repo, or registry crate), enclosing fn, source line text."""
    m = re.match(r"(.*):(\d+):(\d+)$", loc)
    if not m:
        return "%s:?:%s" % (lang, re.sub(r"\s+", "_", re.sub(r"\d+", "N", msg))[:80])
    path, line = m.group(1), int(m.group(2))
    rel = path
    rp = os.path.realpath(vf.REPO)
    if path.startswith(vf.REPO + "/"):
        rel = path[len(vf.REPO) + 1:]
    elif path.startswith(rp + "/"):
        rel = path[len(rp) + 1:]
    else:
        mm = re.search(r"/registry/src/[^/]+/(.*)$", path)
        if mm:
            rel = "dep:" + mm.group(1)
    lines = _src_lines(path)
    fn, text = "?", ""
    if lines and 0 < line <= len(lines):
        text = re.sub(r"\s+", "", lines[line - 1])[:90]
        for k in range(line - 1, -1, -1):
            mm = re.match(r"\s*(?:pub(?:\([a-z]+\))?\s+)?(?:async\s+)?(?:unsafe\s+)?fn\s+([A-Za-z0-9_]+)", lines[k])
            if mm:
                fn = mm.group(1); break
    key = "%s:%s:%s:%s" % (lang, rel, fn, text)
    if not any(mac in text for mac in PANIC_MACROS):
        # the location names an unwrap()/expect()/index expression (or a #[track_caller] caller), not a panic macro: the
        # line alone does not say WHAT failed, so the message (digits abstracted) is part of the class
        key += ":" + re.sub(r"\s+", "", re.sub(r"\d+", "N", msg))[:90]
    return key


# ------------------------------------------------------------------------------------------ supervised filter runs
def run_supervised(cmd, lines, shards=None, stall=150, chunk=4000):
    """Like vf.run_filter, for filters that flush one result line per case, but a case that produces no result for `stall`
    seconds is killed and answered `hang <seconds>`; the remaining cases of that shard continue in a fresh process.
    Returns the list of output lines in input order."""
    import subprocess, tempfile, threading, time, concurrent.futures
    if not lines:
        return []
    shards = shards or min(vf.NCPU, max(1, len(lines) // 64))
    res = [None] * len(lines)

    def one(idx):
        pos = 0
        while pos < len(idx):
            part = idx[pos:pos + chunk]
            with tempfile.TemporaryDirectory(prefix="c16run") as d:
                inp, outp = os.path.join(d, "in"), os.path.join(d, "out")
                with open(inp, "w") as f:
                    f.write("\n".join(lines[i] for i in part) + "\n")
                with open(inp) as fi, open(outp, "w") as fo:
                    p = subprocess.Popen(cmd, stdin=fi, stdout=fo, stderr=subprocess.DEVNULL)
                    last_size, last_t = -1, time.time()
                    hung = False
                    while p.poll() is None:
                        time.sleep(0.5)
                        sz = os.path.getsize(outp)
                        if sz != last_size:
                            last_size, last_t = sz, time.time()
                        elif time.time() - last_t > stall:
                            p.kill(); p.wait(); hung = True
                            break
                outl = open(outp, errors="replace").read().split("\n")
                if outl and outl[-1] == "":
                    outl.pop()
                elif outl and hung:
                    outl.pop()      # partial last line
                for i, o in zip(part, outl):
                    res[i] = o
                done = len(outl)
                if done < len(part):
                    if hung:
                        res[part[done]] = "hang %d" % stall
                    else:
                        res[part[done]] = "crash rc=%s" % p.returncode   # process died (abort, stack overflow, …)
                    pos += done + 1
                else:
                    pos += len(part)
        return True

    groups = [list(range(i, len(lines), shards)) for i in range(shards)]
    with concurrent.futures.ThreadPoolExecutor(max_workers=shards) as ex:
        list(ex.map(one, groups))
    return res
