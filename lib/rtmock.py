"""Shared helpers for the checks that run wit-bindgen's async runtime against the native mock host
`harness/crates/rtmock` (hook H1).  Owners: async-infra (C18, C21); used by C19, C20, C22, C23.

build(bin, features=None)  -> (ok, exe, log)   builds `harness/crates/rtmock` bin `bin` with
    RUSTFLAGS="--cfg bytecodealliance_wit_bindgen_verif" and copies the executable to
    build/rtmock/<repo-tag>/<bin>[+feature…] so that builds with different cargo features (which
    share one cargo target dir and one exe path) do not overwrite each other.
run(exe, lines)            -> list of output lines (vf.run_filter; a scenario whose process died is
    re-run alone and reported as "ABORT:<last stderr line>", the rest of the shard is re-run).
"""
import os, shutil, hashlib
import vf

FEATURE_SETS = {"default": None, "async-spawn": ["async-spawn"], "inter-task-wakeup": ["inter-task-wakeup"],
                "all": ["async-spawn", "inter-task-wakeup"]}


def build(bin, features=None, package="rtmock"):
    feats = sorted(features) if features else []
    tag = hashlib.sha256(os.path.realpath(vf.REPO).encode()).hexdigest()[:10]
    outdir = os.path.join(vf.BUILD, "rtmock", tag)
    os.makedirs(outdir, exist_ok=True)
    dst = os.path.join(outdir, bin + "".join("+" + f for f in feats))
    with vf.Lock("rtmock-build"):
        ok, exe, log = vf.cargo_build(package, hook=True, features=feats or None, bin=bin)
        if ok:
            tmp = dst + ".tmp%d" % os.getpid()
            shutil.copy2(exe, tmp)
            os.replace(tmp, dst)
    return ok, (dst if ok else None), log


def _run_shard(exe, lines, timeout, env):
    """One process at a time over `lines`; a scenario that kills the process is reported as ABORT:<stderr tail>
    and the run resumes with the next line."""
    out = []
    i = 0
    while i < len(lines):
        rc, so, se = vf.sh2([exe], input="\n".join(lines[i:]) + "\n", timeout=timeout, env=env)
        got = so.split("\n")
        if got and got[-1] == "":
            got.pop()
        got = got[:len(lines) - i]
        out += got
        i += len(got)
        if i < len(lines):
            last = [l for l in se.strip().split("\n") if l.strip()]
            out.append("ABORT:" + (last[-1].strip().replace(" ", "_") if last else "rc=%s" % rc))
            i += 1
    return out


def run(exe, lines, timeout=1200, env=None, shards=None):
    """Line filter, sharded over the cores, that survives process aborts (a Rust panic inside an
    `extern "C"` frame aborts the process)."""
    import concurrent.futures
    if not lines:
        return []
    shards = shards or min(vf.NCPU, max(1, len(lines) // 64))
    chunks = [lines[i::shards] for i in range(shards)]
    with concurrent.futures.ThreadPoolExecutor(max_workers=shards) as ex:
        outs = list(ex.map(lambda c: _run_shard(exe, c, timeout, env), chunks))
    res = [None] * len(lines)
    for i, o in enumerate(outs):
        res[i::shards] = o
    return res


# ------------------------------------------------------------------------------------------------
# C21 scenario generator (input format of harness/crates/rtmock/src/bin/subtask.rs)
# ------------------------------------------------------------------------------------------------
def gen_subtask_case(rng, malformed=False):
    """One line `<ver> <size> <ind> <nlists> <nown> <callstatus> <callhandle> | actions`.
    Mostly CM-valid host behaviour; with malformed=True also statuses/answers the CM never gives."""
    ver = rng.choice([1, 2, 2])
    size = rng.choice([0, 72, 72])
    ind = rng.below(2) if size else 0
    nl = rng.choice([0, 0, 1, 2, 5])
    no = rng.choice([0, 0, 1, 3])
    cs, ch = rng.weighted([((0, 1), 5), ((1, 1), 3), ((2, 0), 2)])
    if malformed and rng.chance(1, 3):
        cs, ch = rng.choice([(2, 1), (0, 0), (1, 0), (3, 1), (4, 1), (5, 1), (3, 0), (4, 0), (9, 1)])
    acts = []
    level, polled, gone = cs, False, False
    if rng.chance(5, 6):
        acts.append("p"); polled = True
    for _ in range(rng.range(0, 9)):
        k = rng.weighted([("p", 5), ("h", 4), ("w", 4), ("x", 1)])
        if k == "p":
            acts.append("p"); polled = True
        elif k == "w":
            acts.append("w")
        elif k == "h":
            if malformed and rng.chance(1, 3):
                acts.append("h%d" % rng.choice([0, 1, 2, 3, 4, 7]))
            else:
                opts = [c for c in (1, 2) if c > level]
                if not opts or not polled or gone:
                    continue
                c = rng.choice(opts); level = c
                acts.append("h%d" % c)
        else:
            acts += _subtask_drop(rng, level, polled, malformed); gone = True
    if not gone and rng.chance(4, 5):
        acts += _subtask_drop(rng, level, polled, malformed)
        if rng.chance(1, 6):
            acts += [rng.choice(["p", "w", "x"])]
    return "%d %d %d %d %d %d %d | %s" % (ver, size, ind, nl, no, cs, ch, " ".join(acts))


def _subtask_drop(rng, level, polled, malformed):
    if polled and rng.chance(2, 3):
        opts = {0: [2, 3, 4], 1: [2, 4]}.get(level, [2])
        if malformed and rng.chance(1, 2):
            opts = [0, 1, 2, 3, 4, 5]
        return ["a%d" % rng.choice(opts), "x"]
    return ["x"]


# ------------------------------------------------------------------------------------------------
# C18 scenario generator (input format of harness/crates/rtmock/src/bin/waitop.rs)
# ------------------------------------------------------------------------------------------------
BLOCKED = 4294967295


def _completion(rng, kind, cancel=False, malformed=False):
    if malformed and rng.chance(1, 5):
        return rng.choice([3, 7, 19, 0x25, 5, 6, 35, 64 + 3])
    if kind == "st":
        return rng.choice([2, 3, 4] if cancel else [1, 2])
    if kind == "fr":
        return rng.choice([0, 2]) if cancel else 0
    k = rng.choice([0, 0, 1] + ([2, 2] if cancel else []))
    return k | (rng.choice([0, 1, 2, 4]) << 4)


def gen_waitop_case(rng, malformed=False):
    v = [rng.choice([1, 2, 2]), rng.choice([1, 2, 2])]
    nops = rng.weighted([(1, 3), (2, 5), (3, 2)])
    kinds = [rng.choice(["st", "sr", "sw", "fr"]) for _ in range(nops)]
    phase = ["start"] * nops          # start | prog | done | gone
    last = [None] * nops
    level = [0] * nops                # subtasks: last status the host committed to
    hasev = [False] * nops
    acts = []
    both_v2 = v[0] == 2 and v[1] == 2
    for _ in range(rng.range(1, 14)):
        o = rng.below(nops)
        k = kinds[o]
        t = rng.below(2)
        if last[o] is not None and not (both_v2 or (malformed and rng.chance(1, 3))):
            t = last[o]
        elif last[o] is not None and rng.chance(2, 3):
            t = last[o]
        kind = rng.weighted([("p", 6), ("h", 4), ("w", 5), ("c", 2), ("d", 2)])
        if kind == "p":
            if phase[o] == "start":
                if k == "st":
                    a = rng.weighted([(None, 2), (0, 4), (1, 3), (2, 2)]) if not (malformed and rng.chance(1, 5)) else rng.choice([3, 4, 5, 9])
                    acts.append("p%d.%d" % (t, o) + ("" if a is None else "=%d" % a))
                    level[o] = a or 0
                    phase[o] = "done" if a == 2 else "prog"
                else:
                    if rng.chance(1, 4):
                        a = _completion(rng, k, False, malformed)
                        acts.append("p%d.%d=%d" % (t, o, a)); phase[o] = "done"
                    else:
                        acts.append("p%d.%d" % (t, o) + ("=B" if rng.chance(1, 3) else "")); phase[o] = "prog"
                last[o] = t
            elif phase[o] == "prog" or (malformed and rng.chance(1, 2)):
                acts.append("p%d.%d" % (t, o)); last[o] = t
                if hasev[o] == "delivered":
                    hasev[o] = False
                    if not (k == "st" and level[o] < 2):
                        phase[o] = "done"
        elif kind == "h":
            if phase[o] == "prog" and not hasev[o] or (malformed and rng.chance(1, 3)):
                if k == "st":
                    opts = [c for c in (1, 2) if c > level[o]]
                    if not opts and not malformed:
                        continue
                    c = rng.choice(opts) if opts and not (malformed and rng.chance(1, 4)) else rng.choice([0, 1, 2, 3, 4])
                    level[o] = c
                    hasev[o] = "queued" if c >= 2 else False
                    acts.append("h%d=%d" % (o, c))
                else:
                    acts.append("h%d=%d" % (o, _completion(rng, k, False, malformed))); hasev[o] = "queued"
        elif kind == "w":
            t = rng.below(2)
            acts.append("w%d" % t + (".%d" % o if rng.chance(1, 3) else ""))
            for i in range(nops):
                if hasev[i] == "queued" and last[i] == t:
                    hasev[i] = "delivered"; break
        elif kind == "c":
            if k != "st" and (phase[o] in ("start", "prog") or (malformed and rng.chance(1, 2))):
                a = ""
                if phase[o] == "prog" and rng.chance(1, 2) and not hasev[o]:
                    a = "=%d" % _completion(rng, k, True, malformed)
                acts.append("c%d.%d%s" % (t, o, a)); phase[o] = "done"
        else:
            if phase[o] != "gone" or (malformed and rng.chance(1, 3)):
                a = ""
                if phase[o] == "prog" and rng.chance(1, 2) and not hasev[o]:
                    c = _completion(rng, k, True, malformed)
                    if k == "st" and level[o] >= 1 and c == 3 and not malformed:
                        c = 4
                    a = "=%d" % c
                acts.append("d%d.%d%s" % (t, o, a)); phase[o] = "gone"
    if rng.chance(2, 3):   # tidy up: drop whatever is alive (under its own task)
        for o in range(nops):
            if phase[o] != "gone":
                acts.append("d%d.%d" % (last[o] if last[o] is not None else 0, o))
    return "%d %d | %s | %s" % (v[0], v[1], " ".join(kinds), " ".join(acts))


def gen_taskabi_case(rng):
    """Input of harness/crates/rtmock/src/bin/taskabi.rs: register/unregister/deliver on waitable indices 1-7
    (index 0 is the driver's sentinel); events only for currently registered waitables."""
    reg, ops = set(), []
    for _ in range(rng.range(0, 14)):
        k = rng.weighted([("r", 5), ("u", 3), ("e", 3)])
        w = rng.range(1, 7)
        if k == "r":
            ops.append("r%d.%d" % (w, rng.range(1, 9))); reg.add(w)
        elif k == "u":
            ops.append("u%d" % w); reg.discard(w)
        elif reg:
            w = rng.choice(sorted(reg))
            ops.append("e%d=%d" % (w, rng.below(5))); reg.discard(w)
    return " ".join(ops)
