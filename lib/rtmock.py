"""Shared helpers for the checks that run wit-bindgen's async runtime against the native mock host
`harness/crates/rtmock` (hook H1).  Owners: async-infra (C18, C21); used by C19, C20, C22, C23.

build(bin, features=None)  -> (ok, exe, log)   builds `harness/crates/rtmock` bin `bin` with
    RUSTFLAGS="--cfg bytecodealliance_wit_bindgen_verif" and copies the executable to
    build/rtmock/<repo-tag>/<bin>[+feature…] so that builds with different cargo features (which
    share one cargo target dir and one exe path) do not overwrite each other.
run(exe, lines)            -> list of output lines (vf.run_filter; a scenario whose process died is
    re-run alone and reported as "ABORT:<last stderr line>", the rest of the shard is re-run).
"""
import os, shutil, hashlib
import vf

FEATURE_SETS = {"default": None, "async-spawn": ["async-spawn"], "inter-task-wakeup": ["inter-task-wakeup"],
                "all": ["async-spawn", "inter-task-wakeup"]}


def build(bin, features=None, package="rtmock"):
    feats = sorted(features) if features else []
    tag = hashlib.sha256(os.path.realpath(vf.REPO).encode()).hexdigest()[:10]
    outdir = os.path.join(vf.BUILD, "rtmock", tag)
    os.makedirs(outdir, exist_ok=True)
    dst = os.path.join(outdir, bin + "".join("+" + f for f in feats))
    with vf.Lock("rtmock-build"):
        ok, exe, log = vf.cargo_build(package, hook=True, features=feats or None, bin=bin)
        if ok:
            tmp = dst + ".tmp%d" % os.getpid()
            shutil.copy2(exe, tmp)
            os.replace(tmp, dst)
    return ok, (dst if ok else None), log


def run(exe, lines, timeout=1200, env=None):
    """Line filter that survives process aborts (a Rust panic inside an `extern "C"` frame aborts)."""
    try:
        return vf.run_filter([exe], lines, timeout=timeout, env=env)
    except RuntimeError:
        pass
    out = []
    i = 0
    while i < len(lines):
        rc, so, se = vf.sh2([exe], input="\n".join(lines[i:]) + "\n", timeout=timeout, env=env)
        got = so.split("\n")
        if got and got[-1] == "":
            got.pop()
        got = got[:len(lines) - i]
        out += got
        i += len(got)
        if i < len(lines):
            # the process died while running scenario i
            last = [l for l in se.strip().split("\n") if l.strip()]
            out.append("ABORT:" + (last[-1].strip().replace(" ", "_") if last else "rc=%s" % rc))
            i += 1
    return out
