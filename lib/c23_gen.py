"""Scenario generator of C23: interleavings of wakes with the sleeping / polling / woken transitions of
tasks built with inter-task-wakeup (grammar and runners: lib/c22_gen.py, driver bin `wakeups`)."""
import c22_gen as G


def gen_wake_scenario(rng, feat, big=False):
    spawn = feat in ("s", "a")
    mode = "S" if rng.chance(5, 6) else "B"
    ntasks = 1 if mode == "B" else rng.weighted([(1, 3), (2, 6), (3, 1)])
    nflags = rng.range(1, 3)
    ops, bodies, roots = [], [], []
    pending = []

    def new_op():
        k = rng.choice(["sub", "sub", "sr", "sw", "fr", "sub0"])
        if rng.chance(1, 8) and k != "sub0":
            k = "subI" if k == "sub" else k + "I"
        ops.append(k)
        return len(ops) - 1

    def gen_body(bid, depth):
        steps = []
        for _ in range(rng.range(1, 6 if big else 4)):
            c = rng.weighted([("f", 10), ("w", 8), ("y", 3), ("a", 3), ("j", 3), ("c", 1), ("g", 1),
                              ("s", 4 if spawn and depth < 2 and len(bodies) < 6 else 0)])
            if c == "f":
                steps.append("f%d" % rng.below(nflags))
            elif c == "w":
                steps.append("w%d" % rng.below(nflags))
            elif c == "y":
                steps.append("y")
            elif c == "a":
                steps.append("a%d" % new_op())
            elif c == "g":
                steps.append("g%d" % new_op())
            elif c == "j":
                steps.append("j%d.%d" % (new_op(), rng.below(nflags)))
            elif c == "c":
                steps.append("c")
            else:
                bodies.append(None)
                steps.append("s%d" % (len(bodies) - 1))
                pending.append((len(bodies) - 1, depth + 1))
        bodies[bid] = steps

    for t in range(ntasks):
        bodies.append(None)
        roots.append(len(bodies) - 1)
        gen_body(roots[-1], 0)
        while pending:
            nb, d = pending.pop(0)
            gen_body(nb, d)
    acts = []
    if mode == "S":
        started = 0
        cancel = rng.chance(2, 5)
        for i in range(rng.range(4, 16 if big else 11) * ntasks):
            if started < ntasks and (started == 0 or rng.chance(1, 3)):
                acts.append("s%d" % started); started += 1; continue
            t = rng.below(max(started, 1))
            c = rng.weighted([("e", 10), ("w", 8), ("k", 3), ("n", 3), ("r", 4), ("p", 1), ("x", 2 if cancel else 0)])
            if c in ("e", "n", "x"):
                acts.append("%s%d" % (c, t))
            elif c in ("w", "k"):
                acts.append("%s%d" % (c, rng.below(nflags)))
            else:
                acts.append("%s%d" % (c, rng.below(3)))
        while started < ntasks:
            acts.append("s%d" % started); started += 1
        if cancel and rng.chance(2, 3):
            # wakes after exit / cancellation, through whatever wakers are still stored
            acts.append("x%d" % rng.below(ntasks))
            for _ in range(rng.range(1, 3)):
                acts.append("%s%d" % (rng.choice(["w", "w", "k"]), rng.below(nflags)))
        if rng.chance(1, 2):
            for _ in range(rng.range(1, 5)):
                acts.append(rng.choice(["w%d" % rng.below(nflags), "r0"]))
                acts.append("e%d" % rng.below(ntasks))
    else:
        for _ in range(rng.range(0, 6)):
            c = rng.weighted([("w", 6), ("r", 4), ("p", 1)])
            acts.append("w%d" % rng.below(nflags) if c == "w" else "%s%d" % (c, rng.below(3)))
    return G.Sc(feat, mode, ops, bodies, roots, acts)
