"""Shared engine of the C01 / C02 / C03 checks: tie (absdump vs extracted Gen model, token for token) +
search (the property's executable statement, Abi/Check.v, on the REAL streams) over seeded WIT cases."""
import os, json, re
import vf, abigen, abitie


def corpus_texts(prop):
    p = os.path.join(vf.ROOT, "corpus", prop + ".txt")
    out = []
    if os.path.exists(p):
        for line in open(p):
            line = line.rstrip("\n")
            if line and not line.startswith("#"):
                out.append(line.replace("\\n", "\n"))
    return out


def codegen_corpus(limit=None):
    """single-file worlds of /repo/tests/codegen turned into ABI cases: every interface function signature is
    re-emitted in one interface (type definitions kept) — done by the Rust side? no: we simply feed the files
    that consist of one package with interfaces; absdump dumps every interface function it finds."""
    d = os.path.join(vf.REPO, "tests", "codegen")
    out = []
    for f in sorted(os.listdir(d)):
        p = os.path.join(d, f)
        if f.endswith(".wit") and os.path.isfile(p):
            out.append(open(p).read())
    return out[:limit] if limit else out


def run(ctx, prop, kinds, n_quick, n_thorough, nvals_quick, nvals_thorough, pws=(4, 8), with_codegen=True):
    """kinds: label prefixes this property judges (tie is always over everything dumped)."""
    n = n_quick if ctx.tier == "quick" else n_thorough
    nvals = nvals_quick if ctx.tier == "quick" else nvals_thorough
    ok1, exe_r, log1, ok2, exe_m, log2 = abitie.build()
    if not ok1:
        ctx.tie_broken("tie", "harness build against /repo failed:\n" + log1[-3000:]); return None
    if not ok2:
        ctx.tie_broken("tie", "model extraction/driver build failed:\n" + log2[-3000:]); return None
    texts = corpus_texts(prop) + list(abigen.CORPUS)
    ncorpus = len(texts)
    if with_codegen:
        cg = codegen_corpus()
        texts += cg
    hist = {}
    for i in range(n):
        t, meta = abigen.gen_case(ctx.rng.fork(i))
        texts.append(t)
        for k, v in meta["hist"].items():
            hist[k] = hist.get(k, 0) + v
    res = abitie.compare(exe_r, exe_m, texts)
    judged = [x for x in res["index"] if x[3].startswith(kinds)]
    mism = [m for m in res["mismatches"] if m[3].startswith(kinds)]
    other_mism = len(res["mismatches"]) - len(mism)
    if mism:
        t, f, sig, label, d, m = mism[0]
        ctx.tie_broken("tie", "the real generator's stream differs from the model on %d/%d dumps; first: %s %s: %s" % (
            len(mism), len(judged), sig[:300], label, abitie.first_diff(d, m)[:500]))
    # ---- search: the executable statement on the real streams
    lines, meta = abitie.sem_items(judged, pws=pws, nvals=nvals, seed=ctx.seed)
    outs = vf.run_filter([exe_m], lines, timeout=3000) if lines else []
    npass = nskip = 0
    fails = []
    for o, mt in zip(outs, meta):
        m = re.match(r"pass=(\d+) skip=(\d+)", o)
        if m:
            npass += int(m.group(1)); nskip += int(m.group(2))
        else:
            fails.append((o, mt))
    seen_keys = set()
    for o, (ti, fname, sig, label, pw, d) in fails:
        why = re.search(r"why=(\d+)", o)
        kind = label.split(".")[0]
        key = "abi:%s:why%s:%s" % (kind, why.group(1) if why else "x", vf.canon_hash([sig, ".".join(label.split(".")[:-1])]))
        if key in seen_keys:
            continue
        seen_keys.add(key)
        ctx.violation(key, "the real instruction stream for %s of %s, interpreted by Sem at pw=%d, disagrees with the canonical-ABI spec: %s" % (label, sig[:200], pw, o[:300]),
                      {"wit": texts[ti], "func": fname, "sig": sig, "label": label, "pw": pw, "outcome": o, "dump": d})
        if len(seen_keys) >= 5:
            break
    distinct = {(sig, ".".join(label.split(".")[:-1])) for (_, _, sig, label, _) in judged}
    nontrivial = {(sig, lab) for (sig, lab) in distinct if "(" in sig.replace("(sig", "").replace("(params", "").replace("(result", "").replace("(method", "")}
    samples = []
    for (ti, fname, sig, label, d) in judged[:3]:
        samples.append({"sig": sig[:300], "entry": label, "real_stream_head": d[:300]})
    ctx.coverage.update({
        "evaluations": len(judged) + len(lines) * nvals,
        "distinct_nontrivial": len(nontrivial),
        "rule": "seeded WIT interfaces (lib/abigen.py: all constructors, nesting <= 3, flags 1..65, 255/256/257/300-case variants, enums to 1000 cases, join-mix payloads, 0..20 params crossing 16/4/1) + hand corpus + tests/codegen; every function is dumped through every public entry point of abi.rs under 2 is_list_canonical rules; distinct = (signature, entry point) pairs, non-trivial = signature containing at least one compound type",
        "samples": samples,
        "traces_validated_against_impl": len(judged),
        "model_mismatches": len(mism),
        "model_mismatches_other_entry_points": other_mism,
        "statement_evaluations": {"streams": len(lines), "values_per_stream": nvals, "pass": npass, "skipped_by_oracle": nskip, "fail": len(fails), "pointer_widths": list(pws)},
        "distribution": {"cases": len(texts), "corpus_cases": ncorpus, "random_cases": n, "type_constructor_histogram": hist,
                         "entry_points": {k: v for k, v in res["stats"].items()},
                         "real_panic_model_err_pairs": {"%s | %s" % k: v for k, v in sorted(res["panics"].items(), key=lambda x: -x[1])[:12]},
                         "unparsed_cases": len(res["parse_errors"])},
    })
    return res, exe_r, exe_m, texts


def replay(ctx, path):
    obj = json.load(open(path))["replay"]
    ok1, exe_r, log1, ok2, exe_m, log2 = abitie.build()
    real = abitie.dump_real(exe_r, [obj["wit"]])[0]
    for (fname, sig, entries) in real:
        if fname != obj["func"]:
            continue
        for (label, d) in entries:
            if label == obj["label"]:
                line = "SEM\x1d%s\x1d%d\x1d%d\x1d%d\x1d%s\x1d%s" % (label, obj["pw"], 40, 1, sig, d)
                out = vf.run_filter([exe_m], [line], shards=1)[0]
                print("entry:", label, "sig:", sig)
                print("real stream:", d[:1000])
                print("statement:", out)
                return 0 if out.startswith("pass") else 1
    print("entry point not found in the current dump")
    return 1
