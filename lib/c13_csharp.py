"""C13 scraper for the csharp backend (placeholder, filled in below)."""
def scrape(files):
    return []
