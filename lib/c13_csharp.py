"""C13 scraper for the C# backend:
   [..DllImport[Attribute]("m", EntryPoint = "n"), ..WasmImportLinkage[Attribute]]  <mods> extern <ret> <name>(<params>);
   [..UnmanagedCallersOnly[Attribute](EntryPoint = "n")]                           <mods> <ret> <name>(<params>) {"""
import re
from c13_common import mk, line_of, word_counts, text_files, split_params, mark_referenced

IMPORT = re.compile(r'\[[^\]\n]*DllImport(?:Attribute)?\("(?P<m>[^"]*)",\s*EntryPoint\s*=\s*"(?P<n>[^"]*)"\)(?P<rest>[^\n]*)\]\s*\n\s*(?P<mods>(?:(?:public|internal|private|static|unsafe|extern)\s+)+)(?P<ret>[A-Za-z_][A-Za-z0-9_.:<>]*\s*\**)\s+(?P<f>[A-Za-z_][A-Za-z0-9_]*)\s*\((?P<p>[^)]*)\)\s*;')
EXPORT = re.compile(r'\[[^\]\n]*UnmanagedCallersOnly(?:Attribute)?\(EntryPoint\s*=\s*"(?P<n>[^"]*)"\)\]\s*\n\s*(?P<mods>(?:(?:public|internal|private|static|unsafe)\s+)+)(?P<ret>[A-Za-z_][A-Za-z0-9_.:<>]*\s*\**)\s+(?P<f>[A-Za-z_][A-Za-z0-9_]*)\s*\((?P<p>[^)]*)\)')
TY = {"int": "i", "uint": "i", "nint": "i", "nuint": "i", "IntPtr": "i", "UIntPtr": "i", "bool": "i", "byte": "i", "sbyte": "i",
      "short": "i", "ushort": "i", "char": "i", "long": "I", "ulong": "I", "float": "f", "double": "F"}


def core_ty(t):
    t = t.strip()
    if t.endswith("*"):
        return "i"
    return TY.get(t, "?")


def sig_of(params, ret):
    ps = ""
    for p in split_params(params):
        m = re.match(r"(.*?)\s*([A-Za-z_][A-Za-z0-9_]*)$", p.strip())
        if not m:
            return "?"
        ps += core_ty(m.group(1))
    rs = "" if ret.strip() == "void" else core_ty(ret)
    s = ps + ">" + rs
    return "?" if "?" in s else s


def scrape(files):
    out = []
    cs = text_files(files, [".cs"])
    wc = word_counts(cs.values())
    for fn, t in cs.items():
        n_imp = len(re.findall(r'DllImport(?:Attribute)?\("', t))
        n_exp = len(re.findall(r"UnmanagedCallersOnly(?:Attribute)?\(EntryPoint", t))
        gi = ge = 0
        for m in IMPORT.finditer(t):
            gi += 1
            linkage = "WasmImportLinkage" in m.group("rest")
            out.append(mk("I", m.group("m"), m.group("n"), sig_of(m.group("p"), m.group("ret")) if linkage else "?",
                          m.group("f"), fn, line_of(t, m.start())))
            out[-1]["_scope"] = 0
        for m in EXPORT.finditer(t):
            ge += 1
            out.append(mk("E", "", m.group("n"), sig_of(m.group("p"), m.group("ret")), m.group("f"), fn, line_of(t, m.start())))
        if gi != n_imp:
            out.append(mk("I", "?", "<%d DllImport attributes not parsed in %s>" % (n_imp - gi, fn), "?", "?", fn, 0))
        if ge != n_exp:
            out.append(mk("E", "", "<%d UnmanagedCallersOnly attributes not parsed in %s>" % (n_exp - ge, fn), "?", "?", fn, 0))
    return mark_referenced(out, {0: wc})
