"""C22's own statement, evaluated on the REAL log of a scenario (search leg), plus helpers shared with C23.

`check_real(sc, toks)` returns a list of (key, description) — empty when the property holds on this run.
The log grammar is the one printed by harness/crates/rtmock/src/bin/tasks.rs."""
import re

EXIT, YIELD = 0, 1


def _num(s):
    return int(s)


class TaskView:
    def __init__(self, t):
        self.t = t
        self.alive = False
        self.exited = False
        self.running = False      # between cset:T=null and the end of the callback
        self.slot = "null"        # what context slot 0 of T holds, as far as the log tells
        self.own_sets = set()     # waitable sets created while T was running
        self.bodies = []          # bodies created for T (root + spawned while T was running)
        self.tnew = 0
        self.tfree = 0
        self.codes = []


def check_real(sc, toks, start_mode=True):
    """The property's statement on one real run.  `sc` is a c22_gen.Sc (for the body tables)."""
    bad = []

    def viol(key, why):
        bad.append((key, why))

    tasks = {}
    cur = None                    # task whose callback is running
    cur_event = None              # e0 of the running callback (6 = cancel)
    joined = {}                   # waitable -> set
    created = set()
    finished = set()
    dropped = {}
    last_host = None              # last host-call token seen inside the running callback
    panic = None
    bon_done = False
    ystep_last = False            # the running callback's last body activity is a yield_async that woke the task
    wake_in_poll = False          # a Rust-level wake (yield_async / signal of a Rust-only event) happened in the current poll
    spawn_build = sc.feat in ("s", "a")

    def task(t):
        if t not in tasks:
            tasks[t] = TaskView(t)
        return tasks[t]

    def own_waitables(tv):
        return [w for w, s in joined.items() if s in tv.own_sets]

    if not start_mode:
        cur = task(0)
        cur.alive = True
        cur.running = True
        created.add(sc.roots[0] if sc.roots else 0)
        cur.bodies.append(sc.roots[0] if sc.roots else 0)
    i = 0
    n = len(toks)
    while i < n:
        tok = toks[i]
        i += 1
        if tok.startswith("ystep:"):
            ystep_last = True
            wake_in_poll = True
            continue
        if tok.startswith("wflag:"):
            wake_in_poll = True
        m = re.match(r"wspoll:\d+=(\d+),", tok)
        if m and cur is not None and int(m.group(1)) != 0:
            # in-line delivery inside the callback: the runtime delivers the event and polls AGAIN, after
            # resetting the sleep state to POLLING: wakes of the previous poll no longer count
            wake_in_poll = False
        if not re.match(r"(wspoll|join|cget|cset|start|cb):", tok):
            ystep_last = False
        if tok.startswith("PANIC:") or tok.startswith("ABORT"):
            panic = tok
            break
        if tok.startswith(">start:"):
            t = _num(tok[7:])
            tv = task(t)
            if tv.alive or tv.exited:
                viol("start-twice", "start of task %d which already ran" % t)
            cur = tv
            cur_event = 0
            tv.alive = True
            root = sc.roots[t] if t < len(sc.roots) else 0
            tv.bodies.append(root)
            if root in created:
                viol("body-created-twice", "root body %d created twice" % root)
            created.add(root)
            continue
        m = re.match(r"(tnew|tfree):(\d+)$", tok)
        if m:
            tv = task(_num(m.group(2)))
            if m.group(1) == "tnew":
                tv.tnew += 1
                if tv.tnew > 1:
                    viol("box-allocated-twice", "task %d: second Box<TaskState>" % tv.t)
            else:
                tv.tfree += 1
                if tv.tfree > 1:
                    viol("box-freed-twice", "task %d: Box<TaskState> freed twice" % tv.t)
                if tv.tnew < 1:
                    viol("box-freed-before-alloc", "task %d" % tv.t)
                if not tv.running:
                    viol("box-freed-outside-callback", "task %d" % tv.t)
            continue
        m = re.match(r"(cget|cset):(\d+)=(null|ptr)$", tok)
        if m:
            kind, t, v = m.group(1), _num(m.group(2)), m.group(3)
            tv = task(t)
            if kind == "cget":
                if v != tv.slot:
                    viol("ctx-slot", "task %d: slot read %s, log says it holds %s" % (t, v, tv.slot))
                if tv.running and v != "null":
                    viol("ctx-not-null-while-running", "task %d reads a non-null slot while its callback runs" % t)
            else:
                tv.slot = v
                if v == "null":
                    tv.running = True
                    cur = tv
                    last_host = None
                    wake_in_poll = False
                else:
                    # cset ptr: either start_task storing the new state, or the end of a callback
                    pass
            continue
        m = re.match(r"(start):(\d+)=(\d+)$", tok) or re.match(r"(cb):(\d+):(\d+),\d+,\d+=(\d+)$", tok)
        if m:
            t = _num(m.group(2))
            tv = task(t)
            if m.group(1) == "cb":
                e0, code = _num(m.group(3)), _num(m.group(4))
            else:
                e0, code = 0, _num(m.group(3))
            tv.codes.append(code)
            if ystep_last and e0 != 6 and code != YIELD:
                viol("woken-during-poll-not-yielded", "task %d: a body yielded (woke the task during polling), nothing else happened, yet the answer is %d" % (t, code))
            ystep_last = False
            if tv.exited:
                viol("callback-after-exit", "task %d" % t)
            kind = code & 0xf
            pending = own_waitables(tv)
            unfinished = [b for b in tv.bodies if b not in dropped]
            if code == EXIT:
                if e0 != 6 and (unfinished or pending):
                    viol("exit-with-work", "task %d exits with bodies %s / waitables %s pending" % (t, unfinished, pending))
                if e0 != 6:
                    nf = [b for b in tv.bodies if b not in finished]
                    if nf:
                        viol("exit-before-spawned-finished", "task %d exits, bodies %s never finished" % (t, nf))
                if unfinished:
                    viol("exit-leaks-bodies", "task %d exits, body futures %s not destroyed" % (t, unfinished))
                if tv.tfree != 1:
                    viol("box-not-freed-on-exit", "task %d: Box<TaskState> freed %d times at exit" % (t, tv.tfree))
                if tv.slot != "null":
                    viol("ctx-slot-after-exit", "task %d: slot still holds the state after exit" % t)
                tv.exited, tv.alive = True, False
            else:
                if e0 == 6:
                    viol("cancel-not-exit", "task %d answers %d to EVENT_CANCEL" % (t, code))
                if not unfinished and not pending:
                    viol("no-exit-without-work", "task %d answers %d with nothing left" % (t, code))
                if tv.slot != "ptr":
                    viol("ctx-slot-not-restored", "task %d: callback returned %d but the slot is null" % (t, code))
                if tv.tfree:
                    viol("box-freed-early", "task %d" % t)
                if kind == 2:
                    s = code >> 4
                    if s not in tv.own_sets:
                        viol("wait-foreign-set", "task %d waits on set %d which it did not create (%s)" % (t, s, sorted(tv.own_sets)))
                    if not [w for w, ss in joined.items() if ss == s]:
                        viol("wait-empty-set", "task %d waits on set %d with no member" % (t, s))
                elif code == YIELD:
                    if not unfinished:
                        viol("yield-without-work", "task %d yields with no body left" % t)
                    if not spawn_build and not wake_in_poll:
                        # (with async-spawn FuturesUnordered itself wakes the executor when it has polled every
                        # future once, which the log does not show: the rule is evaluated on the other builds)
                        viol("yield-without-wake-during-last-poll", "task %d answers Yield although nothing woke it during its last poll (no yield_async, no signal of a Rust-only event since the last delivery)" % t)
                    if pending and not (last_host and re.match(r"wspoll:\d+=0,", last_host)):
                        viol("yield-with-events-unpolled", "task %d yields with waitables %s registered and no empty poll (last host call %s)" % (t, pending, last_host))
                else:
                    viol("bad-code", "task %d answers %d" % (t, code))
            tv.running = False
            cur = None
            continue
        if tok.startswith("bon:"):
            bon_done = True
            tv = task(0)
            tv.exited, tv.alive, tv.running = True, False, False
            unfinished = [b for b in tv.bodies if b not in dropped]
            nf = [b for b in tv.bodies if b not in finished]
            if unfinished or nf:
                viol("block_on-returns-with-work", "bodies not finished %s / not destroyed %s" % (nf, unfinished))
            if own_waitables(tv):
                viol("block_on-returns-with-waitables", "%s" % own_waitables(tv))
            cur = None
            continue
        m = re.match(r"spawn:(\d+)$", tok)
        if m:
            b = _num(m.group(1))
            if b in created:
                viol("body-created-twice", "body %d" % b)
            created.add(b)
            if cur is not None:
                cur.bodies.append(b)
            continue
        m = re.match(r"bfin:(\d+)$", tok)
        if m:
            finished.add(_num(m.group(1)))
            continue
        m = re.match(r"bdrop:(\d+)$", tok)
        if m:
            b = _num(m.group(1))
            dropped[b] = dropped.get(b, 0) + 1
            if dropped[b] > 1:
                viol("body-destroyed-twice", "body %d" % b)
            if b not in created:
                viol("body-destroyed-uncreated", "body %d" % b)
            if b not in finished and not (cur is not None and cur_event_is_cancel(toks, i)):
                viol("unfinished-body-destroyed-without-cancel", "body %d destroyed before it finished, outside EVENT_CANCEL" % b)
            continue
        m = re.match(r"wsnew=(\d+)$", tok)
        if m:
            if cur is not None:
                cur.own_sets.add(_num(m.group(1)))
            last_host = tok
            continue
        m = re.match(r"join:(\d+):(\d+)$", tok)
        if m:
            w, s = _num(m.group(1)), _num(m.group(2))
            if s == 0:
                joined.pop(w, None)
            else:
                joined[w] = s
            last_host = tok
            continue
        m = re.match(r"(stdrop|sdropr|sdropw|fdropr|fdropw):(\d+)$", tok)
        if m:
            joined.pop(_num(m.group(2)), None)
            last_host = tok
            continue
        m = re.match(r"wsdrop:(\d+)$", tok)
        if m:
            s = _num(m.group(1))
            if [w for w, ss in joined.items() if ss == s]:
                viol("set-dropped-with-members", "set %d" % s)
            last_host = tok
            continue
        if tok.startswith("TRAP:"):
            viol("host-trap:" + tok[5:], "the runtime made a call the component model traps on: %s" % tok)
            continue
        if re.match(r"(wspoll|wswait|stcancel|snew|fnew|swrite|sread|fwrite|fread|scancel|fcancel|taskcancel|yield)", tok):
            last_host = tok
    return bad, panic


def cur_event_is_cancel(toks, i):
    """Is the callback that is running at token index i an EVENT_CANCEL callback?  (Its `cb` token, which
    names the event, is printed when it returns.)"""
    for j in range(i, len(toks)):
        m = re.match(r"cb:\d+:(\d+),", toks[j])
        if m:
            return m.group(1) == "6"
        if toks[j].startswith("start:") or toks[j].startswith("bon:") or toks[j].startswith(">start:"):
            return False
    return False
