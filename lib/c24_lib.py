"""C24 helpers: case grammar, an independent Python oracle for the property's statement (used by the
search leg on the REAL outputs), and the seeded generator of request histories.

Case grammar (shared with harness/crates/realloctie and ocaml/realloc_driver.ml):
  f-|f<n>  op op ...
  R:<pref>:<old_len>:<align>:<new_len>   cabi_realloc      pref = b<k> (k-th result) | l<addr>
  W:<k>:<off>:<v>  G:<k>:<off>           store / load one byte of result block k
  N:<size>:<align>  D:<i>  F:<i>         Cleanup::new / drop / forget (forgotten block joins the table)
  X:<pref>:<size>:<align>                cabi_dealloc
"""
import re


class Ent:
    __slots__ = ("size", "align", "known")

    def __init__(self, size, align, known=None):
        self.size, self.align, self.known = size, align, dict(known or {})


class Oracle:
    """Replays a history symbolically (no addresses): which table entries / Cleanups exist, their layouts,
    the bytes known to be in them, how many allocator calls have been made.  `expect(op)` returns what the
    PROPERTY demands of the real code for that op, or ('inconsistent', why)."""

    def __init__(self, fail=None):
        self.tab = []      # Ent or None
        self.hs = []       # Ent or None
        self.ncalls = 0
        self.fail = fail
        self.dead = False  # after an injected allocation failure nothing more may be asked

    def owned(self):
        return sum(1 for e in self.tab if e and e.size) + sum(1 for e in self.hs if e)

    def entry(self, k):
        return self.tab[k] if 0 <= k < len(self.tab) else None

    def _call(self):
        """one allocator call is about to be made; True if it is the injected failure"""
        n = self.ncalls
        self.ncalls += 1
        return self.fail is not None and n == self.fail

    def expect(self, tok):
        """-> (kind, detail).  kind in: 'inconsistent', 'shrink0', 'exact' (detail = set of acceptable
        native tokens), 'facts' (detail = the part of the token before the call list), 'any',
        'oom' (detail = regex the native token must match; the history ends)."""
        p = tok.split(":")
        o = p[0]
        if self.dead:
            return ("inconsistent", "op after a trap")
        if o == "R":
            pr, old, align, new = p[1], int(p[2]), int(p[3]), int(p[4])
            if align <= 0 or align & (align - 1):
                return ("inconsistent", "alignment not a power of two")
            if old == 0:
                if pr[0] == "b" and self.entry(int(pr[1:])) is None:
                    return ("inconsistent", "dead or unknown table entry")
                if new == 0:
                    self.tab.append(Ent(0, align))
                    return ("facts", "ret:nz:m0:e1:l-:p1:o1")
                if self._call():
                    self.dead = True
                    return ("oom", r"trap:(allocerror\(%d\)|unreachable)(\[alloc\(%d,%d\)=null\])?$" % (new, new, align))
                self.tab.append(Ent(new, align))
                return ("facts", "ret:nz:m0:e-:l1:p1:o1")
            if pr[0] != "b":
                return ("inconsistent", "literal pointer with old_len != 0")
            k = int(pr[1:])
            e = self.entry(k)
            if e is None or e.size != old or e.align != align:
                return ("inconsistent", "not an earlier result with that size and alignment")
            if new == 0:
                self.dead = True
                return ("shrink0", "ret:nz:m0:e-:l-:p1:o1")
            if self._call():
                self.dead = True
                return ("oom", r"trap:(allocerror\(%d\)|unreachable)(\[realloc\(b%d,%d,%d,%d\)=null\])?$" % (old, k, old, align, new))
            self.tab[k] = None
            self.tab.append(Ent(new, align, {a: v for a, v in e.known.items() if a < min(old, new)}))
            return ("facts", "ret:nz:m0:e-:l1:p1:o1")
        if o in ("W", "G"):
            k, off = int(p[1]), int(p[2])
            e = self.entry(k)
            if e is None or off >= e.size:
                return ("inconsistent", "store/load outside a live block")
            if o == "W":
                e.known[off] = int(p[3])
                return ("exact", {"unit[]"})
            if off not in e.known:
                return ("any", None)   # nobody wrote it: any byte is fine
            return ("exact", {"byte:%d" % e.known[off]})
        if o == "N":
            size, align = int(p[1]), int(p[2])
            if align <= 0 or align & (align - 1):
                return ("inconsistent", "not a Layout")
            if size == 0:
                self.hs.append(None)
                return ("exact", {"new:null:m0:none:l-:o1[]"})
            if self._call():
                self.dead = True
                return ("oom", r"trap:allocerror\(%d\)(\[alloc\(%d,%d\)=null\])?$" % (size, size, align))
            self.hs.append(Ent(size, align))
            return ("exact", {"new:nz:m0:some:l1:o1[alloc(%d,%d)=nz]" % (size, align)})
        if o in ("D", "F"):
            i = int(p[1])
            e = self.hs[i] if 0 <= i < len(self.hs) else None
            if e is None:
                return ("inconsistent", "no such Cleanup (never existed, or already dropped/forgotten)")
            self.hs[i] = None
            if o == "F":
                self.tab.append(Ent(e.size, e.align))
                return ("exact", {"unit:o1[]"})
            d = "unit:o1[dealloc(h%d,%d,%d)" % (i, e.size, e.align)
            return ("exact", {d + "]", d + "ff]"})   # the 0xff overwrite is not part of the property
        if o == "X":
            pr, size, align = p[1], int(p[2]), int(p[3])
            if size == 0:
                if pr[0] == "b" and self.entry(int(pr[1:])) is None:
                    return ("inconsistent", "dead or unknown table entry")
                return ("exact", {"unit:o1[]"})
            if pr[0] != "b":
                return ("inconsistent", "literal pointer with size != 0")
            k = int(pr[1:])
            e = self.entry(k)
            if e is None or e.size != size or e.align != align:
                return ("inconsistent", "not an earlier result with that size and alignment")
            self.tab[k] = None
            return ("exact", {"unit:o1[dealloc(b%d,%d,%d)]" % (k, size, align)})
        return ("inconsistent", "unknown op")


def split_case(case):
    t = case.split()
    fail = None if t[0] == "f-" else int(t[0][1:])
    return fail, t[1:]


def split_out(line):
    """native/model result line -> (tokens, live or None)"""
    toks = line.split()
    live = None
    if "|" in toks:
        i = toks.index("|")
        m = re.match(r"live=(\d+)$", toks[i + 1]) if i + 1 < len(toks) else None
        live = int(m.group(1)) if m else None
        toks = toks[:i]
    return toks, live


def holds(case, native_line):
    """C24's statement evaluated on one history as the REAL code answered it.
    -> ('ok', None, None) | ('inconsistent', why, None) | ('fail', why, key)."""
    fail, ops = split_case(case)
    toks, live = split_out(native_line)
    orc = Oracle(fail)
    for i, op in enumerate(ops):
        kind, d = orc.expect(op)
        if kind == "inconsistent":
            return ("inconsistent", "op %d (%s): %s" % (i, op, d), None)
        if i >= len(toks):
            return ("fail", "op %d (%s): the real code produced no answer (history ended after %r)" % (i, op, toks[-1:] or ""),
                    "realloc:" + ",".join(ops))
        t = toks[i]
        if kind == "shrink0":
            if t.startswith("ret:nz:m0:e-:l-:p1:o1"):
                continue
            return ("fail", "op %d (%s) is consistent with earlier results (a live %s-byte block shrunk to 0 bytes) but the "
                    "entry point answered %r instead of returning a non-null aligned pointer" % (i, op, op.split(":")[2], t),
                    "realloc:shrink-to-zero")
        if kind == "any":
            continue
        if kind == "facts":
            # cabi_realloc: the property speaks about the result (non-null, aligned, == align for (0,0), a live
            # block of the requested layout, old prefix preserved, other blocks untouched), not about which
            # allocator calls produce it
            if t.split("[")[0] != d:
                return ("fail", "op %d (%s): expected %s (nz = non-null, m = ptr mod align, e = ptr == align for a (0,0) request, "
                        "l = live block of the requested layout, p = old prefix preserved, o = other blocks untouched), real code answered %r"
                        % (i, op, d, t), "realloc:" + ",".join(ops))
            continue
        if kind == "oom":
            if not re.match(d, t):
                return ("fail", "op %d (%s): allocator call #%d was made to fail; expected a trap matching %s, got %r" % (i, op, fail, d, t),
                        "realloc:" + ",".join(ops))
            break
        if t not in d:
            return ("fail", "op %d (%s): expected %s, real code answered %r" % (i, op, " or ".join(sorted(d)), t),
                    "realloc:" + ",".join(ops))
    else:
        if len(toks) != len(ops):
            return ("fail", "more answers than ops: %r" % (toks,), "realloc:" + ",".join(ops))
    if live is not None and live != orc.owned():
        return ("fail", "after the history the allocator has %d live blocks but %d are owned (results not yet "
                "reallocated/freed + existing Cleanups): leak or double free" % (live, orc.owned()), "realloc:" + ",".join(ops))
    return ("ok", None, None)


# ---------------------------------------------------------------------------------------- generator
def pick_align(rng):
    k = rng.weighted([(0, 20), (1, 12), (2, 16), (3, 16), (4, 8), (5, 3), (6, 3), (8, 3), (10, 3), (12, 4), (13, 2), (14, 2), (15, 2), (16, 6)])
    return 1 << k


def pick_size(rng, zero_ok=True, big=True):
    c = rng.weighted([("zero", 8 if zero_ok else 0), ("small", 40), ("edge", 16), ("medium", 22), ("large", 10 if big else 0), ("max", 4 if big else 0)])
    if c == "zero":
        return 0
    if c == "small":
        return rng.range(1, 64)
    if c == "edge":
        return max(1, (1 << rng.range(0, 20 if big else 12)) + rng.range(-1, 1))
    if c == "medium":
        return rng.range(65, 4096)
    if c == "large":
        return rng.range(4097, 1 << 20)
    return 1 << 20


def gen_valid(rng, nops=None, fail=None, big=True):
    """A consistent history (string of ops, without the f-prefix) and its oracle."""
    orc = Oracle(fail)
    ops = []
    n = nops or rng.range(1, 24)
    guard = 0
    while len(ops) < n and guard < 400:
        guard += 1
        live_nz = [k for k, e in enumerate(orc.tab) if e and e.size]
        live_any = [k for k, e in enumerate(orc.tab) if e]
        live_h = [i for i, e in enumerate(orc.hs) if e]
        c = rng.weighted([("alloc", 22 if len(live_nz) < 6 else 6), ("realloc", 26 if live_nz else 0), ("write", 16 if live_nz else 0),
                          ("read", 10 if live_nz else 0), ("new", 12 if len(live_h) < 4 else 3), ("drop", 10 if live_h else 0),
                          ("forget", 4 if live_h else 0), ("dealloc", 7 if live_any else 0), ("dealloc0", 2)])
        if c == "alloc":
            pr = "b%d" % rng.choice(live_any) if live_any and rng.chance(1, 6) else "l%d" % rng.choice([0, 0, 1, 8, 4096, 0xdeadbeef])
            op = "R:%s:0:%d:%d" % (pr, pick_align(rng), pick_size(rng, big=big))
        elif c == "realloc":
            k = rng.choice(live_nz)
            e = orc.tab[k]
            how = rng.weighted([("grow", 5), ("shrink", 5), ("same", 1), ("any", 3), ("one", 1)])
            if how == "grow":
                new = e.size + max(1, pick_size(rng, False, big) // rng.choice([1, 1, 4, 64]))
            elif how == "shrink":
                new = rng.range(1, e.size)
            elif how == "same":
                new = e.size
            elif how == "one":
                new = 1
            else:
                new = pick_size(rng, False, big)
            new = min(new, 1 << 20)
            op = "R:b%d:%d:%d:%d" % (k, e.size, e.align, new)
        elif c == "write":
            k = rng.choice(live_nz)
            e = orc.tab[k]
            off = rng.choice([0, e.size - 1, e.size // 2, rng.below(e.size), min(e.size - 1, rng.below(70))])
            op = "W:%d:%d:%d" % (k, off, rng.choice([0, 255, 0xA5, 0xDD, rng.below(256), rng.below(256)]))
        elif c == "read":
            cand = [(k, a) for k in live_nz for a in orc.tab[k].known]
            if not cand:
                continue
            k, a = rng.choice(cand)
            op = "G:%d:%d" % (k, a)
        elif c == "new":
            op = "N:%d:%d" % (pick_size(rng, big=big), pick_align(rng))
        elif c == "drop":
            op = "D:%d" % rng.choice(live_h)
        elif c == "forget":
            op = "F:%d" % rng.choice(live_h)
        elif c == "dealloc":
            k = rng.choice(live_any)
            e = orc.tab[k]
            op = "X:b%d:%d:%d" % (k, e.size, e.align)
        else:
            pr = "b%d" % rng.choice(live_any) if live_any and rng.chance(1, 2) else "l%d" % rng.choice([0, 1, 8, 0xdeadbeef])
            op = "X:%s:0:%d" % (pr, pick_align(rng))
        kind, _ = orc.expect(op)
        assert kind not in ("inconsistent", "shrink0"), (op, kind)
        ops.append(op)
        if orc.dead:
            break
    return ops, orc


def count_calls(ops):
    orc = Oracle(None)
    for op in ops:
        orc.expect(op)
    return orc.ncalls


def gen_fail(rng, big=True):
    """A consistent history in which one allocator call (index chosen among those it makes) fails."""
    for _ in range(50):
        ops, _ = gen_valid(rng, big=big)
        n = count_calls(ops)
        if n:
            j = rng.below(n)
            # cut the history after the op that makes call #j (the oracle does that while replaying)
            orc = Oracle(j)
            out = []
            for op in ops:
                orc.expect(op)
                out.append(op)
                if orc.dead:
                    break
            return "f%d %s" % (j, " ".join(out))
    return "f0 R:l0:0:1:1"


def gen_shrink0(rng, big=True):
    """Consistent history ending in the request class the code does not serve: shrink a live block to 0."""
    for _ in range(50):
        ops, orc = gen_valid(rng, nops=rng.range(1, 10), big=big)
        live_nz = [k for k, e in enumerate(orc.tab) if e and e.size]
        if live_nz:
            k = rng.choice(live_nz)
            e = orc.tab[k]
            return "f- %s R:b%d:%d:%d:0" % (" ".join(ops), k, e.size, e.align)
    return "f- R:l0:0:1:1 R:b0:1:1:0"


def other_pow2(rng, a):
    while True:
        b = pick_align(rng)
        if b != a:
            return b


def gen_malformed(rng, big=True):
    """Consistent prefix + one request that is NOT consistent with earlier results (wrong old size, wrong
    alignment, size given for a zero-sized result).  Outside the property; used only to compare the
    model's explicit UB outcomes with what the checking allocator sees (release profile)."""
    for _ in range(50):
        ops, orc = gen_valid(rng, nops=rng.range(1, 10), big=big)
        live_any = [k for k, e in enumerate(orc.tab) if e]
        if not live_any:
            continue
        k = rng.choice(live_any)
        e = orc.tab[k]
        how = rng.weighted([("rsize", 4), ("ralign", 3), ("xsize", 3), ("xalign", 2)])
        wrong = rng.choice([s for s in (e.size + 1, e.size - 1, e.size * 2, 1, 7) if s > 0 and s != e.size])
        if how == "rsize":
            bad = "R:b%d:%d:%d:%d" % (k, wrong, e.align, pick_size(rng, False, big))
        elif how == "ralign":
            if e.size == 0:
                continue
            bad = "R:b%d:%d:%d:%d" % (k, e.size, other_pow2(rng, e.align), pick_size(rng, False, big))
        elif how == "xsize":
            bad = "X:b%d:%d:%d" % (k, wrong, e.align)
        else:
            if e.size == 0:
                continue
            bad = "X:b%d:%d:%d" % (k, e.size, other_pow2(rng, e.align))
        return "f- %s %s" % (" ".join(ops), bad)
    return "f- R:l0:0:4:8 X:b0:8:2"
