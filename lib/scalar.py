"""lib/scalar.py — translator tie for C14 (scalar conversions of every backend) and for the backend
half of C04 (variant-slot bitcasts).

What it does, on EVERY run, against the generators' CURRENT output (vf.REPO):
  1. generates bindings for probe worlds with every backend (through lib/genlib.py);
  2. cuts the lift / lower expression of every (direction x scalar type) out of the generated
     wrappers (`scrape_<lang>`), and the variant-slot cast expressions (`scrape_casts_<lang>`);
  3. parses each expression with a small per-language surface parser into the surface ASTs of
     coq/theories/Scalar/Expr.v (constructors 1:1 with the syntax: the translator carries NO
     semantics — what Rust `as`, a C cast, MoonBit `to_byte` ... mean is defined in Coq by the
     elaborators of Expr.v);
  4. writes coq/theories/Scalar/Generated.v (data) and, after asking Coq which conversions the
     verified normaliser accepts, coq/theories/Scalar/GeneratedProps.v (one theorem per site).
A site that cannot be found or parsed is a BROKEN TIE for that backend (never silently skipped).

Public entry points:  regenerate(ctx_or_None) -> Result ;  backend_casts_leg(ctx) ;  spec_lower/spec_lift
(Python mirror of ScalarSpec, cross-checked against Coq on every run)."""
import os, re, json, hashlib
import vf, genlib

SCALARS = ["bool", "u8", "s8", "u16", "s16", "u32", "s32", "u64", "s64", "f32", "f64", "char"]
LANGS = ["rust", "c", "cpp", "csharp", "go", "moonbit", "d"]
GEN_OPTS = {"rust": "--generate-all", "csharp": "--runtime mono"}
COQ_LANG = {"rust": "LangRust", "c": "LangC", "cpp": "LangCpp", "csharp": "LangCSharp", "go": "LangGo",
            "moonbit": "LangMoonBit", "d": "LangD"}
COQ_STY = {"bool": "SBool", "u8": "SU8", "s8": "SS8", "u16": "SU16", "s16": "SS16", "u32": "SU32", "s32": "SS32",
           "u64": "SU64", "s64": "SS64", "f32": "SF32", "f64": "SF64", "char": "SChar"}
INSTR = {("lower", "bool"): "I32FromBool", ("lower", "u8"): "I32FromU8", ("lower", "s8"): "I32FromS8",
         ("lower", "u16"): "I32FromU16", ("lower", "s16"): "I32FromS16", ("lower", "u32"): "I32FromU32",
         ("lower", "s32"): "I32FromS32", ("lower", "u64"): "I64FromU64", ("lower", "s64"): "I64FromS64",
         ("lower", "f32"): "CoreF32FromF32", ("lower", "f64"): "CoreF64FromF64", ("lower", "char"): "I32FromChar",
         ("lift", "bool"): "BoolFromI32", ("lift", "u8"): "U8FromI32", ("lift", "s8"): "S8FromI32",
         ("lift", "u16"): "U16FromI32", ("lift", "s16"): "S16FromI32", ("lift", "u32"): "U32FromI32",
         ("lift", "s32"): "S32FromI32", ("lift", "u64"): "U64FromI64", ("lift", "s64"): "S64FromI64",
         ("lift", "f32"): "F32FromCoreF32", ("lift", "f64"): "F64FromCoreF64", ("lift", "char"): "CharFromI32"}


class ScrapeError(Exception):
    pass


# ============================================================================================
# probe worlds
# ============================================================================================
def scalar_world():
    w = "package probe:scalar;\n\nworld w {\n"
    for t in SCALARS:
        w += "  import h-%s: func(x: %s) -> %s;\n" % (t, t, t)
    for t in SCALARS:
        w += "  export e-%s: func(x: %s) -> %s;\n" % (t, t, t)
    return w + "}\n"


# variants whose cases' flat types differ so that every reachable Bitcast occurs; imports lower the
# parameter (case type -> joined type), exports lift it (joined type -> case type).
CAST_VARIANTS = [
    ("v1", [("a", "s32"), ("b", "s64")]),
    ("v2", [("a", "f32"), ("b", "s32")]),
    ("v3", [("a", "f64"), ("b", "s64")]),
    ("v4", [("a", "f32"), ("b", "s64")]),
    ("v5", [("a", "string"), ("b", "s32")]),
    ("v6", [("a", "string"), ("b", "s64")]),
    ("v7", [("a", "string"), ("b", "f32")]),
    ("v8", [("a", "string"), ("b", "f64")]),
    ("v9", [("a", "tuple<s32, s32>"), ("b", "string")]),
    ("v10", [("a", "tuple<s32, s64>"), ("b", "string")]),
    ("v11", [("a", "tuple<s32, f32>"), ("b", "string")]),
    ("v12", [("a", "tuple<s32, string>"), ("b", "string")]),
    ("v13", [("a", "f32"), ("b", "string"), ("c", "s64")]),
    ("v14", [("a", "tuple<s32, f64>"), ("b", "string")]),
    ("v15", [("a", "list<u8>"), ("b", "s64")]),
]


def cast_world():
    w = "package probe:casts;\n\nworld w {\n"
    for n, cases in CAST_VARIANTS:
        w += "  variant %s { %s }\n" % (n, ", ".join("%s(%s)" % c for c in cases))
    for n, _ in CAST_VARIANTS:
        w += "  import h-%s: func(x: %s);\n  export e-%s: func(x: %s);\n" % (n, n, n, n)
    return w + "}\n"


# ---- the specification's flattening / join, refined the way wit-bindgen refines i32/i64 (WasmType) ----
def flat_of(ty):
    ty = ty.strip()
    if ty in ("s32", "u32", "bool", "u8", "s8", "u16", "s16", "char"):
        return ["I32"]
    if ty in ("s64", "u64"):
        return ["I64"]
    if ty == "f32":
        return ["F32"]
    if ty == "f64":
        return ["F64"]
    if ty == "string" or ty.startswith("list<"):
        return ["Pointer", "Length"]
    if ty.startswith("tuple<"):
        out = []
        for p in split_top(ty[6:-1]):
            out += flat_of(p)
        return out
    raise ScrapeError("flat_of: " + ty)


def join(a, b):
    """wit-parser abi.rs `join` (== canonical ABI join with Pointer/Length/PointerOrI64 refinement)."""
    if a == b:
        return a
    s = {a, b}
    if s == {"I32", "F32"}:
        return "I32"
    if "PointerOrI64" in s:
        return "PointerOrI64"
    if "Pointer" in s:
        o = (s - {"Pointer"}).pop()
        return "Pointer" if o in ("I32", "F32", "Length") else "PointerOrI64"
    if "Length" in s:
        o = (s - {"Length"}).pop()
        return "Length" if o in ("I32", "F32") else "I64"
    return "I64"


def cast_name(frm, to):
    """wit-bindgen-core abi::cast as a tree of Coq [bitcast] constructors (None for an identity)."""
    if frm == to:
        return "BNone64" if frm in ("I64", "F64", "PointerOrI64") else "BNone32"
    t = {("I32", "I64"): "I32ToI64", ("F32", "I32"): "F32ToI32", ("F64", "I64"): "F64ToI64", ("I64", "I32"): "I64ToI32",
         ("I32", "F32"): "I32ToF32", ("I64", "F64"): "I64ToF64", ("F32", "I64"): "F32ToI64", ("I64", "F32"): "I64ToF32",
         ("I64", "PointerOrI64"): "I64ToP64", ("Pointer", "PointerOrI64"): "PToP64", ("PointerOrI64", "I64"): "P64ToI64",
         ("PointerOrI64", "Pointer"): "P64ToP", ("I32", "Pointer"): "I32ToP", ("Pointer", "I32"): "PToI32",
         ("I32", "Length"): "I32ToL", ("Length", "I32"): "LToI32", ("I64", "Length"): "I64ToL", ("Length", "I64"): "LToI64",
         ("Pointer", "Length"): "PToL", ("Length", "Pointer"): "LToP"}
    if (frm, to) in t:
        return t[(frm, to)]
    if to == "PointerOrI64":
        return "(BSeq %s %s)" % (cast_name(frm, "I64"), cast_name("I64", "PointerOrI64"))
    if frm == "PointerOrI64":
        return "(BSeq %s %s)" % (cast_name("PointerOrI64", "I64"), cast_name("I64", to))
    if frm == "F32" and to in ("Pointer", "Length"):
        return "(BSeq %s %s)" % (cast_name("F32", "I32"), cast_name("I32", to))
    if to == "F32" and frm in ("Pointer", "Length"):
        return "(BSeq %s %s)" % (cast_name(frm, "I32"), cast_name("I32", "F32"))
    raise ScrapeError("no cast %s -> %s" % (frm, to))


def pretty_cast(c):
    return c.replace("(BSeq ", "").replace(")", "").replace(" ", "+").replace("BNone32", "None").replace("BNone64", "None")


def split_top(s, sep=","):
    out, depth, cur = [], 0, ""
    for ch in s:
        if ch in "<([{":
            depth += 1
        elif ch in ">)]}":
            depth -= 1
        if ch == sep and depth == 0:
            out.append(cur.strip()); cur = ""
        else:
            cur += ch
    if cur.strip():
        out.append(cur.strip())
    return out


# ============================================================================================
# tokenizer + surface parser (one Pratt parser, per-language switches)
# ============================================================================================
TOKEN_RE = re.compile(r"""
    (?P<ws>\s+)
  | (?P<str>"(?:[^"\\]|\\.)*")
  | (?P<num>0[xX][0-9a-fA-F_]+(?:[uUlL]|[iu](?:8|16|32|64|size))*|\d[\d_]*(?:\.\d+)?(?:[uUlLfF]|[iuf](?:8|16|32|64|size))*)
  | (?P<id>[A-Za-z_$][A-Za-z0-9_$]*!?)
  | (?P<op>::<|::|->|=>|!=|==|<=|>=|&&|\|\||[-+*/%&|^!~<>=?:;,.(){}\[\]\#@])
""", re.X)


def tokenize(s):
    out, i = [], 0
    while i < len(s):
        m = TOKEN_RE.match(s, i)
        if not m:
            raise ScrapeError("cannot tokenize %r at %r" % (s, s[i:i + 20]))
        i = m.end()
        k = m.lastgroup
        if k == "ws":
            continue
        out.append((k, m.group(k)))
    return out


def parse_num(t):
    t = t.replace("_", "")
    m = re.match(r"^(0[xX][0-9a-fA-F]+|\d+)", t)
    return int(m.group(1), 0)


class Parser:
    """expr trees: ('var',n) ('num',k) ('path',s) ('call',path,[a]) ('mcall',recv,name,[a]) ('member',e,n)
       ('as',e,T) ('cast',T,e) ('compound',T,[e]) ('un',op,e) ('bin',op,a,b) ('cond',c,a,b)
       ('match',e,[(pat,e)]) ('if',c,a,b) ('macro',name,text) ('bitcast',[T..],e) ('str',s) ('bool',b)"""

    def __init__(self, text, lang, types):
        self.toks = tokenize(text)
        self.i = 0
        self.lang = lang
        self.types = types      # callable: (parser, pos) -> (typename, newpos) or None
        self.text = text

    def peek(self, k=0):
        return self.toks[self.i + k] if self.i + k < len(self.toks) else ("eof", "")

    def next(self):
        t = self.peek(); self.i += 1; return t

    def accept(self, v):
        if self.peek()[1] == v:
            self.i += 1; return True
        return False

    def expect(self, v):
        if not self.accept(v):
            raise ScrapeError("expected %r at token %d (%r) in %r" % (v, self.i, self.peek()[1], self.text))

    def try_type(self):
        r = self.types(self, self.i)
        if r is None:
            return None
        ty, j = r
        self.i = j
        return ty

    def parse_all(self):
        e = self.expr(0)
        if self.peek()[0] != "eof":
            raise ScrapeError("trailing tokens %r in %r" % (self.toks[self.i:self.i + 4], self.text))
        return e

    BIN = {"||": 1, "&&": 2, "==": 3, "!=": 3, "<": 4, ">": 4, "<=": 4, ">=": 4, "|": 5, "^": 6, "&": 7,
           "+": 9, "-": 9, "*": 10, "/": 10, "%": 10}

    def expr(self, minp):
        lhs = self.unary()
        while True:
            k, v = self.peek()
            if v == "as" and self.lang == "rust":
                self.next()
                ty = self.try_type()
                if ty is None:
                    raise ScrapeError("type expected after `as` in %r" % self.text)
                lhs = ("as", lhs, ty)
                continue
            if v == "?" and self.lang in ("c", "cpp", "csharp", "d") and minp <= 0:
                self.next(); a = self.expr(0); self.expect(":"); b = self.expr(0)
                lhs = ("cond", lhs, a, b)
                continue
            if k == "op" and v in self.BIN and self.BIN[v] >= minp and not (v in ("<", ">") and self.lang in ("rust",) and False):
                p = self.BIN[v]
                self.next()
                rhs = self.expr(p + 1)
                lhs = ("bin", v, lhs, rhs)
                continue
            return lhs

    def unary(self):
        k, v = self.peek()
        if k == "op" and v in ("&", "*", "-", "!", "~") and not (v == "*" and self.lang not in ("rust", "c", "cpp", "go", "d")):
            self.next()
            if v == "&" and self.peek()[1] == "raw":   # &raw mut X
                raise ScrapeError("unsupported &raw")
            if v == "&" and self.peek()[1] == "mut":
                self.next()
            return ("un", v, self.unary())
        return self.postfix(self.primary())

    def args(self):
        out = []
        if self.accept(")"):
            return out
        while True:
            out.append(self.expr(0))
            if self.accept(")"):
                return out
            self.expect(",")
            if self.accept(")"):
                return out

    def postfix(self, e):
        while True:
            k, v = self.peek()
            if v == "(":
                self.next()
                a = self.args()
                if e[0] in ("var", "path"):
                    e = ("call", e[1], a)
                elif e[0] == "member":
                    e = ("mcall", e[1], e[2], a)
                else:
                    raise ScrapeError("call of non-name in %r" % self.text)
                continue
            if v == ".":
                self.next()
                k2, n = self.next()
                if k2 not in ("id", "num"):
                    raise ScrapeError("member name expected in %r" % self.text)
                # Rust turbofish on a method: .cast::<u8>()
                if self.peek()[1] == "::<":
                    n += self.generic_suffix()
                # D template instantiation: .reinterpretCast!uint
                if n.endswith("!") and self.peek()[0] == "id":
                    n += self.next()[1]
                e = ("member", e, n)
                continue
            return e

    def generic_suffix(self):
        """consume ::< ... > (nested), return its text"""
        assert self.next()[1] == "::<"
        depth, txt = 1, "::<"
        while depth:
            k, v = self.next()
            if k == "eof":
                raise ScrapeError("unterminated generic in %r" % self.text)
            if v in ("<", "::<"):
                depth += 1
            elif v == ">":
                depth -= 1
            txt += v if v not in ("mut", "const") else v + " "
        return txt

    def path(self, first):
        p = first
        while True:
            if self.peek()[1] == "::" and self.peek(1)[0] == "id":
                self.next(); p += "::" + self.next()[1]
            elif self.peek()[1] == "::<":
                p += self.generic_suffix()
            else:
                return p

    def block(self):
        """{ expr }   (statements are not supported: conversion templates are expressions)"""
        self.expect("{")
        e = self.expr(0)
        self.accept(";")
        self.expect("}")
        return e

    def primary(self):
        k, v = self.next()
        L = self.lang
        if k == "num":
            return ("num", parse_num(v))
        if k == "str":
            return ("str", v)
        if v == "(":
            # C-style cast / compound literal?
            if L in ("c", "cpp", "csharp"):
                save = self.i
                ty = self.try_type()
                if ty is not None and self.accept(")"):
                    if self.peek()[1] == "{":
                        self.next()
                        items = []
                        while not self.accept("}"):
                            items.append(self.expr(0))
                            self.accept(",")
                        return ("compound", ty, items)
                    return ("cast", ty, self.unary())
                self.i = save
            e = self.expr(0)
            self.expect(")")
            return e
        if v == "{" and L in ("rust", "moonbit"):
            self.i -= 1
            return self.block()
        if k == "id":
            if v == "unsafe" and L == "rust" and self.peek()[1] == "{":
                return self.block()
            if v == "unchecked" and L == "csharp" and self.peek()[1] == "(":
                self.next(); e = self.expr(0); self.expect(")"); return e
            if v == "cast" and L == "d" and self.peek()[1] == "(":
                self.next()
                ty = self.try_type()
                if ty is None:
                    raise ScrapeError("D cast: type expected in %r" % self.text)
                self.expect(")")
                return ("cast", ty, self.unary())
            if v in ("true", "false"):
                return ("bool", v == "true")
            if v == "match" and L == "rust":
                scrut = self.expr(0)
                self.expect("{")
                arms = []
                while not self.accept("}"):
                    pk, pv = self.next()
                    pat = ("num", parse_num(pv)) if pk == "num" else ("bool", pv == "true") if pv in ("true", "false") else ("wild", pv)
                    self.expect("=>")
                    arms.append((pat, self.expr(0)))
                    self.accept(",")
                return ("match", scrut, arms)
            if v == "if" and L in ("rust", "moonbit"):
                c = self.expr(0)
                a = self.block()
                if not (self.peek()[1] == "else"):
                    raise ScrapeError("if without else in %r" % self.text)
                self.next()
                b = self.block()
                return ("if", c, a, b)
            if v.endswith("!") and L == "rust":        # macro call: cfg!(...), panic!(...)
                self.expect("(")
                depth, txt = 1, ""
                while depth:
                    k2, v2 = self.next()
                    if k2 == "eof":
                        raise ScrapeError("unterminated macro in %r" % self.text)
                    if v2 == "(":
                        depth += 1
                    elif v2 == ")":
                        depth -= 1
                        if depth == 0:
                            break
                    txt += v2
                return ("macro", v, txt)
            # a type used as a function: Go/C++ conversion T(e)
            if L in ("go", "cpp"):
                self.i -= 1
                save = self.i
                ty = self.try_type()
                if ty is not None and self.peek()[1] == "(":
                    self.next()
                    e = self.expr(0)
                    self.expect(")")
                    return ("cast", ty, e)
                self.i = save
                self.next()
            p = self.path(v)
            # C++: std::bit_cast<float, int32_t>(x)
            if L == "cpp" and p.endswith("bit_cast") and self.peek()[1] == "<":
                self.next()
                tys = []
                while True:
                    ty = self.try_type()
                    if ty is None:
                        raise ScrapeError("bit_cast type args in %r" % self.text)
                    tys.append(ty)
                    if self.accept(">"):
                        break
                    self.expect(",")
                self.expect("(")
                e = self.expr(0)
                self.expect(")")
                return ("bitcast", tys, e)
            # C#: global::System.BitConverter.X  — dotted path is handled by postfix as members
            return ("var", p) if "::" not in p else ("path", p)
        if v == "::" and L == "rust":                    # leading ::core::...
            k2, v2 = self.next()
            return ("path", self.path("::" + v2))
        raise ScrapeError("unexpected token %r in %r" % (v, self.text))


def type_parser(table, ptr_ok=False, union_ok=False):
    """table: spelling -> Coq type constructor.  Returns a `types` callable for Parser."""
    def f(p, i):
        toks = p.toks
        if i >= len(toks):
            return None
        k, v = toks[i]
        if union_ok and v == "union" and i + 1 < len(toks):
            return ("union " + toks[i + 1][1], i + 2)
        if p.lang == "rust" and v == "*" and i + 2 < len(toks) and toks[i + 1][1] in ("mut", "const") and toks[i + 2][1] == "u8":
            return ("*mut u8", i + 3)
        if k == "id" and v in table:
            j = i + 1
            name = v
            if ptr_ok and j < len(toks) and toks[j][1] == "*":
                # `uint8_t *` / `void*` is a pointer type only when followed by ')'
                if j + 1 < len(toks) and toks[j + 1][1] == ")":
                    return (name + "*", j + 1)
            return (name, j)
        return None
    return f


RUST_TY = {"i8": "Ri8", "u8": "Ru8", "i16": "Ri16", "u16": "Ru16", "i32": "Ri32", "u32": "Ru32", "i64": "Ri64",
           "u64": "Ru64", "bool": "Rbool", "f32": "Rf32", "f64": "Rf64", "char": "Rchar", "usize": "Rusize",
           "*mut u8": "Rptr", "*const u8": "Rptr", "::core::mem::MaybeUninit::<u64>": "Rmu64"}
C_TY = {"int8_t": "I8", "uint8_t": "U8", "int16_t": "I16", "uint16_t": "U16", "int32_t": "I32", "uint32_t": "U32",
        "int64_t": "I64", "uint64_t": "U64", "bool": "TBool", "float": "TF32", "double": "TF64", "uintptr_t": "TUsize",
        "size_t": "TUsize", "uint8_t*": "TPtr", "void*": "TPtr"}
CS_TY = {"sbyte": "I8", "byte": "U8", "short": "I16", "ushort": "U16", "int": "I32", "uint": "U32", "long": "I64",
         "ulong": "U64", "bool": "TBool", "float": "TF32", "double": "TF64", "nint": "TPtr"}
GO_TY = {"int8": "I8", "uint8": "U8", "int16": "I16", "uint16": "U16", "int32": "I32", "uint32": "U32", "int64": "I64",
         "uint64": "U64", "bool": "TBool", "float32": "TF32", "float64": "TF64", "rune": "I32", "uintptr": "TUsize"}
D_TY = {"char": "U8", "wchar": "U16", "byte": "I8", "ubyte": "U8", "short": "I16", "ushort": "U16", "int": "I32", "uint": "U32", "long": "I64",
        "ulong": "U64", "bool": "TBool", "float": "TF32", "double": "TF64", "dchar": "TChar", "size_t": "TUsize",
        "void*": "TPtr"}
MBT_TY = {"Int": "MInt", "UInt": "MUInt", "Int64": "MInt64", "UInt64": "MUInt64", "Byte": "MByte", "Bool": "MBool",
          "Char": "MChar", "Float": "MFloat", "Double": "MDouble"}
KLANG = {"c": "KC", "cpp": "KCpp", "csharp": "KCSharp", "go": "KGo", "d": "KD"}
KTYPES = {"c": C_TY, "cpp": C_TY, "csharp": CS_TY, "go": GO_TY, "d": D_TY}
# the language type each backend gives a WIT scalar (checked against the generated declarations where
# one exists; for Go the exported user function has no declaration in the generated code)
GO_WIT = {"bool": "bool", "u8": "uint8", "s8": "int8", "u16": "uint16", "s16": "int16", "u32": "uint32", "s32": "int32",
          "u64": "uint64", "s64": "int64", "f32": "float32", "f64": "float64", "char": "rune"}

PARSE_TYPES = {
    "rust": type_parser(RUST_TY),
    "c": type_parser(C_TY, ptr_ok=True, union_ok=True),
    "cpp": type_parser(C_TY, ptr_ok=True),
    "csharp": type_parser(CS_TY),
    "go": type_parser(GO_TY),
    "d": type_parser(D_TY, ptr_ok=True),
    "moonbit": type_parser(MBT_TY),
}


def parse_expr(lang, text):
    return Parser(text, lang, PARSE_TYPES[lang]).parse_all()


def zlit(n):
    return "(%d)" % n if n < 0 else "%d" % n


# ============================================================================================
# lowering of surface trees into Coq surface-AST terms
# ============================================================================================
class RustCtx:
    def __init__(self, src_text):
        self.src = src_text
        self._helpers = {}

    def helper_fn(self, name):
        """(param name, param type, body tree) of `pub [unsafe] fn name(p: T) -> R { body }` in the generated file."""
        if name in self._helpers:
            return self._helpers[name]
        m = re.search(r"pub (?:unsafe )?fn %s\((\w+): ([^)]+)\) -> [^{]+\{" % re.escape(name), self.src)
        if not m:
            raise ScrapeError("rust: helper fn %s not found in generated text" % name)
        body = balanced(self.src, m.end() - 1)
        r = (m.group(1), m.group(2).strip(), parse_expr("rust", "{" + body + "}"))
        self._helpers[name] = r
        return r

    def trait_impl(self, trait, method, ty):
        """body tree of `impl Trait for ty { fn method(self) -> R { body } }`."""
        key = (trait, ty)
        if key in self._helpers:
            return self._helpers[key]
        m = re.search(r"impl %s for %s \{\s*(?:#\[inline\]\s*)?fn %s\(self\) -> \w+ \{" % (trait, re.escape(ty), method), self.src)
        if not m:
            raise ScrapeError("rust: impl %s for %s not found in generated text" % (trait, ty))
        body = balanced(self.src, m.end() - 1)
        # the generic dispatcher and the blanket &T impl must have the expected (transparent) shape
        g = re.search(r"pub fn %s<T: %s>\(t: T\) -> \w+ \{\s*t\.%s\(\)\s*\}" % (method, trait, method), self.src)
        r_ = re.search(r"impl<'a, T: Copy \+ %s> %s for &'a T \{\s*fn %s\(self\) -> \w+ \{\s*\(\*self\)\.%s\(\)\s*\}" % (trait, trait, method, method), self.src)
        if not g or not r_:
            raise ScrapeError("rust: generic %s dispatcher / &T impl has an unexpected shape" % method)
        r = parse_expr("rust", "{" + body + "}")
        self._helpers[key] = r
        return r


def balanced(s, i):
    """s[i] == '{' : text between it and its matching '}'."""
    assert s[i] == "{"
    d, j = 0, i
    while j < len(s):
        if s[j] == "{":
            d += 1
        elif s[j] == "}":
            d -= 1
            if d == 0:
                return s[i + 1:j]
        j += 1
    raise ScrapeError("unbalanced braces")


def rust_static_type(t, var, vty):
    """static type (Rust spelling) of the simple argument forms helper calls are applied to."""
    if t[0] == "var" and t[1] == var:
        return vty
    if t[0] == "un" and t[1] in ("&", "*"):
        return rust_static_type(t[2], var, vty)
    if t[0] == "as":
        return t[2]
    raise ScrapeError("rust: cannot type helper argument %r" % (t,))


def lower_rust(t, var, vty, ctx):
    def go(t):
        k = t[0]
        if k == "var":
            if t[1] == var:
                return "RVar"
            raise ScrapeError("rust: free identifier %r (variable is %r)" % (t[1], var))
        if k == "un" and t[1] == "&":
            return "(RRef %s)" % go(t[2])
        if k == "un" and t[1] == "*":
            return "(RDeref %s)" % go(t[2])
        if k == "as":
            if t[2] not in RUST_TY:
                raise ScrapeError("rust: unknown type %r" % t[2])
            return "(RAs %s %s)" % (go(t[1]), RUST_TY[t[2]])
        if k == "call":
            name = t[1]
            last = name.split("::")[-1]
            if name in ("i64::from", "i32::from", "u64::from", "u32::from", "i16::from", "u16::from") and len(t[2]) == 1:
                return "(RFrom %s %s)" % (RUST_TY[name.split("::")[0]], go(t[2][0]))
            if name in ("f32::from_bits", "f64::from_bits") and len(t[2]) == 1:
                return "(RFromBits %s %s)" % (RUST_TY[name.split("::")[0]], go(t[2][0]))
            if name in ("core::char::from_u32_unchecked", "::core::char::from_u32_unchecked") and len(t[2]) == 1:
                return "(RCharUnchecked %s)" % go(t[2][0])
            if name in ("::core::mem::MaybeUninit::new", "core::mem::MaybeUninit::new") and len(t[2]) == 1:
                return "(RMuNew %s)" % go(t[2][0])
            if last in ("as_i32", "as_i64", "as_f32", "as_f64") and len(t[2]) == 1:
                trait = {"as_i32": "AsI32", "as_i64": "AsI64", "as_f32": "AsF32", "as_f64": "AsF64"}[last]
                aty = rust_static_type(t[2][0], var, vty)
                body = ctx.trait_impl(trait, last, aty)
                return "(RCall %s %s %s)" % (RUST_TY[aty], go(t[2][0]), lower_rust(body, "self", aty, ctx))
            if last in ("bool_lift", "char_lift") and len(t[2]) == 1:
                p, pty, body = ctx.helper_fn(last)
                if pty not in RUST_TY:
                    raise ScrapeError("rust: helper %s has parameter type %r" % (last, pty))
                return "(RCall %s %s %s)" % (RUST_TY[pty], go(t[2][0]), lower_rust(body, p, pty, ctx))
            raise ScrapeError("rust: unknown function %r" % name)
        if k == "mcall":
            if t[2] == "to_bits" and not t[3]:
                return "(RToBits %s)" % go(t[1])
            if t[2] == "assume_init" and not t[3]:
                return "(RMuAssumeInit %s)" % go(t[1])
            if t[2] == "__p64_read_ptr" and not t[3]:      # stands for .as_ptr().cast::<*mut u8>().read()
                return "(RMuReadPtr %s)" % go(t[1])
            if t[2] == "unwrap" and not t[3] and t[1][0] == "call" and t[1][1] in ("core::char::from_u32", "::core::char::from_u32"):
                return "(RCharUnwrap %s)" % go(t[1][2][0])
            if t[2] in ("cast_mut", "cast_const") and not t[3]:     # *const T <-> *mut T: same address
                return go(t[1])
            raise ScrapeError("rust: unknown method %r" % t[2])
        if k == "match":
            arms = t[2]
            pats = [a[0] for a in arms]
            if pats == [("bool", True), ("bool", False)] and all(a[1][0] == "num" for a in arms):
                return "(RMatchBool %s %s %s)" % (go(t[1]), zlit(arms[0][1][1]), zlit(arms[1][1][1]))
            if pats == [("bool", False), ("bool", True)] and all(a[1][0] == "num" for a in arms):
                return "(RMatchBool %s %s %s)" % (go(t[1]), zlit(arms[1][1][1]), zlit(arms[0][1][1]))
            if (len(arms) == 3 and pats[0] == ("num", 0) and pats[1] == ("num", 1) and pats[2][0] == "wild"
                    and arms[0][1] == ("bool", False) and arms[1][1] == ("bool", True)
                    and arms[2][1][0] == "macro" and arms[2][1][1] == "panic!"):
                return "(RMatch01 %s)" % go(t[1])
            raise ScrapeError("rust: unsupported match %r" % (t,))
        if k == "bin" and t[1] == "!=" and t[3] == ("num", 0):
            return "(RNeZero %s)" % go(t[2])
        if k == "if" and t[1][0] == "macro" and t[1][1] == "cfg!" and t[1][2] == "debug_assertions":
            return "(RIfDebug %s %s)" % (go(t[2]), go(t[3]))
        raise ScrapeError("rust: unsupported expression %r" % (t,))
    return go(t)


def k_static_type(t, var, vty, lang):
    if t[0] == "var" and t[1] == var:
        return vty
    if t[0] == "cast":
        return t[1]
    raise ScrapeError("%s: cannot type operand %r" % (lang, t))


def lower_k(t, var, vty, lang, ctx):
    """ctx: dict with 'unions' (C: name -> [(type, field)])."""
    tys = KTYPES[lang]

    def ty(n):
        if n not in tys:
            raise ScrapeError("%s: unknown type %r" % (lang, n))
        return tys[n]

    def go(t):
        k = t[0]
        if k == "var":
            if t[1] == var:
                return "KVar"
            raise ScrapeError("%s: free identifier %r (variable is %r)" % (lang, t[1], var))
        if k == "num":
            return "(KLit %s)" % zlit(t[1])
        if k == "cast":
            return "(KCast %s %s)" % (ty(t[1]), go(t[2]))
        if k == "bin" and t[1] == "!=" and t[3] == ("num", 0):
            return "(KNeZero %s)" % go(t[2])
        if k == "cond" and t[2][0] == "num" and t[3][0] == "num":
            return "(KCond %s %s %s)" % (go(t[1]), zlit(t[2][1]), zlit(t[3][1]))
        if k == "member" and t[1][0] == "compound" and lang == "c":
            uty, items = t[1][1], t[1][2]
            if not uty.startswith("union ") or len(items) != 1:
                raise ScrapeError("c: unsupported compound literal %r" % (t,))
            fields = ctx["unions"].get(uty[6:])
            if not fields or len(fields) != 2 or fields[1][1] != t[2]:
                raise ScrapeError("c: union %s not found / unexpected fields %r" % (uty, fields))
            return "(KPun %s %s %s)" % (ty(fields[0][0]), ty(fields[1][0]), go(items[0]))
        if k == "bitcast" and lang == "cpp" and len(t[1]) == 2:
            return "(KPun %s %s %s)" % (ty(t[1][1]), ty(t[1][0]), go(t[2]))
        if k == "mcall" and lang == "csharp":
            name = t[2]
            recv = flat_member(t[1])
            table = {"Int32BitsToSingle": ("int", "float"), "SingleToInt32Bits": ("float", "int"),
                     "Int64BitsToDouble": ("long", "double"), "DoubleToInt64Bits": ("double", "long")}
            if recv.endswith("BitConverter") and name in table and len(t[3]) == 1:
                a, b = table[name]
                return "(KPun %s %s %s)" % (ty(a), ty(b), go(t[3][0]))
            raise ScrapeError("csharp: unknown method %s.%s" % (recv, name))
        if k == "member" and lang == "d" and t[2].startswith("reinterpretCast!"):
            tb = t[2][len("reinterpretCast!"):]
            ta = k_static_type(t[1], var, vty, lang)
            return "(KPun %s %s %s)" % (ty(ta), ty(tb), go(t[1]))
        if k == "call" and lang == "go" and t[1] in ("math.Float32bits", "math.Float64bits", "math.Float32frombits", "math.Float64frombits"):
            pass
        raise ScrapeError("%s: unsupported expression %r" % (lang, t))
    return go(t)


def flat_member(t):
    if t[0] in ("var", "path"):
        return t[1]
    if t[0] == "member":
        return flat_member(t[1]) + "." + t[2]
    raise ScrapeError("unsupported receiver %r" % (t,))


def lower_mbt(t, var, ctx):
    """ctx: dict 'wasm_helpers': name -> wasm op constructor."""
    def go(t):
        k = t[0]
        if k == "var":
            if t[1] == var:
                return "MVar"
            raise ScrapeError("moonbit: free identifier %r (variable is %r)" % (t[1], var))
        if k == "mcall" and t[2] == "land" and len(t[3]) == 1 and t[3][0][0] == "num":
            return "(MLand %s %s)" % (go(t[1]), zlit(t[3][0][1]))
        if k == "mcall" and not t[3]:
            return '(MMethod "%s" %s)' % (t[2], go(t[1]))
        if k == "call" and "::" in t[1] and len(t[2]) == 1:          # Type::method(e)
            tyname, meth = t[1].split("::", 1)
            if tyname not in MBT_TY:
                raise ScrapeError("moonbit: unknown type %r" % tyname)
            return '(MMethod "%s" %s)' % (meth, go(t[2][0]))
        if k == "call" and len(t[2]) == 1 and t[1] in ctx["wasm_helpers"]:
            return "(MWasm %s %s)" % (ctx["wasm_helpers"][t[1]], go(t[2][0]))
        if k == "bin" and t[1] == "-" and t[3][0] == "num":
            return "(MSub %s %s)" % (go(t[2]), zlit(t[3][1]))
        if k == "bin" and t[1] == "!=" and t[3] == ("num", 0):
            return "(MNeZero %s)" % go(t[2])
        if k == "if" and t[2][0] == "num" and t[3][0] == "num":
            return "(MIf %s %s %s)" % (go(t[1]), zlit(t[2][1]), zlit(t[3][1]))
        raise ScrapeError("moonbit: unsupported expression %r" % (t,))
    return go(t)


# ============================================================================================
# sites
# ============================================================================================
class Site:
    """One conversion site cut out of generated text."""
    def __init__(self, lang, direction, ty, site, text, var, src, dst, extra=None):
        self.lang, self.dir, self.ty, self.site = lang, direction, ty, site
        self.text, self.var, self.src, self.dst = text.strip(), var, src.strip(), dst.strip()
        self.extra = extra or {}
        self.coq = None          # list of (suffix, lexpr term)
        self.error = None

    @property
    def key(self):
        return "%s:%s" % (self.lang, INSTR[(self.dir, self.ty)])

    def ident(self, suffix=""):
        return "%s_%s_%s_%s%s" % (self.lang, self.dir, self.ty, {"import-param": "imp", "import-result": "imp",
                                                                 "export-param": "exp", "export-result": "exp"}[self.site], suffix)

    def describe(self):
        return {"lang": self.lang, "instr": INSTR[(self.dir, self.ty)], "site": self.site, "text": self.text,
                "var": self.var, "var_type": self.src, "context_type": self.dst}


def need(m, what):
    if not m:
        raise ScrapeError("pattern not found: " + what)
    return m


def snake(t):
    return t


def camel(name):
    return "".join(p[:1].upper() + p[1:] for p in re.split(r"[-_]", name))


def scrape_rust(files):
    src = files["w.rs"]
    ctx = RustCtx(src)
    sites = []
    for t in SCALARS:
        # ---- import wrapper
        m = need(re.search(r"pub fn h_%s\(x: ([^,]+),\) -> ([^{]+)\{" % t, src), "rust import wrapper h_%s" % t)
        body = balanced(src, m.end() - 1)
        pty, rty = m.group(1).strip(), m.group(2).strip()
        d = need(re.search(r"fn (wit_import\d+)\(_: ([^,]+), \) -> ([^;{]+);", body), "rust import decl of h_%s" % t)
        cty_p, cty_r = d.group(2).strip(), d.group(3).strip()
        c = need(re.search(r"let ret = %s\((.*)\);\n\s*(.*?)\n\s*\}\s*$" % d.group(1), body, re.S), "rust import call of h_%s" % t)
        sites.append(Site("rust", "lower", t, "import-param", c.group(1), "x", pty, cty_p, {"ctx": ctx}))
        sites.append(Site("rust", "lift", t, "import-result", c.group(2), "ret", cty_r, rty, {"ctx": ctx}))
        # ---- export wrapper
        m = need(re.search(r"pub unsafe fn _export_e_%s_cabi<T_: Guest>\(arg0: ([^,]+),\) -> ([^{]+)\{ unsafe \{" % t, src),
                 "rust export wrapper e_%s" % t)
        body = balanced(src, m.end() - 1)
        a_ty, r_ty = m.group(1).strip(), m.group(2).strip()
        u = need(re.search(r"fn e_%s\(x: ([^,]+),\) -> ([^;]+);" % t, src), "rust trait fn e_%s" % t)
        c = need(re.search(r"let (result\d+) = \{\s*T_::e_%s\((.*)\)\s*\};\s*(.*?)\s*$" % t, body, re.S), "rust export body e_%s" % t)
        sites.append(Site("rust", "lift", t, "export-param", c.group(2), "arg0", a_ty, u.group(1), {"ctx": ctx}))
        sites.append(Site("rust", "lower", t, "export-result", c.group(3), c.group(1), u.group(2), r_ty, {"ctx": ctx}))
    return sites


def c_unions(text):
    out = {}
    for m in re.finditer(r"union (\w+) \{([^}]*)\}", text):
        fields = [tuple(f.strip().rsplit(" ", 1)) for f in m.group(2).split(";") if f.strip()]
        out[m.group(1)] = fields
    return out


def scrape_c(files):
    c, h = files["w.c"], files["w.h"]
    ctx = {"unions": c_unions(c)}
    sites = []
    for t in SCALARS:
        d = need(re.search(r"extern (\w+) (__wasm_import_w_h_%s)\((\w+)\);" % t, c), "c import decl h_%s" % t)
        m = need(re.search(r"\n(\w+) w_h_%s\((\w+) x\) \{\n(.*?)\n\}\n" % t, c, re.S), "c import wrapper h_%s" % t)
        body = m.group(3)
        call = need(re.search(r"(\w+) ret = %s\((.*)\);\n\s*return (.*);\s*$" % d.group(2), body, re.S), "c import body h_%s" % t)
        sites.append(Site("c", "lower", t, "import-param", call.group(2), "x", m.group(2), d.group(3), {"ctx": ctx}))
        sites.append(Site("c", "lift", t, "import-result", call.group(3), "ret", call.group(1), m.group(1), {"ctx": ctx}))
        if call.group(1) != d.group(1):
            raise ScrapeError("c: `ret` of h_%s declared %s but the import returns %s" % (t, call.group(1), d.group(1)))
        u = need(re.search(r"\n(\w+) exports_w_e_%s\((\w+) x\);" % t, h), "c user fn decl e_%s" % t)
        m = need(re.search(r"\n(\w+) __wasm_export_exports_w_e_%s\((\w+) arg\) \{\n(.*?)\n\}\n" % t, c, re.S), "c export wrapper e_%s" % t)
        call = need(re.search(r"(\w+) ret = exports_w_e_%s\((.*)\);\n\s*return (.*);\s*$" % t, m.group(3), re.S), "c export body e_%s" % t)
        sites.append(Site("c", "lift", t, "export-param", call.group(2), "arg", m.group(2), u.group(2), {"ctx": ctx}))
        sites.append(Site("c", "lower", t, "export-result", call.group(3), "ret", call.group(1), m.group(1), {"ctx": ctx}))
        if call.group(1) != u.group(1):
            raise ScrapeError("c: `ret` of e_%s declared %s but the user function returns %s" % (t, call.group(1), u.group(1)))
    return sites


def scrape_cpp(files):
    c, h = files["w.cpp"], files["w_cpp.h"]
    sites = []
    for t in SCALARS:
        cm = camel(t)
        d = need(re.search(r"(\w+) (__wasm_import_h_%s)\((\w+)\);" % t, c), "cpp import decl h_%s" % t)
        m = need(re.search(r"\n(\w+) w::H%s\((\w+) x\)\s*\{\n(.*?)\n\}\n" % cm, c, re.S), "cpp import wrapper H%s" % cm)
        call = need(re.search(r"auto ret = %s\((.*)\);\n\s*return (.*);\s*$" % d.group(2), m.group(3), re.S), "cpp import body H%s" % cm)
        sites.append(Site("cpp", "lower", t, "import-param", call.group(1), "x", m.group(2), d.group(3)))
        sites.append(Site("cpp", "lift", t, "import-result", call.group(2), "ret", d.group(1), m.group(1)))
        u = need(re.search(r"\n\s*(\w+) E%s\((\w+) x\);" % cm, h), "cpp user fn decl E%s" % cm)
        m = need(re.search(r"\n(\w+) __wasm_export_e_%s\((\w+) arg0\)\s*\{\n(.*?)\n\}\n" % t, c, re.S), "cpp export wrapper e_%s" % t)
        call = need(re.search(r"auto (result\d+) = exports::w::E%s\((.*)\);\n\s*return (.*);\s*$" % cm, m.group(3), re.S), "cpp export body e_%s" % t)
        sites.append(Site("cpp", "lift", t, "export-param", call.group(2), "arg0", m.group(2), u.group(2)))
        sites.append(Site("cpp", "lower", t, "export-result", call.group(3), call.group(1), u.group(1), m.group(1)))
    return sites


def scrape_csharp(files):
    src = files["W.cs"]
    sites = []
    for t in SCALARS:
        cm = camel(t)
        d = need(re.search(r"public static extern (\w+) wasmImportH%s\((\w+) p0\);" % cm, src), "csharp import decl H%s" % cm)
        m = need(re.search(r"public static unsafe (\w+) H%s\((\w+) x\)\s*\{(.*?)\n\s*\}\n" % cm, src, re.S), "csharp import wrapper H%s" % cm)
        call = need(re.search(r"var result =\s+[\w.]*wasmImportH%s\((.*)\);\n\s*return (.*);\s*$" % cm, m.group(3), re.S), "csharp import body H%s" % cm)
        sites.append(Site("csharp", "lower", t, "import-param", call.group(1), "x", m.group(2), d.group(2)))
        sites.append(Site("csharp", "lift", t, "import-result", call.group(2), "result", d.group(1), m.group(1)))
        u = need(re.search(r"static abstract (\w+) E%s\((\w+) x\);" % cm, src), "csharp user fn decl E%s" % cm)
        m = need(re.search(r"public static unsafe (\w+) wasmExportE%s\((\w+) p0\) \{(.*?)\n\s*\}\n" % cm, src, re.S), "csharp export wrapper E%s" % cm)
        call = need(re.search(r"(\w+) ret;\n\s*ret = \w+\.E%s\((.*)\);\n\s*return (.*);\s*$" % cm, m.group(3), re.S), "csharp export body E%s" % cm)
        sites.append(Site("csharp", "lift", t, "export-param", call.group(2), "p0", m.group(2), u.group(2)))
        sites.append(Site("csharp", "lower", t, "export-result", call.group(3), "ret", call.group(1), m.group(1)))
        if call.group(1) != u.group(1):
            raise ScrapeError("csharp: `ret` of E%s declared %s but the user function returns %s" % (cm, call.group(1), u.group(1)))
    return sites


GO_IF = r"var (\w+) (\w+)\nif (.+?) \{\n\s*\1 = (\w+)\n\} else \{\n\s*\1 = (\w+)\n\}\n"


def go_inline_if(body, expr):
    """Go's I32FromBool is a statement (`var r int32; if c { r = 1 } else { r = 0 }`) whose result is the
    identifier r: present it to the parser as the conditional expression it is."""
    expr = expr.strip()
    if re.fullmatch(r"\w+", expr):
        for m in re.finditer(GO_IF, body):
            if m.group(1) == expr:
                return ("goif", m.group(2), m.group(3), m.group(4), m.group(5))
    return None


def scrape_go(files):
    imp, exp = files["wit_world/wit_bindings.go"], files["wit_exports.go"]
    sites = []
    for t in SCALARS:
        cm = camel(t)
        d = need(re.search(r"func (wasm_import_h_%s)\(arg0 (\w+)\) (\w+)\n" % t, imp), "go import decl h_%s" % t)
        m = need(re.search(r"\nfunc H%s\(x (\w+)\) (\w+) \{" % cm, imp), "go import wrapper H%s" % cm)
        body = balanced(imp, m.end() - 1)
        call = need(re.search(r"(\w+) := %s\((.*)\)\nreturn (.*?)\s*$" % d.group(1), body, re.S), "go import body H%s" % cm)
        sites.append(Site("go", "lower", t, "import-param", call.group(2), "x", m.group(1), d.group(2), {"goif": go_inline_if(body, call.group(2))}))
        sites.append(Site("go", "lift", t, "import-result", call.group(3), call.group(1), d.group(3), m.group(2)))
        m = need(re.search(r"\nfunc wasm_export_wit_world_e_%s\(arg0 (\w+)\) (\w+) \{" % t, exp), "go export wrapper e_%s" % t)
        body = balanced(exp, m.end() - 1)
        call = need(re.search(r"(\w+) := export_wit_world\.E%s\((.*?)\)\n(.*)return (.*?)\s*$" % cm, body, re.S), "go export body e_%s" % t)
        # the user's function is not declared in generated code: its parameter / result type is Go's type for the WIT type
        sites.append(Site("go", "lift", t, "export-param", call.group(2), "arg0", m.group(1), GO_WIT[t]))
        sites.append(Site("go", "lower", t, "export-result", call.group(4), call.group(1), GO_WIT[t], m.group(2), {"goif": go_inline_if(body, call.group(4))}))
    return sites


def scrape_d(files):
    src = files["wit/probe/scalar/w/package.d"]
    sites = []
    for t in SCALARS:
        cm = camel(t)
        d = need(re.search(r"private extern\(C\) (\w+) __import_h%s\((\w+)\) nothrow;" % cm, src), "d import decl h%s" % cm)
        m = need(re.search(r"\n(\w+) h%s\((\w+) x\) @trusted nothrow \{\n(.*?)\n\}\n" % cm, src, re.S), "d import wrapper h%s" % cm)
        call = need(re.search(r"auto _ret = __import_h%s\((.*)\);\n\s*return (.*);\s*$" % cm, m.group(3), re.S), "d import body h%s" % cm)
        sites.append(Site("d", "lower", t, "import-param", call.group(1), "x", m.group(2), d.group(2)))
        sites.append(Site("d", "lift", t, "import-result", call.group(2), "_ret", d.group(1), m.group(1)))
        u = need(re.search(r"alias e%s_Sig = (\w+) function\((\w+) x\);" % cm, src), "d user fn sig e%s" % cm)
        m = need(re.search(r"private extern\(C\) (\w+) __export_e%s\((\w+) arg0\) \{\n(.*?)\n\s*\}\n" % cm, src, re.S), "d export wrapper e%s" % cm)
        call = need(re.search(r"auto _ret = e%s_Impl\((.*)\);\n\s*return (.*);\s*$" % cm, m.group(3), re.S), "d export body e%s" % cm)
        sites.append(Site("d", "lift", t, "export-param", call.group(1), "arg0", m.group(2), u.group(2)))
        sites.append(Site("d", "lower", t, "export-result", call.group(2), "_ret", u.group(1), m.group(1)))
    return sites


WASM_OPS = {"i32.extend8_s": "WExtend8S", "i32.extend16_s": "WExtend16S"}


def mbt_wasm_helpers(files):
    out = {}
    for name, text in files.items():
        if not isinstance(text, str):
            continue
        for m in re.finditer(r'extern "wasm" fn (\w+)\(\w+ : Int\) -> Int =\s*\n\s*#\|\(func \(param i32\) \(result i32\) local\.get 0 ([\w.]+)\)', text):
            if m.group(2) in WASM_OPS:
                out[m.group(1)] = WASM_OPS[m.group(2)]
    return out


def scrape_moonbit(files):
    imp = files["world/w/import.mbt"]
    ffi_imp = files["world/w/ffi_import.mbt"]
    exp = files["gen/world/w/ffi.mbt"]
    top = files["gen/world/w/top.mbt"]
    ctx = {"wasm_helpers": mbt_wasm_helpers(files)}
    sites = []
    for t in SCALARS:
        cm = camel(t)
        d = need(re.search(r"fn (wasmImportH%s)\(p0 : (\w+)\) -> (\w+) =" % cm, ffi_imp), "moonbit import decl H%s" % cm)
        m = need(re.search(r"pub fn h_%s\(x : (\w+)\) -> (\w+) \{\n(.*?)\n\}\n" % t, imp, re.S), "moonbit import wrapper h_%s" % t)
        call = need(re.search(r"let result : (\w+) =\s+%s\((.*)\);\n\s*let ret = (.*)\n\s*return ret\s*$" % d.group(1), m.group(3), re.S), "moonbit import body h_%s" % t)
        sites.append(Site("moonbit", "lower", t, "import-param", call.group(2), "x", m.group(1), d.group(2), {"ctx": ctx}))
        sites.append(Site("moonbit", "lift", t, "import-result", call.group(3), "result", call.group(1), m.group(2), {"ctx": ctx}))
        if call.group(1) != d.group(3):
            raise ScrapeError("moonbit: `result` of h_%s declared %s but the import returns %s" % (t, call.group(1), d.group(3)))
        u = need(re.search(r"declare pub fn e_%s\(x : (\w+)\) -> (\w+)" % t, top), "moonbit user fn decl e_%s" % t)
        m = need(re.search(r"pub fn wasmExportE%s\(p0 : (\w+)\) -> (\w+) \{\n(.*?)\n\}\n" % cm, exp, re.S), "moonbit export wrapper E%s" % cm)
        call = need(re.search(r"let \(result\) : \((\w+)\) = e_%s\((.*)\);\n\s*let ret = (.*)\n\s*return ret\s*$" % t, m.group(3), re.S), "moonbit export body E%s" % cm)
        sites.append(Site("moonbit", "lift", t, "export-param", call.group(2), "p0", m.group(1), u.group(1), {"ctx": ctx}))
        sites.append(Site("moonbit", "lower", t, "export-result", call.group(3), "result", call.group(1), m.group(2), {"ctx": ctx}))
        if call.group(1) != u.group(2):
            raise ScrapeError("moonbit: `result` of e_%s declared %s but the user function returns %s" % (t, call.group(1), u.group(2)))
    return sites


SCRAPERS = {"rust": scrape_rust, "c": scrape_c, "cpp": scrape_cpp, "csharp": scrape_csharp, "go": scrape_go,
            "d": scrape_d, "moonbit": scrape_moonbit}


def translate_site(s):
    """fill s.coq with [(suffix, lexpr term)]"""
    lang = s.lang
    if lang == "rust":
        for nm, tab in ((s.src, RUST_TY), (s.dst, RUST_TY)):
            if nm not in tab:
                raise ScrapeError("rust: unknown type %r at %s" % (nm, s.site))
        tree = parse_expr("rust", s.text)
        term = lower_rust(tree, s.var, s.src, s.extra["ctx"])
        modes = [("", "false")]
        if "RIfDebug" in term:
            modes = [("", "false"), ("_dbg", "true")]
        s.coq = [(suf, "(LRust %s %s %s %s)" % (dbg, RUST_TY[s.src], RUST_TY[s.dst], term)) for suf, dbg in modes]
    elif lang in KLANG:
        tys = KTYPES[lang]
        for nm in (s.src, s.dst):
            if nm not in tys:
                raise ScrapeError("%s: unknown type %r at %s" % (lang, nm, s.site))
        gi = s.extra.get("goif")
        if gi:
            _, gty, cond, a, b = gi
            if gty != "int32":
                raise ScrapeError("go: conditional result declared %s" % gty)
            tree = ("cond", parse_expr("go", cond), ("num", parse_num(a)), ("num", parse_num(b)))
        else:
            tree = parse_expr(lang, s.text)
        term = lower_k(tree, s.var, s.src, lang, s.extra.get("ctx", {"unions": {}}))
        s.coq = [("", "(LK %s %s %s %s)" % (KLANG[lang], tys[s.src], tys[s.dst], term))]
    elif lang == "moonbit":
        for nm in (s.src, s.dst):
            if nm not in MBT_TY:
                raise ScrapeError("moonbit: unknown type %r at %s" % (nm, s.site))
        tree = parse_expr("moonbit", s.text)
        term = lower_mbt(tree, s.var, s.extra["ctx"])
        s.coq = [("", "(LMbt %s %s %s)" % (MBT_TY[s.src], MBT_TY[s.dst], term))]
    else:
        raise ScrapeError("unknown language " + lang)


# ============================================================================================
# variant-slot casts (C04, backend half): rust / c / moonbit
# ============================================================================================
class CastSite:
    def __init__(self, lang, cast, direction, where, text, var, src, dst, extra=None, unmodelled=None):
        self.lang, self.cast, self.dir, self.where = lang, cast, direction, where
        self.text, self.var, self.src, self.dst = text.strip(), var, src, dst
        self.extra = extra or {}
        self.unmodelled = unmodelled
        self.coq = None
        self.error = None

    @property
    def name(self):
        return pretty_cast(self.cast)

    def describe(self):
        return {"lang": self.lang, "cast": self.name, "dir": self.dir, "where": self.where, "text": self.text,
                "var": self.var, "var_type": self.src, "context_type": self.dst}


def variant_layout(cases):
    flats = [flat_of(t) for _, t in cases]
    n = max(len(f) for f in flats)
    joined = []
    for k in range(n):
        j = None
        for f in flats:
            if k < len(f):
                j = f[k] if j is None else join(j, f[k])
        joined.append(j)
    return flats, joined


CLIMB = {
    "rust": {"callee": re.compile(r"((?:::)?[A-Za-z_][\w]*(?:::<[^()]*>)?(?:::[A-Za-z_]\w*(?:::<[^()]*>)?)*)$"),
             "allow": lambda c: c in ("i64::from", "i32::from", "f32::from_bits", "f64::from_bits", "::core::mem::MaybeUninit::new")
             or c.split("::")[-1] in ("as_i32", "as_i64", "as_f32", "as_f64"),
             "method": lambda n: n in ("to_bits", "assume_init", "cast_mut", "cast_const", "__p64_read_ptr")},
    "c": {"callee": re.compile(r"([A-Za-z_]\w*)$"), "allow": lambda c: False, "method": lambda n: False},
    "moonbit": {"callee": re.compile(r"((?:@[\w.]+\.)?[A-Za-z_]\w*(?:::\w+)?)$"),
                "allow": lambda c: "::" in c and c.split("::")[0] in MBT_TY,
                "method": lambda n: n.startswith("reinterpret_as_") or n.startswith("to_")},
}
C_CAST_PREFIX = re.compile(r"\((?:u?int(?:8|16|32|64)_t|uintptr_t|size_t|float|double|bool)\s*\*?\)\s*$")
C_PUN_PREFIX = re.compile(r"\(\(union \w+\)\{\s*$")


def climb(text, start, end, lang):
    """Grow text[start:end] (an operand) to the maximal enclosing chain of unary conversions."""
    cfg = CLIMB[lang]
    while True:
        L, R = text[:start], text[end:]
        Ls, Rs = L.rstrip(), R.lstrip()
        lpos = len(Ls)
        rpos = end + (len(R) - len(Rs))
        if Ls.endswith("(") and Rs.startswith(")"):
            pre = Ls[:-1]
            m = cfg["callee"].search(pre)
            if m and not pre.endswith(")"):
                callee = m.group(1)
                if callee in ("return", "match", "if", "let"):
                    start, end = lpos - 1, rpos + 1
                    continue
                if cfg["allow"](callee):
                    start, end = m.start(1), rpos + 1
                    continue
                break
            start, end = lpos - 1, rpos + 1
            continue
        m = re.match(r"\s*\.(\w+)(::<[^()]*>)?\(\)", R)
        if m and cfg["method"](m.group(1)):
            end += m.end()
            continue
        if lang == "rust":
            m = re.match(r"\s+as\s+(\*mut u8|\*const u8|\w+)", R)
            if m:
                end += m.end()
                continue
        if lang == "c":
            m = C_CAST_PREFIX.search(L)
            if m:
                start = m.start()
                continue
            m = C_PUN_PREFIX.search(L)
            m2 = re.match(r"\s*\}\)\.b", R)
            if m and m2:
                start, end = m.start(), end + m2.end()
                continue
        break
    return start, end


FLAT_RUST = {"I32": "i32", "I64": "i64", "F32": "f32", "F64": "f64", "Pointer": "*mut u8", "Length": "usize",
             "PointerOrI64": "::core::mem::MaybeUninit::<u64>"}
FLAT_C = {"I32": "int32_t", "I64": "int64_t", "F32": "float", "F64": "double", "Pointer": "uint8_t*", "Length": "size_t",
          "PointerOrI64": "int64_t"}
FLAT_MBT = {"I32": "Int", "I64": "Int64", "F32": "Float", "F64": "Double", "Pointer": "Int", "Length": "Int",
            "PointerOrI64": "Int64"}


def last_tuple(text):
    """text of the last top-level parenthesised group in `text` (the arm's result tuple), without the parens."""
    end = text.rstrip().rstrip(",").rstrip()
    if not end.endswith(")"):
        # `{ ...; (tuple) }` blocks end with '}'
        end = end.rstrip("}").rstrip().rstrip(",").rstrip()
    if not end.endswith(")"):
        raise ScrapeError("no result tuple in arm %r" % text[-80:])
    d = 0
    for j in range(len(end) - 1, -1, -1):
        if end[j] == ")":
            d += 1
        elif end[j] == "(":
            d -= 1
            if d == 0:
                return end[j + 1:-1]
    raise ScrapeError("unbalanced tuple")


def split_tuple(s):
    out, depth, cur = [], 0, ""
    for ch in s:
        if ch in "([{":
            depth += 1
        elif ch in ")]}":
            depth -= 1
        if ch == "," and depth == 0:
            out.append(cur); cur = ""
        else:
            cur += ch
    if cur.strip():
        out.append(cur)
    return out


def strip_parens(s):
    s = s.strip()
    while s.startswith("(") and s.endswith(")"):
        d = 0
        ok = True
        for i, ch in enumerate(s):
            if ch == "(":
                d += 1
            elif ch == ")":
                d -= 1
                if d == 0 and i != len(s) - 1:
                    ok = False
                    break
        if not ok:
            break
        s = s[1:-1].strip()
    return s


def one_leaf(text, leaf_res):
    """the unique operand occurrence in text: (start, end, kind, match)"""
    found = []
    for kind, rx in leaf_res:
        for m in re.finditer(rx, text):
            found.append((m.start(), m.end(), kind, m))
    # drop leaves nested in another leaf's span
    found = [f for f in found if not any(g is not f and g[0] <= f[0] and f[1] <= g[1] and (g[1] - g[0]) > (f[1] - f[0]) for g in found)]
    if len(found) != 1:
        return None
    return found[0]


RUST_P64_WRITE = re.compile(r"\{\s*let mut t = ::core::mem::MaybeUninit::<u64>::uninit\(\);\s*t\.as_mut_ptr\(\)\.cast::<\*mut u8>\(\)\.write\((.*?)\);\s*t\s*\}", re.S)


def scrape_casts_rust(files):
    src = files["w.rs"]
    ctx = RustCtx(src)
    out = []
    for vname, cases in CAST_VARIANTS:
        flats, joined = variant_layout(cases)
        V = vname.upper()
        # ---------------- lowering: import wrapper
        m = need(re.search(r"pub fn h_%s\(x: &?%s,\) -> \(\)\{" % (vname, V), src), "rust import wrapper h_%s" % vname)
        body = balanced(src, m.end() - 1)
        mm = need(re.search(r"= match x \{", body), "rust lowering match of h_%s" % vname)
        arms = balanced(body, mm.end() - 1)
        for ci, (cname, cty) in enumerate(cases):
            am = need(re.search(r"%s::%s\(e\) => " % (V, cname.upper()), arms), "rust arm %s::%s" % (V, cname))
            rest = arms[am.end():]
            nxt = re.search(r"\n\s*%s::\w+\(e\) => " % V, rest)
            arm = rest[:nxt.start()] if nxt else rest
            slots = split_tuple(last_tuple(arm))
            if len(slots) != len(joined) + 1:
                raise ScrapeError("rust h_%s arm %s: %d slots, expected %d" % (vname, cname, len(slots), len(joined) + 1))
            elem_tys = split_top(cty[6:-1]) if cty.startswith("tuple<") else [cty]
            for k, frm in enumerate(flats[ci]):
                text = slots[k + 1].strip()
                cast = cast_name(frm, joined[k])
                where = "%s.%s slot %d lower (import h-%s)" % (vname, cname, k, vname)
                pw = RUST_P64_WRITE.fullmatch(text)
                if pw:
                    out.append(CastSite("rust", cast, "lower", where, text, "ptr", "*mut u8", FLAT_RUST[joined[k]], {"ctx": ctx},
                                        unmodelled="pointer written into the first 4 bytes of an uninitialised MaybeUninit<u64>: the upper 32 bits of the i64 are undefined (spec: zero-extension); a lifting host wraps to i32, so harmless"))
                    continue
                leaf = one_leaf(text, [("e", r"\be\b"), ("t", r"\bt\d+_(\d+)\b"), ("ptr", r"\bptr\d+\b"), ("len", r"\blen\d+\b")])
                if leaf is None:
                    raise ScrapeError("rust %s: no unique operand in %r" % (where, text))
                s0, e0, kind, lm = leaf
                s1, e1 = climb(text, s0, e0, "rust")
                if strip_parens(text[s1:e1]) != strip_parens(text):
                    raise ScrapeError("rust %s: slot expression %r is not a chain of unary conversions" % (where, text))
                var = lm.group(0)
                if kind in ("e", "t"):
                    wty = elem_tys[int(lm.group(1))] if kind == "t" else cty
                    lty = {"s32": "i32", "s64": "i64", "f32": "f32", "f64": "f64"}.get(wty.strip())
                    if lty is None:
                        raise ScrapeError("rust %s: operand of WIT type %s" % (where, wty))
                else:
                    lty = {"ptr": "*const u8", "len": "usize"}[kind]
                out.append(CastSite("rust", cast, "lower", where, text, var, lty, FLAT_RUST[joined[k]], {"ctx": ctx}))
        # ---------------- lifting: export wrapper
        m = need(re.search(r"pub unsafe fn _export_e_%s_cabi<T_: Guest>\(([^)]*)\)" % vname, src), "rust export wrapper e_%s" % vname)
        params = [p.strip() for p in split_tuple(m.group(1)) if p.strip()]
        ptys = [p.split(":", 1)[1].strip() for p in params]
        i0 = src.index("{", m.end())
        body = balanced(src, i0)
        mm = need(re.search(r"= match arg0 \{", body), "rust lifting match of e_%s" % vname)
        arms = balanced(body, mm.end() - 1).replace(".as_ptr().cast::<*mut u8>().read()", ".__p64_read_ptr()")
        heads = list(re.finditer(r"(?m)^\s*(\d+|n) => \{", arms))
        if len(heads) != len(cases):
            raise ScrapeError("rust e_%s: %d arms for %d cases" % (vname, len(heads), len(cases)))
        for ci, (cname, cty) in enumerate(cases):
            arm = balanced(arms, heads[ci].end() - 1)
            for k, to in enumerate(flats[ci]):
                cast = cast_name(joined[k], to)
                where = "%s.%s slot %d lift (export e-%s)" % (vname, cname, k, vname)
                var = "arg%d" % (k + 1)
                occ = list(re.finditer(r"\b%s\b" % var, arm))
                if not occ:
                    raise ScrapeError("rust %s: %s does not occur" % (where, var))
                s1, e1 = climb(arm, occ[0].start(), occ[0].end(), "rust")
                out.append(CastSite("rust", cast, "lift", where, arm[s1:e1], var, ptys[k + 1], FLAT_RUST[to], {"ctx": ctx}))
    return out


def scrape_casts_c(files):
    c = files["w.c"]
    ctx = {"unions": c_unions(c)}
    out = []
    cwit = {"s32": "int32_t", "s64": "int64_t", "f32": "float", "f64": "double"}
    for vname, cases in CAST_VARIANTS:
        flats, joined = variant_layout(cases)
        # ---------------- lowering
        m = need(re.search(r"\nvoid w_h_%s\(w_%s_t \*x\) \{" % (vname, vname), c), "c import wrapper h_%s" % vname)
        body = balanced(c, m.end() - 1)
        decls = re.findall(r"(?m)^  ([\w ]+?\*?) ?(variant\d*);", body)
        if len(decls) != len(joined) + 1:
            raise ScrapeError("c h_%s: %d slot locals, expected %d" % (vname, len(decls), len(joined) + 1))
        for ci, (cname, cty) in enumerate(cases):
            am = need(re.search(r"case %d: \{" % ci, body), "c case %d of h_%s" % (ci, vname))
            arm = balanced(body, am.end() - 1)
            pm = need(re.search(r"const ([\w ]+?) ?\*(payload\d*) =", arm), "c payload decl in case %d of h_%s" % (ci, vname))
            elem_tys = split_top(cty[6:-1]) if cty.startswith("tuple<") else [cty]
            for k, frm in enumerate(flats[ci]):
                dty, dname = decls[k + 1]
                am2 = need(re.search(r"(?m)^\s*%s = (.*);$" % dname, arm), "c assignment of %s in case %d of h_%s" % (dname, ci, vname))
                text = am2.group(1)
                cast = cast_name(frm, joined[k])
                where = "%s.%s slot %d lower (import h-%s)" % (vname, cname, k, vname)
                leaf = one_leaf(text, [("m", r"\(\(\*%s\)\.\w+\)\.\w+" % pm.group(2)), ("m", r"\(\*%s\)(?:\.\w+)+" % pm.group(2)),
                                       ("d", r"\*%s\b" % pm.group(2))])
                if leaf is None:
                    raise ScrapeError("c %s: no unique operand in %r" % (where, text))
                s0, e0, kind, lm = leaf
                s1, e1 = climb(text, s0, e0, "c")
                if strip_parens(text[s1:e1]) != strip_parens(text):
                    raise ScrapeError("c %s: slot expression %r is not a chain of unary conversions" % (where, text))
                if kind == "d":
                    lty = pm.group(1).strip()
                else:
                    last = lm.group(0).split(".")[-1].rstrip(")")
                    if last == "ptr":
                        lty = "uint8_t*"
                    elif last == "len":
                        lty = "size_t"
                    elif re.fullmatch(r"f\d+", last):
                        lty = cwit.get(elem_tys[int(last[1:])].strip())
                    else:
                        lty = None
                    if lty is None:
                        raise ScrapeError("c %s: cannot type operand %r" % (where, lm.group(0)))
                newtext = text[:s0] + "opnd" + text[e0:]
                out.append(CastSite("c", cast, "lower", where, newtext, "opnd", lty, dty.replace(" ", ""), {"ctx": ctx, "orig": text}))
        # ---------------- lifting
        m = need(re.search(r"\nvoid __wasm_export_exports_w_e_%s\(([^)]*)\) \{" % vname, c), "c export wrapper e_%s" % vname)
        params = [p.strip() for p in m.group(1).split(",")]
        ptys = [p.rsplit(" ", 1)[0].replace(" ", "") for p in params]
        pnames = [p.rsplit(" ", 1)[1] for p in params]
        body = balanced(c, m.end() - 1)
        for ci, (cname, cty) in enumerate(cases):
            am = need(re.search(r"case %d: \{" % ci, body), "c case %d of e_%s" % (ci, vname))
            arm = balanced(body, am.end() - 1)
            for k, to in enumerate(flats[ci]):
                cast = cast_name(joined[k], to)
                where = "%s.%s slot %d lift (export e-%s)" % (vname, cname, k, vname)
                var = pnames[k + 1]
                occ = list(re.finditer(r"\b%s\b" % var, arm))
                if not occ:
                    raise ScrapeError("c %s: %s does not occur" % (where, var))
                s1, e1 = climb(arm, occ[0].start(), occ[0].end(), "c")
                out.append(CastSite("c", cast, "lift", where, arm[s1:e1], var, ptys[k + 1], FLAT_C[to], {"ctx": ctx}))
    return out


def scrape_casts_moonbit(files):
    imp = files["world/w/import.mbt"]
    exp = files["gen/world/w/ffi.mbt"]
    ctx = {"wasm_helpers": mbt_wasm_helpers(files)}
    mwit = {"s32": "Int", "s64": "Int64", "f32": "Float", "f64": "Double"}
    out = []
    for vname, cases in CAST_VARIANTS:
        flats, joined = variant_layout(cases)
        m = need(re.search(r"pub fn h_%s\(x : \w+\) -> Unit \{" % vname, imp), "moonbit import wrapper h_%s" % vname)
        body = balanced(imp, m.end() - 1)
        mm = need(re.search(r"= match x \{", body), "moonbit lowering match of h_%s" % vname)
        arms = balanced(body, mm.end() - 1)
        heads = list(re.finditer(r"(?m)^\s*(\w+)\((payload\d*)\) => \{", arms))
        if len(heads) != len(cases):
            raise ScrapeError("moonbit h_%s: %d arms for %d cases" % (vname, len(heads), len(cases)))
        for ci, (cname, cty) in enumerate(cases):
            arm = balanced(arms, heads[ci].end() - 1)
            pv = heads[ci].group(2)
            slots = split_tuple(last_tuple(arm))
            if len(slots) != len(joined) + 1:
                raise ScrapeError("moonbit h_%s arm %s: %d slots" % (vname, cname, len(slots)))
            elem_tys = split_top(cty[6:-1]) if cty.startswith("tuple<") else [cty]
            for k, frm in enumerate(flats[ci]):
                text = slots[k + 1].strip()
                cast = cast_name(frm, joined[k])
                where = "%s.%s slot %d lower (import h-%s)" % (vname, cname, k, vname)
                leaf = one_leaf(text, [("len", r"\(%s\)\.\d+\.length\(\)" % pv), ("proj", r"\(%s\)\.(\d+)" % pv),
                                       ("len", r"\b%s\.length\(\)" % pv), ("ptr", r"\bptr\d*\b"),
                                       ("p", r"\b%s\b" % pv)])
                if leaf is None:
                    raise ScrapeError("moonbit %s: no unique operand in %r" % (where, text))
                s0, e0, kind, lm = leaf
                s1, e1 = climb(text, s0, e0, "moonbit")
                if strip_parens(text[s1:e1]) != strip_parens(text):
                    raise ScrapeError("moonbit %s: slot expression %r is not a chain of unary conversions" % (where, text))
                if kind == "proj":
                    lty = mwit.get(elem_tys[int(lm.group(1))].strip())
                elif kind == "p":
                    lty = mwit.get(cty.strip())
                else:
                    lty = "Int"
                if lty is None:
                    raise ScrapeError("moonbit %s: cannot type operand" % where)
                newtext = text[:s0] + "opnd" + text[e0:]
                out.append(CastSite("moonbit", cast, "lower", where, newtext, "opnd", lty, FLAT_MBT[joined[k]], {"ctx": ctx, "orig": text}))
        m = need(re.search(r"pub fn wasmExportE%s\(([^)]*)\) -> Unit \{" % camel(vname), exp), "moonbit export wrapper E%s" % camel(vname))
        params = [p.strip() for p in m.group(1).split(",")]
        ptys = [p.split(":")[1].strip() for p in params]
        body = balanced(exp, m.end() - 1)
        mm = need(re.search(r"= match \(p0\) \{", body), "moonbit lifting match of e_%s" % vname)
        arms = balanced(body, mm.end() - 1)
        heads = list(re.finditer(r"(?m)^\s*(\d+) => \{", arms))
        if len(heads) != len(cases):
            raise ScrapeError("moonbit e_%s: %d arms for %d cases" % (vname, len(heads), len(cases)))
        for ci, (cname, cty) in enumerate(cases):
            arm = balanced(arms, heads[ci].end() - 1)
            for k, to in enumerate(flats[ci]):
                cast = cast_name(joined[k], to)
                where = "%s.%s slot %d lift (export e-%s)" % (vname, cname, k, vname)
                var = "p%d" % (k + 1)
                occ = list(re.finditer(r"\b%s\b" % var, arm))
                if not occ:
                    raise ScrapeError("moonbit %s: %s does not occur" % (where, var))
                s1, e1 = climb(arm, occ[0].start(), occ[0].end(), "moonbit")
                out.append(CastSite("moonbit", cast, "lift", where, arm[s1:e1], var, ptys[k + 1], FLAT_MBT[to], {"ctx": ctx}))
    return out


CAST_SCRAPERS = {"rust": scrape_casts_rust, "c": scrape_casts_c, "moonbit": scrape_casts_moonbit}
CAST_LANGS = ["rust", "c", "moonbit"]


def translate_cast(s):
    if s.unmodelled:
        return
    lang = s.lang
    if lang == "rust":
        for nm in (s.src, s.dst):
            if nm not in RUST_TY:
                raise ScrapeError("rust: unknown type %r (%s)" % (nm, s.where))
        text = s.text.replace(".as_ptr().cast::<*mut u8>().read()", ".__p64_read_ptr()")
        tree = parse_expr("rust", text)
        term = lower_rust(tree, s.var, s.src, s.extra["ctx"])
        s.coq = "(LRust false %s %s %s)" % (RUST_TY[s.src], RUST_TY[s.dst], term)
    elif lang == "c":
        for nm in (s.src, s.dst):
            if nm not in C_TY:
                raise ScrapeError("c: unknown type %r (%s)" % (nm, s.where))
        tree = parse_expr("c", s.text)
        term = lower_k(tree, s.var, s.src, "c", s.extra["ctx"])
        s.coq = "(LK KC %s %s %s)" % (C_TY[s.src], C_TY[s.dst], term)
    elif lang == "moonbit":
        tree = parse_expr("moonbit", s.text)
        term = lower_mbt(tree, s.var, s.extra["ctx"])
        s.coq = "(LMbt %s %s %s)" % (MBT_TY[s.src], MBT_TY[s.dst], term)


# ============================================================================================
# Python mirror of ScalarSpec (used for the native search leg; cross-checked against Coq each run)
# ============================================================================================
WIT_RANGE = {"bool": (0, 2), "u8": (0, 1 << 8), "s8": (-(1 << 7), 1 << 7), "u16": (0, 1 << 16), "s16": (-(1 << 15), 1 << 15),
             "u32": (0, 1 << 32), "s32": (-(1 << 31), 1 << 31), "u64": (0, 1 << 64), "s64": (-(1 << 63), 1 << 63),
             "f32": (0, 1 << 32), "f64": (0, 1 << 64), "char": (0, 1 << 21)}


def core_bits(t):
    return 64 if t in ("u64", "s64", "f64") else 32


def is_scalar_value(v):
    return 0 <= v < 0x110000 and not (0xD800 <= v <= 0xDFFF)


def wit_value(t, v):
    lo, hi = WIT_RANGE[t]
    return lo <= v < hi and (t != "char" or is_scalar_value(v))


def spec_lower(t, v):
    if t in ("s8", "s16", "s32"):
        return v + (1 << 32) if v < 0 else v
    if t == "s64":
        return v + (1 << 64) if v < 0 else v
    return v


def spec_lift(t, i):
    """i: unsigned core value; returns WIT value or None (trap)"""
    if t == "bool":
        return 0 if i == 0 else 1
    if t in ("u8", "u16", "u32", "u64"):
        return i % (1 << int(t[1:]))
    if t in ("s8", "s16", "s32", "s64"):
        w = int(t[1:])
        i %= (1 << w)
        return i - (1 << w) if i >= (1 << (w - 1)) else i
    if t in ("f32", "f64"):
        return i
    if t == "char":
        return None if (i >= 0x110000 or 0xD800 <= i <= 0xDFFF) else i
    raise ValueError(t)


CTY_RANGE = {"I8": (-(1 << 7), 1 << 7), "U8": (0, 1 << 8), "I16": (-(1 << 15), 1 << 15), "U16": (0, 1 << 16),
             "I32": (-(1 << 31), 1 << 31), "U32": (0, 1 << 32), "I64": (-(1 << 63), 1 << 63), "U64": (0, 1 << 64),
             "TBool": (0, 2), "TF32": (0, 1 << 32), "TF64": (0, 1 << 64), "TChar": (0, 1 << 32), "TUsize": (0, 1 << 32),
             "TPtr": (0, 1 << 32), "TP64": (0, 1 << 64)}
RTY_CTY = {"Ri8": "I8", "Ru8": "U8", "Ri16": "I16", "Ru16": "U16", "Ri32": "I32", "Ru32": "U32", "Ri64": "I64", "Ru64": "U64",
           "Rbool": "TBool", "Rf32": "TF32", "Rf64": "TF64", "Rchar": "TChar", "Rusize": "TUsize", "Rptr": "TPtr", "Rmu64": "TP64"}
MTY_CTY = {"MInt": "I32", "MUInt": "U32", "MInt64": "I64", "MUInt64": "U64", "MByte": "U8", "MBool": "TBool", "MChar": "TChar",
           "MFloat": "TF32", "MDouble": "TF64"}


def site_src_cty(s):
    if s.lang == "rust":
        return RTY_CTY[RUST_TY[s.src]]
    if s.lang == "moonbit":
        return MTY_CTY[MBT_TY[s.src]]
    return KTYPES[s.lang][s.src]


def boundary_inputs():
    xs = {0, 1, 2, -1, -2, 3, 127, 128, 129, 255, 256, 257, 0x100, 0x1FF, 0xD7FF, 0xD800, 0xDFFF, 0xE000, 0xFFFF, 0x10000,
          0x10001, 0x10FFFF, 0x110000, 0x1FFFFF, 0x200000, 0x7FFFFFFF, 0x80000000, 0xFFFFFFFF, 0x100000000, 0x100000001,
          0x7FC00001, 0xFFC00001, 0x7FF8000000000001, 0x7F800001, 0x80000100, 0xFFFFFF00, 0xFFFF0000, 0x1FFFFFFFF}
    for k in (1, 7, 8, 15, 16, 20, 21, 31, 32, 33, 63, 64):
        p = 1 << k
        for d in (-1, 0, 1):
            xs.add(p + d); xs.add(-p + d)
    return sorted(xs, key=lambda v: (abs(v), v < 0))      # small magnitudes first: minimal witnesses


def random_inputs(rng, n):
    out = []
    for _ in range(n):
        k = rng.choice([1, 8, 9, 16, 17, 21, 32, 32, 33, 64, 64])
        v = rng.next() & ((1 << k) - 1)
        if rng.chance(1, 3):
            v = -v
        if rng.chance(1, 6):        # values with a random low byte/half and all higher bits set or clear
            v = (rng.next() & 0xFFFF) | (0xFFFF0000 if rng.chance(1, 2) else 0)
        out.append(v)
    return out


# ============================================================================================
# Coq emission
# ============================================================================================
GEN_HEADER = """(** GENERATED by lib/scalar.py from the text the wit-bindgen generators emit NOW — DO NOT EDIT.
    Regenerated (and rebuilt when it changed) by every run of ./check C14 and of the C04 backend leg. *)
From Coq Require Import ZArith List String.
From WB Require Import Scalar.Expr Scalar.ScalarSpec Scalar.Normalize.
Import ListNotations.
"""


def coq_str(s):
    return '"' + s.replace('"', '""') + '"'


def comment_safe(s):
    return s.replace("(*", "( *").replace("*)", "* )").replace("\n", " ")


def emit_generated(sites, casts):
    out = [GEN_HEADER]
    names = []
    for s in sites:
        for suf, term in s.coq:
            nm = s.ident(suf)
            names.append(nm)
            out.append("(* %s %s %s:  %s   [%s : %s -> %s] *)" % (s.key, s.site, "debug" if suf else "", comment_safe(s.text), s.var, s.src, s.dst))
            out.append("Definition %s : conv := mk_conv %s %s %s %s\n  %s.\n" % (
                nm, COQ_LANG[s.lang], "Lower" if s.dir == "lower" else "Lift", COQ_STY[s.ty],
                coq_str(s.site + ("/debug" if suf else "")), term))
    out.append("Definition all_conversions : list conv :=\n  [ %s ].\n" % ";\n    ".join(names))
    cnames = []
    for i, k in enumerate(casts):
        if k.coq is None:
            continue
        nm = "cast_%s_%d" % (k.lang, i)
        k.ident = nm
        cnames.append(nm)
        out.append("(* %s %s %s:  %s   [%s : %s -> %s] *)" % (k.lang, k.name, k.where, comment_safe(k.text), k.var, k.src, k.dst))
        out.append("Definition %s : castsite := mk_cast %s %s %s\n  %s.\n" % (nm, COQ_LANG[k.lang], k.cast, coq_str(k.where), k.coq))
    out.append("Definition all_casts : list castsite :=\n  [ %s ].\n" % ";\n    ".join(cnames))
    return "\n".join(out)


def write_if_changed(path, text):
    if os.path.exists(path) and open(path).read() == text:
        return False
    tmp = path + ".tmp%d" % os.getpid()
    open(tmp, "w").write(text)
    os.replace(tmp, path)
    return True


# ---------------------------------------------------------------------------- extracted model
def hexz(v):
    return ("-%x" % -v) if v < 0 else ("%x" % v)


def unhex(t):
    return None if t == "N" else int(t, 16)


class Result:
    pass


MIRROR = {"root": None}


def setup_paths():
    """When the check runs against a scratch copy of wit-bindgen (VERIF_REPO=...; mutation testing), work on a
    PRIVATE mirror of the Scalar part of coq/ (build/mirror-<tag>/coq) so that the shared tree's Generated.v is
    never overwritten with another repository's data.  Points vf.COQ at the mirror for this process."""
    if os.path.realpath(vf.REPO) == "/repo" or MIRROR["root"]:
        return MIRROR["root"]
    tag = hashlib.sha256(os.path.realpath(vf.REPO).encode()).hexdigest()[:10]
    root = os.path.join(vf.BUILD, "mirror-" + tag)
    src = os.path.join(vf.ROOT, "coq", "theories")
    dst = os.path.join(root, "coq", "theories")
    for sub in ("Scalar", "Props", "Extract"):
        os.makedirs(os.path.join(dst, sub), exist_ok=True)
    os.makedirs(os.path.join(root, "extracted"), exist_ok=True)
    import shutil
    for f in os.listdir(os.path.join(src, "Scalar")):
        if f.endswith(".v") and not f.startswith("Generated"):
            a, b = os.path.join(src, "Scalar", f), os.path.join(dst, "Scalar", f)
            if not os.path.exists(b) or open(a).read() != open(b).read():
                shutil.copy(a, b)
    a, b = os.path.join(src, "Props", "C14.v"), os.path.join(dst, "Props", "C14.v")
    if not os.path.exists(b) or open(a).read() != open(b).read():
        shutil.copy(a, b)
    ex = open(os.path.join(src, "Extract", "ExScalar.v")).read().replace("../build/extracted/scalar_model.ml", "../extracted/scalar_model.ml")
    write_if_changed(os.path.join(dst, "Extract", "ExScalar.v"), ex)
    vf.COQ = os.path.join(root, "coq")
    MIRROR["root"] = root
    return root


def extracted_dir():
    return os.path.join(MIRROR["root"], "extracted") if MIRROR["root"] else os.path.join(vf.BUILD, "extracted")


def build_driver():
    if not MIRROR["root"]:
        return vf.ocaml_build("scalar_driver", ["scalar_model"], ["util.ml", "scalar_driver.ml"])
    import shutil
    d = os.path.join(MIRROR["root"], "ocaml")
    os.makedirs(d, exist_ok=True)
    for f in ("scalar_model.mli", "scalar_model.ml"):
        shutil.copy(os.path.join(extracted_dir(), f), d)
    for f in ("util.ml", "scalar_driver.ml"):
        shutil.copy(os.path.join(vf.ROOT, "ocaml", f), d)
    rc, out = vf.sh(["ocamlfind", "ocamlopt", "-O3", "-w", "-a", "scalar_model.mli", "scalar_model.ml", "util.ml", "scalar_driver.ml", "-o", "scalar_driver"], cwd=d, timeout=600)
    return rc == 0, os.path.join(d, "scalar_driver"), out


def gather(log=vf.log):
    """Run every generator on the probe worlds, scrape and translate.  Returns (sites, casts, errors, raw)."""
    ok, exe, blog = genlib.build()
    if not ok:
        raise RuntimeError("genlib build failed:\n" + blog[-3000:])
    swit, cwit = scalar_world(), cast_world()
    jobs = [(l, GEN_OPTS.get(l, ""), None, swit) for l in LANGS] + [(l, GEN_OPTS.get(l, ""), None, cwit) for l in CAST_LANGS]
    res = genlib.generate_many(jobs, exe=exe, shards=min(len(jobs), vf.NCPU))
    sites, casts, errors, raw = [], [], [], {}
    for (lang, _, _, wit), r in zip(jobs, res):
        which = "scalar" if wit is swit else "casts"
        if r[0] != "ok":
            errors.append((lang, which, "generator %s: %s" % (r[0], r[1][:500])))
            continue
        raw[(lang, which)] = r[1]
        try:
            if which == "scalar":
                ss = SCRAPERS[lang](r[1])
                for s in ss:
                    try:
                        translate_site(s)
                    except ScrapeError as e:       # this site only: the others are still judged
                        s.coq, s.error = [], str(e)
                        errors.append((lang, which, "site %s %s `%s`: %s" % (s.key, s.site, s.text, e)))
                sites += ss
            else:
                cs = CAST_SCRAPERS[lang](r[1])
                for k in cs:
                    try:
                        translate_cast(k)
                    except ScrapeError as e:
                        k.coq, k.error = None, str(e)
                        k.unmodelled = "not parsed: %s" % e
                        errors.append((lang, which, "cast site %s `%s`: %s" % (k.where, k.text, e)))
                casts += cs
        except ScrapeError as e:
            errors.append((lang, which, "scrape: %s" % e))
    return sites, casts, errors, raw


def regenerate(inputs=None, big_inputs=None, log=vf.log, native=False):
    """The whole translator step (under a lock: C14 and the C04 leg may run at the same time).
    Returns a Result with: sites, casts, errors, verdicts (name -> dict), cast_verdicts, spec_mirror_ok,
    and with native=True the native (rustc/clang) evaluations of the scraped Rust and C text compared with
    the Coq semantics (R.native, R.native_mismatches, R.native_error)."""
    setup_paths()
    with vf.Lock("scalar" + (os.path.basename(MIRROR["root"]) if MIRROR["root"] else "")):
        return _regenerate(inputs, big_inputs, log, native)


def _empty(R, inputs):
    R.verdicts, R.cast_verdicts, R.spec_mirror_ok, R.behaviour, R.spec_mirror_mismatches = {}, {}, False, {}, []
    R.inputs = inputs or []
    R.native, R.native_error, R.native_mismatches, R.native_evaluations = {}, None, [], 0
    R.n_unique_convs = R.n_unique_casts = 0


def _regenerate(inputs, big_inputs, log, native):
    R = Result()
    import time as _t
    t0 = _t.time()
    R.timing = {}
    R.sites, R.casts, R.errors, R.raw = gather(log)
    R.timing["generate+scrape"] = round(_t.time() - t0, 1); t0 = _t.time()
    R.generated_changed = write_if_changed(os.path.join(vf.COQ, "theories", "Scalar", "Generated.v"), emit_generated(R.sites, R.casts))
    sd = os.path.join(vf.COQ, "theories", "Scalar")
    srcs = [os.path.join(sd, f) for f in ("Expr.v", "ScalarSpec.v", "Normalize.v", "NormalizeProofs.v", "Generated.v")] + \
           [os.path.join(vf.COQ, "theories", "Extract", "ExScalar.v")]
    outs = [os.path.join(sd, "Generated.vo"), os.path.join(sd, "NormalizeProofs.vo"), os.path.join(vf.COQ, "theories", "Extract", "ExScalar.vo"),
            os.path.join(extracted_dir(), "scalar_model.ml")]
    if all(os.path.exists(v) for v in outs) and min(os.path.getmtime(v) for v in outs) > max(os.path.getmtime(f) for f in srcs):
        ok, out = True, "up to date"
    else:
        ok, out = vf.coq_make(["theories/Scalar/NormalizeProofs.vo", "theories/Extract/ExScalar.vo"])
    R.generated_builds = ok
    inputs = inputs if inputs is not None else boundary_inputs()
    big = big_inputs if big_inputs is not None else inputs
    if not ok:
        R.errors.append(("*", "coq", "Generated.v / ExScalar.v does not compile:\n" + out[-2000:]))
        _empty(R, inputs)
        write_props(R)
        return R
    ok, exe, olog = build_driver()
    if not ok:
        R.errors.append(("*", "coq", "extracted model does not build:\n" + olog[-2000:]))
        _empty(R, inputs)
        write_props(R)
        return R
    R.inputs = inputs
    R.timing["coq+ocaml build"] = round(_t.time() - t0, 1); t0 = _t.time()
    R.native, R.native_error, R.native_mismatches, R.native_evaluations = {}, None, [], 0
    if native:
        try:
            if ("rust", "scalar") in R.raw:
                R.native.update(native_rust(R.sites, inputs, R.raw[("rust", "scalar")]["w.rs"]))
            if ("c", "scalar") in R.raw:
                R.native.update(native_c(R.sites, inputs, R.raw[("c", "scalar")]["w.c"]))
        except RuntimeError as e:
            R.native_error = str(e)
    R.timing["native rustc/clang"] = round(_t.time() - t0, 1); t0 = _t.time()
    names = [(s, suf) for s in R.sites for suf, _ in s.coq]
    idx = {s.ident(suf): i for i, (s, suf) in enumerate(names)}           # order of all_conversions
    modelled = [k for k in R.casts if k.coq is not None]
    cidx = {k.ident: i for i, k in enumerate(modelled)}                  # order of all_casts
    # identical (language, direction, type, expression) records (the import and the export site usually emit
    # the same template) are evaluated once
    rep, rep_of = {}, {}
    for s, suf in names:
        k = (s.lang, s.dir, s.ty, dict(s.coq)[suf])
        rep.setdefault(k, s.ident(suf))
        rep_of[s.ident(suf)] = rep[k]
    ureps = sorted(set(rep_of.values()), key=lambda n: idx[n])
    crep, crep_of = {}, {}
    for k in modelled:
        kk = (k.lang, k.cast, k.coq)
        crep.setdefault(kk, k.ident)
        crep_of[k.ident] = crep[kk]
    cureps = sorted(set(crep_of.values()), key=lambda n: cidx[n])
    R.n_unique_convs, R.n_unique_casts = len(ureps), len(cureps)
    bigs = " ".join(hexz(x) for x in big)
    cmds, tags = ["count"], [("count",)]

    def add(cmd, *tag):
        cmds.append(cmd); tags.append(tag)
    for nm in ureps:
        i = idx[nm]
        add("chk c %d" % i, "chk", nm); add("elab c %d" % i, "elab", nm); add("b01 %d" % i, "b01", nm)
        add("bad c %d 0 1" % i, "bad01", nm)
        add("bad c %d %s" % (i, bigs), "bad", nm)
    for nm in cureps:
        i = cidx[nm]
        add("chk k %d" % i, "cchk", nm); add("elab k %d" % i, "celab", nm)
        add("bad k %d %s" % (i, bigs), "cbad", nm)
        add("ev k %d -1 80000000 ffffffff 7fffffff" % i, "cprobe", nm)
    all_idents = set(idx)
    nat_lists = []
    for ident, modes in sorted(R.native.items()):
        for mode, vals in sorted(modes.items()):
            nm = ident + "_dbg" if (mode == "debug" and ident + "_dbg" in all_idents) else ident
            if nm not in idx:
                continue          # site outside the modelled fragment: judged on the native results only
            nat_lists.append((nm, mode, vals))
            add("ev c %d %s" % (idx[nm], " ".join(hexz(x) for x, _ in vals)), "nat", len(nat_lists) - 1)
    beh_names = [s.ident(suf) for s, suf in names if s.dir == "lift" and s.ty in ("bool", "char") and s.site == "export-param"]
    for nm in beh_names:
        add("ev c %d 2 100 d800 110000" % idx[nm], "beh", nm)
    mir = [x for x in inputs]
    for ti, t in enumerate(SCALARS):
        lo = [x for x in mir if wit_value(t, x)]
        li = [x for x in mir if 0 <= x < (1 << core_bits(t))]
        add("lower %d %s" % (ti, " ".join(hexz(x) for x in lo)), "mlower", t, lo)
        add("lift %d %s" % (ti, " ".join(hexz(x) for x in li)), "mlift", t, li)
    outl = vf.run_filter([exe], cmds, shards=min(vf.NCPU, max(1, len(cmds) // 40)), timeout=3000)
    if outl[0].split() != [str(len(names)), str(len(modelled))]:
        raise RuntimeError("extracted model is stale: it has %s conversions/casts, Generated.v has %d/%d" % (outl[0], len(names), len(modelled)))
    A = {}
    mism = []
    probes, behs = {}, {}
    for tag, o in zip(tags, outl):
        if o.startswith("MODEL-EXN") or o == "?":
            raise RuntimeError("scalar_driver: %s -> %s" % (tag, o))
        k = tag[0]
        if k in ("chk", "elab", "b01", "cchk", "celab"):
            A[(k, tag[1])] = (o == "1")
        elif k in ("bad", "cbad", "bad01"):
            A[(k, tag[1])] = None if o == "-" else int(o, 16)
        elif k == "cprobe":
            probes[tag[1]] = [unhex(t) for t in o.split()]
        elif k == "beh":
            behs[tag[1]] = [unhex(t) for t in o.split()]
        elif k == "nat":
            nm, mode, vals = nat_lists[tag[1]]
            model = [unhex(t) for t in o.split()]
            R.native_evaluations += len(vals)
            bad = [(x, r, m) for (x, r), m in zip(vals, model) if (m is None) != (r == "P") or (m is not None and m != r)]
            if bad:
                x, r, m = bad[0]
                R.native_mismatches.append({"site": nm, "mode": mode, "input": x, "native": "panic" if r == "P" else r,
                                            "model": "None (trap)" if m is None else m, "count": len(bad)})
        elif k == "mlower":
            for x, t_ in zip(tag[2], o.split()):
                if int(t_, 16) != spec_lower(tag[1], x):
                    mism.append(("lower", tag[1], x, "coq %s" % t_, "python %s" % spec_lower(tag[1], x)))
        elif k == "mlift":
            for x, t_ in zip(tag[2], o.split()):
                if unhex(t_) != spec_lift(tag[1], x):
                    mism.append(("lift", tag[1], x, "coq %s" % t_, "python %s" % spec_lift(tag[1], x)))
    # what the emitted expression gives at each witness
    wcmds, wtags = [], []
    for nm in ureps:
        for which in ("bad", "bad01"):
            if A[(which, nm)] is not None:
                wcmds.append("ev c %d %s" % (idx[nm], hexz(A[(which, nm)]))); wtags.append((which, nm))
    wout = vf.run_filter([exe], wcmds, shards=1) if wcmds else []
    W = {t: ("trap/panic/undefined" if o == "N" else int(o, 16)) for t, o in zip(wtags, wout)}
    R.verdicts = {}
    for s, suf in names:
        nm = s.ident(suf)
        r = rep_of[nm]
        R.verdicts[nm] = {"site": s, "suffix": suf, "check": A[("chk", r)], "elab": A[("elab", r)], "bad": A[("bad", r)],
                          "bool01": A[("b01", r)], "bad01": A[("bad01", r)],
                          "bad_value": W.get(("bad", r)), "bad01_value": W.get(("bad01", r))}
    R.behaviour = {}
    for nm, vals in behs.items():
        st = R.verdicts[nm]["site"]
        allv = dict(zip([2, 256, 55296, 1114112], vals))
        R.behaviour[nm] = {("0x%x" % p): ("trap/panic/undefined" if allv[p] is None else allv[p])
                           for p in ([2, 256] if st.ty == "bool" else [55296, 1114112])}
    R.cast_verdicts = {}
    for k in modelled:
        r = crep_of[k.ident]
        R.cast_verdicts[k.ident] = {"site": k, "check": A[("cchk", r)], "elab": A[("celab", r)], "bad": A[("cbad", r)],
                                    "probe": [NONE if v is None else v for v in probes[r]]}
    R.spec_mirror_ok = not mism
    R.spec_mirror_mismatches = mism[:5]
    R.timing["model evaluation"] = round(_t.time() - t0, 1)
    write_props(R)
    return R


NONE = 1 << 80

PROPS_HEADER = """(** GENERATED by lib/scalar.py — DO NOT EDIT.  One theorem per conversion site scraped from the
    generators' current output (Generated.v).  The stable, hand-written statements are in
    Props/C14.v; this file only instantiates them site by site:
      C14_<site>             : conv_ok <site>                       (normaliser accepts: ALL inputs)
      C14_<site>_exhaustive  : every WIT value of a narrow (8/16-bit, bool) type, by enumeration
      C14_<site>_refuted     : ~ conv_ok <site>, with the concrete witness
      C14_<site>_bool01      : the weaker statement (inputs 0 and 1) for a refuted bool lift
      C04b_<cast site>       : cast_ok / ~ cast_ok *)
From Coq Require Import ZArith List String Bool.
From WB Require Import Scalar.Expr Scalar.ScalarSpec Scalar.Normalize Scalar.NormalizeProofs Scalar.Generated.
Import ListNotations.
Open Scope Z_scope.
"""


def write_props(R):
    out = [PROPS_HEADER]
    n_ok = n_ref = n_exh = 0
    seen_exh = set()
    for nm, v in R.verdicts.items():
        s = v["site"]
        if v["check"]:
            out.append("Theorem C14_%s : conv_ok %s.\nProof. apply check_conv_sound. vm_compute. reflexivity. Qed." % (nm, nm))
            n_ok += 1
        elif v["bad"] is not None:
            out.append("Theorem C14_%s_refuted : ~ conv_ok %s.\nProof. apply (disagreement_refutes %s %s). vm_compute. reflexivity. Qed."
                       % (nm, nm, nm, zlit(v["bad"])))
            n_ref += 1
            if v["bool01"]:
                out.append("Theorem C14_%s_bool01 : bool01_ok %s = true.\nProof. vm_compute. reflexivity. Qed." % (nm, nm))
        if s.dir == "lower" and s.ty in ("bool", "u8", "s8", "u16", "s16") and v["elab"] and (v["check"] or v["bad"] is None):
            key = (s.lang, s.ty, s.coq[0][1])
            if key not in seen_exh:          # identical expressions at the other site are the same statement
                seen_exh.add(key)
                out.append("Theorem C14_%s_exhaustive : exhaustive_lower %s = true.\nProof. vm_cast_no_check (eq_refl true). Qed." % (nm, nm))
                n_exh += 1
    for nm, v in R.cast_verdicts.items():
        if v["check"]:
            out.append("Theorem C04b_%s : cast_ok %s.\nProof. apply check_cast_sound. vm_compute. reflexivity. Qed." % (nm, nm))
        elif v["bad"] is not None:
            out.append("Theorem C04b_%s_refuted : ~ cast_ok %s.\nProof. apply (cast_disagreement_refutes %s %s). vm_compute. reflexivity. Qed."
                       % (nm, nm, nm, zlit(v["bad"])))
    R.n_theorems = {"conv_ok": n_ok, "refuted": n_ref, "exhaustive": n_exh}
    R.props_changed = write_if_changed(os.path.join(vf.COQ, "theories", "Scalar", "GeneratedProps.v"), "\n\n".join(out) + "\n")


# ============================================================================================
# native evaluation of the scraped text (rustc, clang): model validation + search on the real text
# ============================================================================================
def in_cty(cty, v):
    lo, hi = CTY_RANGE[cty]
    return lo <= v < hi


EXHAUSTIVE_NATIVE = {"on": False}


def site_inputs(s, inputs):
    """inputs a site can be run on natively: values of the variable's type (chars: scalar values only).
    With EXHAUSTIVE_NATIVE (thorough tier) a lowering from a narrow type gets its WHOLE domain."""
    cty = site_src_cty(s)
    xs = [v for v in inputs if in_cty(cty, v)]
    if EXHAUSTIVE_NATIVE["on"] and s.dir == "lower" and s.ty in ("bool", "u8", "s8", "u16", "s16"):
        lo, hi = WIT_RANGE[s.ty]
        xs = list(range(lo, hi))
    if (s.lang == "rust" and s.src == "char") or (s.lang == "moonbit" and s.src == "Char"):
        xs = [v for v in xs if is_scalar_value(v)]
    return xs


RUST_ARG = {"bool": "(v != 0)", "char": "char::from_u32(v as u32).unwrap()", "f32": "f32::from_bits(v as u32)", "f64": "f64::from_bits(v as u64)"}
RUST_RES = {"bool": "(r as i128)", "char": "(r as u32 as i128)", "f32": "(r.to_bits() as i128)", "f64": "(r.to_bits() as i128)"}


def native_rust(sites, inputs, rs_text, tag="scalar"):
    """-> {ident: {"release": [(x, value|'P')...], "debug": [...]}}; raises RuntimeError if rustc fails."""
    d = os.path.join(vf.BUILD, "scalar", "native")
    os.makedirs(d, exist_ok=True)
    m = re.search(r"\nmod _rt \{", rs_text)
    rt = "mod _rt {" + balanced(rs_text, m.end() - 1) + "}\n" if m else ""
    fns, arms = [], []
    rsites = [s for s in sites if s.lang == "rust"]
    if not rsites:
        return {}
    for i, s in enumerate(rsites):
        fns.append("unsafe fn f%d(%s: %s) -> %s { %s }" % (i, s.var, s.src, s.dst, s.text))
        arg = RUST_ARG.get(s.src, "(v as %s)" % s.src)
        res = RUST_RES.get(s.dst, "(r as i128)")
        arms.append("%d => { let a = %s; match std::panic::catch_unwind(move || unsafe { f%d(a) }) { Ok(r) => println!(\"{}\", %s), Err(_) => println!(\"P\") } }"
                    % (i, arg, i, res))
    prog = "#![allow(warnings)]\n" + rt + "\n".join(fns) + """
fn main() {
    std::panic::set_hook(Box::new(|_| {}));
    let mut line = String::new();
    while std::io::stdin().read_line(&mut line).unwrap() > 0 {
        { let mut it = line.split_whitespace();
          let i: usize = it.next().unwrap().parse().unwrap();
          let v: i128 = it.next().unwrap().parse().unwrap();
          match i {
""" + "\n".join("            " + a for a in arms) + """
            _ => println!("?"),
          } }
        line.clear();
    }
}
"""
    src = os.path.join(d, "rust_%s.rs" % tag)
    open(src, "w").write(prog)
    out = {}
    for mode, flags in (("release", ["-O", "-C", "debug-assertions=off"]), ("debug", ["-C", "opt-level=0", "-C", "debug-assertions=on"])):
        exe = os.path.join(d, "rust_%s_%s_%s" % (tag, mode, hashlib.sha256(prog.encode()).hexdigest()[:16]))
        if not os.path.exists(exe):      # same program text (= same generator output) -> same binary
            rc, log = vf.sh(["rustc", "--edition", "2021"] + flags + ["-o", exe + ".tmp%d" % os.getpid(), src], cwd=d, timeout=600)
            if rc != 0:
                raise RuntimeError("rustc (%s) failed on the scraped expressions:\n%s" % (mode, log[-3000:]))
            os.replace(exe + ".tmp%d" % os.getpid(), exe)
        lines, index = [], []
        for i, s in enumerate(rsites):
            for x in site_inputs(s, inputs):
                if mode == "release" and "char_lift" in s.text and not is_scalar_value(x % (1 << 32)):
                    continue          # from_u32_unchecked on a non-scalar value is undefined behaviour: not run
                lines.append("%d %d" % (i, x)); index.append((i, x))
        rc, o, e = vf.sh2([exe], input="\n".join(lines) + "\n", timeout=600)
        ol = o.split()
        if rc != 0 or len(ol) != len(lines):
            raise RuntimeError("native rust (%s) run failed rc=%s: %s" % (mode, rc, e[-1000:]))
        for (i, x), r in zip(index, ol):
            out.setdefault(rsites[i].ident(""), {}).setdefault(mode, []).append((x, "P" if r == "P" else int(r)))
    return out


def c_arg_res(ty):
    """(C expression converting `long long v`/`unsigned long long u` to the type, printf of result r)"""
    if ty == "float":
        return ("({ uint32_t b = (uint32_t) u; float f; memcpy(&f, &b, 4); f; })", 'uint32_t b; memcpy(&b, &r, 4); printf("%llu\\n", (unsigned long long) b);')
    if ty == "double":
        return ("({ uint64_t b = (uint64_t) u; double f; memcpy(&f, &b, 8); f; })", 'uint64_t b; memcpy(&b, &r, 8); printf("%llu\\n", (unsigned long long) b);')
    if ty.startswith("u") or ty == "bool":
        return ("(%s) u" % ty, 'printf("%llu\\n", (unsigned long long) r);')
    return ("(%s) v" % ty, 'printf("%lld\\n", (long long) r);')


def native_c(sites, inputs, c_text, tag="scalar"):
    d = os.path.join(vf.BUILD, "scalar", "native")
    os.makedirs(d, exist_ok=True)
    csites = [s for s in sites if s.lang == "c"]
    if not csites:
        return {}
    unions = "\n".join(m.group(0) for m in re.finditer(r"union \w+ \{[^}]*\};", c_text))
    fns, arms = [], []
    for i, s in enumerate(csites):
        fns.append("static %s f%d(%s %s) { return %s; }" % (s.dst, i, s.src, s.var, s.text))
        a, p = c_arg_res(s.src)[0], c_arg_res(s.dst)[1]
        arms.append("case %d: { %s a = %s; %s r = f%d(a); %s break; }" % (i, s.src, a, s.dst, i, p))
    prog = "#include <stdint.h>\n#include <stdbool.h>\n#include <stddef.h>\n#include <stdio.h>\n#include <string.h>\n#include <stdlib.h>\n" + unions + "\n" + "\n".join(fns) + """
int main(void) {
  int i; char buf[64];
  while (scanf("%d %63s", &i, buf) == 2) {
    long long v = strtoll(buf, 0, 10); unsigned long long u = buf[0] == '-' ? (unsigned long long) v : strtoull(buf, 0, 10);
    switch (i) {
""" + "\n".join("    " + a for a in arms) + """
    default: printf("?\\n");
    }
  }
  return 0;
}
"""
    src = os.path.join(d, "c_%s.c" % tag)
    open(src, "w").write(prog)
    exe = os.path.join(d, "c_%s_%s" % (tag, hashlib.sha256(prog.encode()).hexdigest()[:16]))
    if not os.path.exists(exe):
        rc, log = vf.sh(["clang", "-O1", "-w", "-o", exe + ".tmp%d" % os.getpid(), src], cwd=d, timeout=600)
        if rc != 0:
            raise RuntimeError("clang failed on the scraped expressions:\n%s" % log[-3000:])
        os.replace(exe + ".tmp%d" % os.getpid(), exe)
    lines, index = [], []
    for i, s in enumerate(csites):
        for x in site_inputs(s, inputs):
            lines.append("%d %d" % (i, x)); index.append((i, x))
    rc, o, e = vf.sh2([exe], input="\n".join(lines) + "\n", timeout=600)
    ol = o.split()
    if rc != 0 or len(ol) != len(lines):
        raise RuntimeError("native c run failed rc=%s: %s" % (rc, e[-1000:]))
    out = {}
    for (i, x), r in zip(index, ol):
        out.setdefault(csites[i].ident(""), {}).setdefault("native", []).append((x, int(r)))
    return out


def judge(s, x, r):
    """The property's own statement on one native evaluation: s = site, x = input, r = native result
    ('P' = panic/trap).  Returns None if fine, else (expected, actual) description."""
    if s.dir == "lower":
        if not wit_value(s.ty, x):
            return None
        exp = spec_lower(s.ty, x)
        if r == "P":
            return (exp, "panic")
        got = r % (1 << core_bits(s.ty))
        return None if got == exp else (exp, got)
    exp = spec_lift(s.ty, x % (1 << core_bits(s.ty)))
    if exp is None:
        return None
    if r == "P":
        return (exp, "panic")
    return None if r == exp else (exp, r)


# ============================================================================================
# C04, backend half
# ============================================================================================
def bitcast_sem(cast, x):
    """Python mirror of BitcastSpec.sem on an unsigned source value (cast: Coq constructor term)."""
    c = cast.strip()
    if c.startswith("(BSeq "):
        inner = c[6:-1]
        # split the two sub-terms at top level
        depth, parts, cur = 0, [], ""
        for ch in inner:
            if ch == "(":
                depth += 1
            if ch == ")":
                depth -= 1
            if ch == " " and depth == 0 and cur:
                parts.append(cur); cur = ""
            else:
                cur += ch
        parts.append(cur)
        return bitcast_sem(parts[1], bitcast_sem(parts[0], x))
    if c in ("I64ToI32", "I64ToF32", "P64ToP", "I64ToL"):
        return x % (1 << 32)
    return x


def cast_bits(cast):
    """(from_bits, to_bits) of a Coq bitcast term"""
    names = re.findall(r"[A-Z]\w+", cast.replace("BSeq", ""))
    w = {"I32": 32, "F32": 32, "P": 32, "L": 32, "I64": 64, "F64": 64, "P64": 64}

    def ft(n):
        if n == "BNone32":
            return 32, 32
        if n == "BNone64":
            return 64, 64
        a, b = n.split("To")
        return w[a], w[b]
    return ft(names[0])[0], ft(names[-1])[1]


def backend_casts_leg(ctx, R=None):
    """C04 backend half.  Scrapes, for rust / c / moonbit, the text each backend emits for every
    `Bitcast` that the probe world `cast_world()` makes reachable (variants mixing s32/s64/f32/f64/string/
    list/tuple payloads; imports give the lowering direction case->joined, exports the lifting direction
    joined->case), parses them with the Scalar/Expr.v machinery into Scalar/Generated.v (`all_casts`), and
    decides  forall x, eval cast_expr x = BitcastSpec.sem cast x (mod 2^to)  with the verified normaliser
    (`check_cast`, sound by NormalizeProofs.check_cast_sound; per-site theorems C04b_* in
    Scalar/GeneratedProps.v, refutations with a witness for the ones that differ).

    Returns a list of (lang, cast, ok, detail): ok True = every site of that (lang, cast) is proved equal to
    the spec for all inputs; False = refuted, detail names the text, the witness input, expected and actual;
    None = not expressible in the model (detail says why) or not scraped.  Also fills
    ctx.coverage["backend_casts"] and reports a scrape failure through ctx.tie_broken (never silently).
    Note: a False here is a deviation from the LETTER of lower_flat_variant (zero-extension); a lifting host
    wraps i64 to i32, so it is invisible on a round trip — the C04 check decides how to judge it."""
    if R is None:
        R = regenerate()
    rows, cov = [], {"sites": 0, "proved": 0, "refuted": 0, "unmodelled": 0, "by_lang": {}}
    for lang, which, msg in R.errors:
        if which in ("casts", "coq") and ctx is not None:
            ctx.tie_broken("tie", "backend casts (%s): %s" % (lang, msg))
    agg = {}
    for k in R.casts:
        key = (k.lang, k.name)
        a = agg.setdefault(key, {"ok": True, "details": [], "n": 0})
        a["n"] += 1
        cov["sites"] += 1
        if k.coq is None:
            cov["unmodelled"] += 1
            if a["ok"] is True:
                a["ok"] = None
            a["details"].append("unmodelled `%s`: %s" % (" ".join(k.text.split())[:120], k.unmodelled))
            continue
        v = R.cast_verdicts.get(k.ident)
        if v is None:
            a["ok"] = None
            a["details"].append("no verdict (Generated.v did not build)")
            continue
        if v["check"]:
            cov["proved"] += 1
            continue
        fb, tb = cast_bits(k.cast)
        if v["bad"] is not None:
            cov["refuted"] += 1
            a["ok"] = False
            x = v["bad"]
            exp = bitcast_sem(k.cast, x % (1 << fb)) % (1 << tb)
            scty = RTY_CTY[RUST_TY[k.src]] if k.lang == "rust" else C_TY[k.src] if k.lang == "c" else MTY_CTY[MBT_TY[k.src]]
            probes = {p: r for p, r in zip([-1, 2147483648, 4294967295, 2147483647], v["probe"]) if in_cty(scty, p)}
            a["details"].append("`%s` [%s: %s -> %s] at x=%d: spec 0x%x, emitted code gives %s  (%s)" % (
                " ".join(k.text.split())[:120], k.var, k.src, k.dst, x, exp,
                "; ".join("f(%d)=0x%x" % (p, r % (1 << tb)) for p, r in probes.items() if r != NONE),
                "sign-extends where the canonical ABI zero-extends" if fb < tb else "differs"))
        else:
            a["ok"] = None if a["ok"] is not False else False
            a["details"].append("`%s`: normaliser undecided and no disagreeing input found" % " ".join(k.text.split())[:120])
            if ctx is not None:
                ctx.tie_broken("tie", "backend cast %s %s: expression %r neither proved nor refuted" % (k.lang, k.name, k.text))
    for (lang, name), a in sorted(agg.items()):
        det = "%d site(s); " % a["n"] + (" | ".join(sorted(set(a["details"]))[:3]) if a["details"] else "proved equal to BitcastSpec.sem for all inputs")
        rows.append((lang, name, a["ok"], det))
        bl = cov["by_lang"].setdefault(lang, {"proved": [], "refuted": [], "unmodelled": []})
        bl["proved" if a["ok"] is True else "refuted" if a["ok"] is False else "unmodelled"].append(name)
    cov["theorem_file"] = "coq/theories/Scalar/GeneratedProps.v (C04b_*), soundness: NormalizeProofs.check_cast_sound"
    cov["i32_to_i64"] = {l: next((("zero-extends (matches spec)" if ok else "SIGN-extends (spec: zero-extension)") for (ll, n, ok, d) in rows if ll == l and n == "I32ToI64"), "not scraped")
                         for l in CAST_LANGS}
    if ctx is not None:
        ctx.coverage["backend_casts"] = cov
    return rows
