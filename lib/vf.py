"""Shared machinery for /verif/check: process running, Coq/OCaml/cargo builds (always against
/repo's working tree), proof audit (Print Assumptions + hygiene grep), seeded PRNG, evidence and
violation reporting, known-findings handling.  See DESIGN.md sections 2, 4 and 7a."""
import fcntl, hashlib, json, os, re, subprocess, sys, time, shutil, concurrent.futures

ROOT = os.path.dirname(os.path.dirname(os.path.abspath(__file__)))
REPO = os.environ.get("VERIF_REPO", "/repo")
BUILD = os.path.join(ROOT, "build")
COQ = os.path.join(ROOT, "coq")
HARNESS = os.path.join(ROOT, "harness")
HOOK_CFG = "bytecodealliance_wit_bindgen_verif"
NCPU = os.cpu_count() or 4
DEFAULT_SEED = 20260921

STD_AXIOM_ALLOW = {
    # axioms declared by the standard library itself; any that shows up is named in the evidence
    "functional_extensionality_dep", "FunctionalExtensionality.functional_extensionality_dep",
    "Coq.Logic.FunctionalExtensionality.functional_extensionality_dep",
    "proof_irrelevance", "Coq.Logic.ProofIrrelevance.proof_irrelevance",
    "classic", "Coq.Logic.Classical_Prop.classic", "Eqdep.Eq_rect_eq.eq_rect_eq",
    "Coq.Logic.Eqdep.Eq_rect_eq.eq_rect_eq", "JMeq_eq", "Coq.Logic.JMeq.JMeq_eq",
}


def log(*a):
    print(*a, file=sys.stderr, flush=True)


def sh(cmd, timeout=600, cwd=None, env=None, input=None, shell=None):
    """Run under a timeout.  Returns (rc, stdout+stderr text).  rc 124 on timeout."""
    if shell is None:
        shell = isinstance(cmd, str)
    e = dict(os.environ)
    e.update({"CARGO_NET_OFFLINE": "true"})
    if env:
        e.update(env)
    try:
        p = subprocess.run(cmd, shell=shell, cwd=cwd, env=e, input=input, timeout=timeout,
                           stdout=subprocess.PIPE, stderr=subprocess.STDOUT, text=True, errors="replace")
        return p.returncode, p.stdout
    except subprocess.TimeoutExpired as ex:
        out = ex.stdout or ""
        if isinstance(out, bytes):
            out = out.decode(errors="replace")
        return 124, out + "\n[timeout after %ss]" % timeout


def sh2(cmd, timeout=600, cwd=None, env=None, input=None):
    """Like sh but keeps stdout and stderr apart: returns (rc, stdout, stderr)."""
    e = dict(os.environ)
    e.update({"CARGO_NET_OFFLINE": "true"})
    if env:
        e.update(env)
    try:
        p = subprocess.run(cmd, shell=isinstance(cmd, str), cwd=cwd, env=e, input=input, timeout=timeout,
                           stdout=subprocess.PIPE, stderr=subprocess.PIPE, text=True, errors="replace")
        return p.returncode, p.stdout, p.stderr
    except subprocess.TimeoutExpired as ex:
        return 124, "", "[timeout after %ss]" % timeout


class Lock:
    def __init__(self, name):
        os.makedirs(BUILD, exist_ok=True)
        self.path = os.path.join(BUILD, ".lock-" + name)

    def __enter__(self):
        self.f = open(self.path, "w")
        fcntl.flock(self.f, fcntl.LOCK_EX)
        return self

    def __exit__(self, *a):
        fcntl.flock(self.f, fcntl.LOCK_UN)
        self.f.close()


# ------------------------------------------------------------------------------------------ PRNG
class Rng:
    """splitmix64; every random choice of every engine derives from one of these."""
    M = (1 << 64) - 1

    def __init__(self, seed):
        self.s = seed & self.M

    def next(self):
        self.s = (self.s + 0x9E3779B97F4A7C15) & self.M
        z = self.s
        z = ((z ^ (z >> 30)) * 0xBF58476D1CE4E5B9) & self.M
        z = ((z ^ (z >> 27)) * 0x94D049BB133111EB) & self.M
        return z ^ (z >> 31)

    def below(self, n):
        return self.next() % n if n > 0 else 0

    def range(self, lo, hi):  # inclusive
        return lo + self.below(hi - lo + 1)

    def choice(self, xs):
        return xs[self.below(len(xs))]

    def chance(self, num, den):
        return self.below(den) < num

    def fork(self, tag=0):
        return Rng(self.next() ^ (tag * 0x9E3779B97F4A7C15))

    def weighted(self, pairs):
        tot = sum(w for _, w in pairs)
        k = self.below(tot)
        for x, w in pairs:
            if k < w:
                return x
            k -= w
        return pairs[-1][0]


# ------------------------------------------------------------------------------------------ Coq
COQPROJECT_HEADER = """-Q theories WB
-arg -w -arg -notation-overridden,-deprecated-hint-without-locality,-deprecated-instance-without-locality,-ambiguous-paths,-deprecated-syntactic-definition
"""


def coq_project():
    """_CoqProject lists every .v file under coq/theories (regenerated whenever the set changes)."""
    vs = []
    for d, _, fs in os.walk(os.path.join(COQ, "theories")):
        for f in fs:
            if f.endswith(".v") and not f.startswith("."):
                vs.append(os.path.relpath(os.path.join(d, f), COQ))
    txt = COQPROJECT_HEADER + "\n".join(sorted(vs)) + "\n"
    cp = os.path.join(COQ, "_CoqProject")
    if not os.path.exists(cp) or open(cp).read() != txt:
        open(cp, "w").write(txt)


def coq_makefile():
    coq_project()
    mk = os.path.join(COQ, "Makefile")
    cp = os.path.join(COQ, "_CoqProject")
    if not os.path.exists(mk) or os.path.getmtime(mk) < os.path.getmtime(cp):
        rc, out = sh("coq_makefile -f _CoqProject -o Makefile", cwd=COQ, timeout=120)
        if rc != 0:
            raise RuntimeError("coq_makefile failed: " + out)


def coq_make(targets, timeout=1500):
    """Full .vo build of the given targets (paths relative to coq/).  Returns (ok, log).
    Only the (short) regeneration of _CoqProject / Makefile / .Makefile.d is serialised by a lock; the
    compilation itself runs unlocked so that one slow proof cannot stall every other check.  Two concurrent
    makes that both need the same out-of-date dependency may compile it twice; make's timestamps sort that out."""
    os.makedirs(os.path.join(BUILD, "extracted"), exist_ok=True)
    with Lock("coq"):
        coq_makefile()
        rc0, out0 = sh(["make", "-f", "Makefile", ".Makefile.d"], cwd=COQ, timeout=300)
    if not targets:
        rc, out = sh(["make", "-j%d" % NCPU], cwd=COQ, timeout=timeout)
    else:
        rc, out = sh(["make", "-j%d" % NCPU] + list(targets), cwd=COQ, timeout=timeout)
    return rc == 0, out


def coq_deps(vfile, seen=None):
    """Transitive closure of WB.* files required by a .v file (by parsing Require lines)."""
    if seen is None:
        seen = []
    path = os.path.join(COQ, "theories", vfile)
    if vfile in seen or not os.path.exists(path):
        return seen
    seen.append(vfile)
    txt = open(path).read()
    txt = re.sub(r"\(\*.*?\*\)", " ", txt, flags=re.S)
    for m in re.finditer(r"From\s+WB\s+Require\s+(?:Import\s+|Export\s+)?(.*?)\.(?:\s|$)", txt + " ", flags=re.S):
        for mod in m.group(1).split():
            coq_deps(mod.replace(".", "/") + ".v", seen)
    for m in re.finditer(r"Require\s+(?:Import|Export)?\s+((?:WB\.[A-Za-z0-9_.]+\s*)+)\.", txt):
        for mod in m.group(1).split():
            coq_deps(mod[3:].replace(".", "/") + ".v", seen)
    return seen


FORBIDDEN = re.compile(
    r"\b(Admitted|admit|Axiom|Axioms|Parameter|Parameters|Conjecture|Conjectures|Admit Obligations|"
    r"bypass_check|Unset Guard Checking|Unset Positivity Checking|Unset Universe Checking|"
    r"type-in-type|impredicative-set)\b")


def strip_coq_comments(txt):
    out, depth, i, n = [], 0, 0, len(txt)
    in_str = False
    while i < n:
        if not in_str and txt.startswith("(*", i):
            depth += 1; i += 2; continue
        if not in_str and depth > 0 and txt.startswith("*)", i):
            depth -= 1; i += 2; continue
        c = txt[i]
        if depth == 0:
            if c == '"':
                in_str = not in_str
            out.append(c)
        i += 1
    return "".join(out)


def coq_hygiene(files=None):
    """Grep the development (comments and string literals stripped) for anything that declares an axiom
    or switches off a kernel check; also Variable/Hypothesis outside a Section."""
    bad = []
    base = os.path.join(COQ, "theories")
    allf = []
    for d, _, fs in os.walk(base):
        for f in fs:
            if f.endswith(".v"):
                allf.append(os.path.join(d, f))
    cp = open(os.path.join(COQ, "_CoqProject")).read()
    if re.search(r"type-in-type|impredicative-set|bypass", cp):
        bad.append("_CoqProject: forbidden flag")
    for p in sorted(allf):
        txt = strip_coq_comments(open(p).read())
        txt_ns = re.sub(r'"[^"]*"', '""', txt)
        for m in FORBIDDEN.finditer(txt_ns):
            bad.append("%s: %s" % (os.path.relpath(p, ROOT), m.group(0)))
        depth = 0
        for line in txt_ns.split("\n"):
            s = line.strip()
            if re.match(r"Section\s", s):
                depth += 1
            elif re.match(r"End\s", s) and depth > 0:
                depth -= 1  # (also closes Modules; conservative enough: Module ... End lowers depth only if >0)
            elif re.match(r"Module\s", s) and ":=" not in s:
                depth += 1
            if depth == 0 and re.match(r"(Variable|Variables|Hypothesis|Hypotheses|Context)\b", s):
                bad.append("%s: %s outside a Section" % (os.path.relpath(p, ROOT), s[:40]))
    return bad


def count_obligations(vfiles):
    """Number of Theorem/Lemma/Corollary/Example/Fact/Remark/Proposition statements in the files."""
    n = 0
    names = []
    for vf_ in vfiles:
        p = os.path.join(COQ, "theories", vf_)
        txt = strip_coq_comments(open(p).read())
        for m in re.finditer(r"^\s*(?:Local\s+|Global\s+|#\[[^\]]*\]\s*)?(Theorem|Lemma|Corollary|Example|Fact|Remark|Proposition)\s+([A-Za-z0-9_']+)", txt, flags=re.M):
            n += 1
            names.append(m.group(2))
    return n, names


def coq_audit(prop, modules, theorems, timeout=2400):
    """Re-run Print Assumptions for the property theorems in a fresh coqc (never cached).
    Returns (ok, {theorem: [axioms]}, log)."""
    d = os.path.join(BUILD, "audit")
    os.makedirs(d, exist_ok=True)
    f = os.path.join(d, "Audit_%s.v" % prop)
    with open(f, "w") as fh:
        for m in modules:
            fh.write("From WB Require Import %s.\n" % m)
        for t in theorems:
            fh.write('Goal True. idtac "@@BEGIN %s". Abort.\nPrint Assumptions %s.\nGoal True. idtac "@@END". Abort.\n' % (t, t))
    rc, out = sh(["coqc", "-Q", os.path.join(COQ, "theories"), "WB", f], cwd=d, timeout=timeout)
    res = {}
    if rc != 0:
        return False, res, out
    for m in re.finditer(r"@@BEGIN (\S+)\n(.*?)@@END", out, flags=re.S):
        body = m.group(2).strip()
        if body.startswith("Closed under the global context"):
            res[m.group(1)] = []
        else:
            ax = []
            for line in body.split("\n"):
                mm = re.match(r"^([A-Za-z_][A-Za-z0-9_.']*)\s*:", line)
                if mm:
                    ax.append(mm.group(1))
            res[m.group(1)] = ax if ax else ["<unparsed: %s>" % body[:200]]
    ok = all(t in res for t in theorems)
    return ok, res, out


# ------------------------------------------------------------------------------------------ OCaml
def ocaml_build(name, extracted, sources, timeout=600):
    """Compile build/extracted/<m>.ml(i) + ocaml/<sources> into build/ocaml/<name>/<name>.  Returns (ok, path, log)."""
    d = os.path.join(BUILD, "ocaml", name)
    os.makedirs(d, exist_ok=True)
    files = []
    for m in extracted:
        for ext in (".mli", ".ml"):
            src = os.path.join(BUILD, "extracted", m + ext)
            if not os.path.exists(src):
                return False, None, "missing extracted file " + src
            shutil.copy(src, d)
            files.append(m + ext)
    for s in sources:
        shutil.copy(os.path.join(ROOT, "ocaml", s), d)
        files.append(s)
    exe = os.path.join(d, name)
    stamp = os.path.join(d, ".stamp")
    h = hashlib.sha256()
    for f in files:
        h.update(open(os.path.join(d, f), "rb").read())
    dig = h.hexdigest()
    if os.path.exists(exe) and os.path.exists(stamp) and open(stamp).read() == dig:
        return True, exe, "up to date"
    with Lock("ocaml-" + name):
        rc, out = sh(["ocamlfind", "ocamlopt", "-O3", "-w", "-a"] + files + ["-o", name],
                     cwd=d, timeout=timeout)
    if rc == 0:
        open(stamp, "w").write(dig)
    return rc == 0, exe, out


# ------------------------------------------------------------------------------------------ cargo
def harness_dir():
    """/verif/harness when checking /repo; otherwise (VERIF_REPO=<scratch worktree>, used to try a check
    against a modified copy without touching /repo) a mirrored copy whose '/repo/' paths are rewritten."""
    if os.path.realpath(REPO) == "/repo":
        return HARNESS
    tag = hashlib.sha256(os.path.realpath(REPO).encode()).hexdigest()[:10]
    d = os.path.join(BUILD, "harness-" + tag)
    os.makedirs(d, exist_ok=True)
    sh(["rsync", "-a", "--delete", "--exclude", "target", "--exclude", "target-hook", "--exclude", "Cargo.lock",
        HARNESS + "/", d + "/"], timeout=300)
    for dd, _, fs in os.walk(d):
        if "/target" in dd:
            continue
        for f in fs:
            if f.endswith((".toml", ".rs")):
                p = os.path.join(dd, f)
                t = open(p).read()
                t2 = t.replace('"/repo/', '"%s/' % os.path.realpath(REPO))
                if t2 != t:
                    open(p, "w").write(t2)
    return d


def harness_members(hdir):
    """Workspace members = crate directories that are complete enough for cargo to load (a half-created crate
    of one check must not break every other check's build).  harness/Cargo.toml is rewritten when the set changes."""
    cdir = os.path.join(hdir, "crates")
    mem = []
    for d in sorted(os.listdir(cdir)):
        p = os.path.join(cdir, d)
        if not os.path.exists(os.path.join(p, "Cargo.toml")):
            continue
        if any(os.path.exists(os.path.join(p, x)) for x in ("src/main.rs", "src/lib.rs", "src/bin")) or \
                "[[bin]]" in open(os.path.join(p, "Cargo.toml")).read() or "[lib]" in open(os.path.join(p, "Cargo.toml")).read():
            mem.append("crates/" + d)
    txt = """[workspace]
resolver = "2"
members = [%s]

[workspace.package]
edition = "2021"
version = "0.0.0"

[profile.dev]
opt-level = 1
debug = false
""" % ", ".join('"%s"' % m for m in mem)
    f = os.path.join(hdir, "Cargo.toml")
    if not os.path.exists(f) or open(f).read() != txt:
        open(f, "w").write(txt)


def cargo_build(package, hook=False, features=None, release=False, timeout=3000, bin=None, extra_rustflags=""):
    """Build a harness package against /repo's working tree.  Returns (ok, exe path, log)."""
    hdir = harness_dir()
    lock = os.path.join(hdir, "Cargo.lock")
    if not os.path.exists(lock):
        shutil.copy(os.path.join(REPO, "Cargo.lock"), lock)
    tdir = os.path.join(hdir, "target" + ("-hook" if hook else ""))
    cmd = ["cargo", "build", "--offline", "-p", package, "--target-dir", tdir]
    if release:
        cmd.append("--release")
    if features:
        cmd += ["--features", ",".join(features)]
    if bin:
        cmd += ["--bin", bin]
    env = {}
    flags = extra_rustflags
    if hook:
        flags = ("--cfg %s " % HOOK_CFG) + flags
    if flags.strip():
        env["RUSTFLAGS"] = flags.strip()
    with Lock("cargo" + ("-hook" if hook else "") + os.path.basename(hdir)):
        harness_members(hdir)
        rc, out = sh(cmd, cwd=hdir, timeout=timeout, env=env)
    exe = os.path.join(tdir, "release" if release else "debug", bin or package)
    return rc == 0, exe, out


# ------------------------------------------------------------------------------------------ filters
def run_filter(cmd, lines, shards=None, timeout=1200, env=None, cwd=None):
    """Feed lines to `cmd` (a line-in/line-out filter), sharded over the cores.  Returns list of
    output lines (same order) or raises RuntimeError with the log."""
    if not lines:
        return []
    shards = shards or min(NCPU, max(1, len(lines) // 64))
    chunks = [lines[i::shards] for i in range(shards)]

    def one(chunk):
        rc, out, err = sh2(cmd, input="\n".join(chunk) + "\n", timeout=timeout, env=env, cwd=cwd)
        outl = out.split("\n")
        if outl and outl[-1] == "":
            outl.pop()
        if rc != 0 or len(outl) != len(chunk):
            raise RuntimeError("filter %s: rc=%s, %d lines in, %d out\n%s" % (cmd, rc, len(chunk), len(outl), err[-2000:]))
        return outl

    with concurrent.futures.ThreadPoolExecutor(max_workers=shards) as ex:
        outs = list(ex.map(one, chunks))
    res = [None] * len(lines)
    for i, o in enumerate(outs):
        res[i::shards] = o
    return res


# ------------------------------------------------------------------------------------------ known findings
class Known:
    def __init__(self):
        self.known = {}   # (prop, key) -> text
        self.fixed = []
        p = os.path.join(ROOT, "known-findings.txt")
        if os.path.exists(p):
            for line in open(p):
                line = line.strip()
                if not line or line.startswith("#"):
                    continue
                m = re.match(r"known:\s+property=(\S+)\s+key=(\S+)\s+(.*)$", line)
                if m:
                    self.known[(m.group(1), m.group(2))] = m.group(3)
                    continue
                m = re.match(r"fixed:\s+property=(\S+)\s+(\S+)\s+(.*)$", line)
                if m:
                    self.fixed.append((m.group(1), m.group(2), m.group(3)))

    def is_known(self, prop, key):
        return (prop, key) in self.known

    def keys_for(self, prop):
        return [k for (p, k) in self.known if p == prop]


# ------------------------------------------------------------------------------------------ context
class Violation:
    def __init__(self, key, what, replay):
        self.key, self.what, self.replay = key, what, replay


class Ctx:
    def __init__(self, prop, tier, seed, level):
        self.prop, self.tier, self.seed, self.level = prop, tier, seed, level
        self.t0 = time.time()
        self.coverage = {}
        self.assumptions = []
        self.violations = []      # Violation with concrete failing input
        self.broken = []          # (what no longer checks, detail) — proof or tie legs
        self.known = Known()
        self.known_seen = {}
        self.notes = []
        self.rng = Rng(seed)

    # -- legs -----------------------------------------------------------------------------
    def proof_leg(self, targets, modules, theorems, allow_axioms=()):
        """make the .vo targets, audit assumptions, hygiene grep.  Fills the proof coverage keys."""
        t = time.time()
        ok, out = coq_make(targets)
        vfiles = []
        for tg in targets:
            coq_deps(tg.replace("theories/", "").replace(".vo", ".v"), vfiles)
        nob, names = count_obligations(vfiles) if ok or True else (0, [])
        cov = self.coverage
        cov["checker_cmd"] = "make -C coq -j%d %s  &&  coqc build/audit/Audit_%s.v (Print Assumptions)" % (NCPU, " ".join(targets), self.prop)
        cov["obligations"] = nob
        cov["proof_files"] = vfiles
        cov["property_theorems"] = list(theorems)
        tb = ["Coq 8.16.1 kernel + vm_compute (no native_compute)"]
        if not ok:
            cov["discharged"] = 0
            self.broken.append(("proof", "make failed for %s:\n%s" % (" ".join(targets), out[-3000:])))
            cov["trusted_base"] = tb
            return False
        aok, res, alog = coq_audit(self.prop, modules, theorems)
        if not aok:
            cov["discharged"] = 0
            self.broken.append(("proof", "Print Assumptions audit failed (theorem missing or renamed?):\n" + alog[-2000:]))
            cov["trusted_base"] = tb
            return False
        allowed = set(allow_axioms) | STD_AXIOM_ALLOW
        ax_all = sorted({a for v in res.values() for a in v})
        bad_ax = [a for a in ax_all if a not in allowed and a.split(".")[-1] not in allowed]
        hyg_all = coq_hygiene()
        # the verdict looks at the files this property's theorems depend on; problems elsewhere in the tree are
        # reported in the evidence (the development as a whole must be clean, but another check's file must not
        # take this one down)
        mine = set(os.path.join("coq", "theories", v) for v in vfiles)
        hyg = [h for h in hyg_all if h.split(":")[0] in mine or h.startswith("_CoqProject")]
        cov["hygiene_elsewhere"] = [h for h in hyg_all if h not in hyg][:10]
        if bad_ax:
            self.broken.append(("proof", "unexpected axioms: %s" % bad_ax))
        if hyg:
            self.broken.append(("proof", "hygiene grep: %s" % hyg[:10]))
        cov["discharged"] = nob if not (bad_ax or hyg) else 0
        cov["print_assumptions"] = {k: (v if v else "Closed under the global context") for k, v in res.items()}
        tb.append("Print Assumptions: " + ("Closed under the global context for all property theorems" if not ax_all else "axioms used: " + ", ".join(ax_all)))
        cov["trusted_base"] = tb
        cov["proof_wall_s"] = round(time.time() - t, 2)
        return not (bad_ax or hyg)

    def tie_broken(self, what, detail):
        self.broken.append((what, detail))

    def violation(self, key, what, replay):
        self.violations.append(Violation(key, what, replay))

    # -- finish ---------------------------------------------------------------------------
    def finish(self):
        os.makedirs(os.path.join(ROOT, "evidence"), exist_ok=True)
        os.makedirs(os.path.join(ROOT, "replays"), exist_ok=True)
        lines = []
        new_viol = 0
        seen_known = set()
        for v in self.violations:
            if self.known.is_known(self.prop, v.key):
                seen_known.add(v.key)
                continue
            new_viol += 1
            h = hashlib.sha256(json.dumps(v.replay, sort_keys=True).encode()).hexdigest()[:12]
            path = os.path.join(ROOT, "replays", "%s-%s.json" % (self.prop, h))
            with open(path, "w") as fh:
                json.dump({"property": self.prop, "key": v.key, "what": v.what, "seed": self.seed,
                           "replay": v.replay}, fh, indent=1)
            lines.append("VIOLATION property=%s replay=%s" % (self.prop, path))
        for k in self.known.keys_for(self.prop):
            if k in seen_known:
                lines.append("KNOWN-FINDING: property=%s key=%s %s" % (self.prop, k, self.known.known[(self.prop, k)]))
            else:
                # listed but not exhibited by this run: say so (not an alarm; the entry should be moved to fixed:)
                self.notes.append("known finding %s not exhibited by this run" % k)
        if self.broken and new_viol == 0:
            # the property is no longer shown to hold, and no concrete failing input was found
            # (known findings explain only their own inputs, never a broken proof/tie)
            path = os.path.join(ROOT, "replays", "%s-unproved.json" % self.prop)
            with open(path, "w") as fh:
                json.dump({"property": self.prop, "no_longer_checks": [{"what": w, "detail": d} for w, d in self.broken],
                           "seed": self.seed}, fh, indent=1)
            lines.append("VIOLATION property=%s replay=%s no-failing-input-found" % (self.prop, path))
            new_viol += 1
        ev = {
            "property_id": self.prop, "tier": self.tier, "seed": self.seed, "level": self.level,
            "coverage": self.coverage, "assumptions": self.assumptions,
            "wall_s": round(time.time() - self.t0, 2), "violations": new_viol,
        }
        if self.notes:
            ev["coverage"]["notes"] = self.notes
        if self.broken:
            ev["coverage"]["broken"] = [w + ": " + d[:500] for w, d in self.broken]
        if seen_known:
            ev["coverage"]["known_findings_exhibited"] = sorted(seen_known)
        # evidence/<id>.json describes runs against /repo itself; a run against a scratch worktree (VERIF_REPO)
        # must not overwrite it
        evdir = os.path.join(ROOT, "evidence") if os.path.realpath(REPO) == "/repo" else os.path.join(BUILD, "evidence-scratch")
        os.makedirs(evdir, exist_ok=True)
        with open(os.path.join(evdir, self.prop + ".json"), "w") as fh:
            json.dump(ev, fh, indent=1)
        for l in lines:
            print(l, flush=True)
        for w, d in self.broken:
            log("[%s] BROKEN %s: %s" % (self.prop, w, d[:1500]))
        log("[%s] tier=%s seed=%d wall=%.1fs violations=%d" % (self.prop, self.tier, self.seed, time.time() - self.t0, new_viol))
        return 1 if new_viol else 0


def canon_hash(obj):
    return hashlib.sha256(json.dumps(obj, sort_keys=True).encode()).hexdigest()[:16]


def shrink_list(items, fails, max_steps=2000):
    """Greedy delta-debugging: drop chunks, then single items, while `fails(items)` stays true."""
    items = list(items)
    steps = 0
    n = max(1, len(items) // 2)
    while n >= 1 and steps < max_steps:
        i = 0
        changed = False
        while i < len(items) and steps < max_steps:
            cand = items[:i] + items[i + n:]
            steps += 1
            if cand != items and fails(cand):
                items = cand
                changed = True
            else:
                i += n
        if not changed:
            n //= 2
    return items
