"""C30 scraper — TRUSTED GLUE, kept deliberately simple.
Turns the real output of the MoonBit generator ({file name: text}) into the data the Coq-verified
checker Valid/PkgGraph.check consumes:

  * package directories  = directories that contain a moon.pkg.json or a *.mbt file
  * declared imports     = the "import" array of the directory's moon.pkg.json (json.loads); an entry is
                           {"path": p, "alias": a} or a bare string p (alias = last path segment, MoonBit's default)
  * references           = every `@alias.` token in the directory's *.mbt files that is outside comments
                           (`// ...`), string literals ("..." with \\ escapes), multi-line string lines
                           (`#|...` / `$|...`) and char literals
  * project              = "name" of moon.mod.json
  * expected directories = from what wit-parser reports about the world (harness mbtpkg `worldinfo`):
                           world/<world>, <gen>, interface/<ns>/<pkg>/<iface> per imported interface,
                           <gen>/interface/<ns>/<pkg>/<iface> per exported one, interface/<name> for inline
                           interfaces, <gen>/world/<world> if the world exports functions.
"""
import json, re, posixpath

EXTERNAL = ["moonbitlang/core/"]
_ALIAS = re.compile(r"@([A-Za-z0-9_/\-]+)\.")
_CHAR = re.compile(r"'(\\[^']*|[^'\\\n])'")


def mbt_refs(text):
    """aliases referenced as @alias. in MoonBit source text (in order, with repetitions)."""
    out = []
    for line in text.split("\n"):
        s = line.lstrip()
        if s.startswith("#|") or s.startswith("$|"):
            continue
        i, n = 0, len(line)
        while i < n:
            c = line[i]
            if c == "/" and line.startswith("//", i):
                break
            if c == '"':
                i += 1
                while i < n and line[i] != '"':
                    i += 2 if line[i] == "\\" else 1
                i += 1
                continue
            if c == "'":
                m = _CHAR.match(line, i)
                if m:
                    i = m.end()
                    continue
            if c == "@":
                m = _ALIAS.match(line, i)
                if m:
                    out.append(m.group(1))
                    i = m.end()
                    continue
            i += 1
    return out


def scrape(files):
    """-> (project or None, [ {dir, imports:[(path, alias)], refs:[alias], has_pkg_json} ], problems[])"""
    problems = []
    project = None
    if "moon.mod.json" in files:
        try:
            project = json.loads(files["moon.mod.json"]).get("name")
        except Exception as e:  # noqa
            problems.append("moon.mod.json does not parse: %s" % e)
    dirs = {}
    for name, text in files.items():
        d = posixpath.dirname(name)
        base = posixpath.basename(name)
        if isinstance(text, bytes):
            continue
        if base == "moon.pkg.json":
            e = dirs.setdefault(d, {"dir": d, "imports": [], "refs": [], "has_pkg_json": False})
            e["has_pkg_json"] = True
            try:
                j = json.loads(text)
            except Exception as ex:  # noqa
                problems.append("%s does not parse as JSON: %s" % (name, ex))
                continue
            for it in j.get("import", []):
                if isinstance(it, str):
                    e["imports"].append((it, it.rsplit("/", 1)[-1]))
                else:
                    p = it.get("path", "")
                    e["imports"].append((p, it.get("alias", p.rsplit("/", 1)[-1])))
        elif base.endswith(".mbt"):
            e = dirs.setdefault(d, {"dir": d, "imports": [], "refs": [], "has_pkg_json": False})
            e["refs"] += mbt_refs(text)
    for e in dirs.values():
        e["refs"] = list(dict.fromkeys(e["refs"]))      # the checker treats references as a set
    return project, [dirs[k] for k in sorted(dirs)], problems


def expected_dirs(worldinfo_line, gen_dir="gen"):
    """worldinfo_line: `ok <world> <ns:pkg> <items...>` from harness mbtpkg."""
    toks = worldinfo_line.split(" ")
    assert toks[0] == "ok", worldinfo_line
    world = toks[1]
    g = gen_dir.replace(".", "/")
    exp = ["world/" + world, g]
    efunc = False
    for t in toks[3:]:
        f = t.split(":")
        pre = "" if f[0] == "I" else g + "/"
        if f[1] == "iface":
            exp.append("%sinterface/%s/%s/%s" % (pre, f[2], f[3], f[5]))
        elif f[1] == "inline":
            exp.append("%sinterface/%s" % (pre, f[2]))
        elif f[1] == "func" and f[0] == "E":
            efunc = True
    if efunc:
        exp.append("%s/world/%s" % (g, world))
    return exp


def encode(project, pkgs, expected, external=EXTERNAL):
    """one protocol line for ocaml/pkggraph_driver.ml"""
    ps = []
    for p in pkgs:
        imps = "\x1c".join("%s\x1b%s" % (a, b) for a, b in p["imports"])
        ps.append("\x1d".join([p["dir"], imps, "\x1c".join(p["refs"])]))
    return "\x1e".join([project or "", "\x1d".join(external), "\x1d".join(expected)] + ps)


def decode_errors(line):
    if line == "OK":
        return []
    return [tuple(e.split("|")) for e in line.split("\x1e")]
