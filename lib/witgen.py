"""Seeded random WIT world generator shared by the checks that need whole worlds (C13, C15, C16, C17,
C28, C29, C30, C05…).  Everything is drawn from the vf.Rng given; output is WIT source text that
wit-parser accepts (validated by `corelib parse`; see selftest()).

    w = gen_world(rng, Opts(features={"resources","maps",...}, ...))
    w.text      WIT source (one package, several interfaces, one world named `w.world`)
    w.world     world name
    w.meta      {"interfaces": [...], "funcs": [(iface|None, name, direction, is_async, kind)], "types": n, "hist": {...}}

Features: "resources", "futures", "streams", "async", "fixed" (fixed-length lists), "maps", "errctx".
"""

PRIMS = ["bool", "u8", "s8", "u16", "s16", "u32", "s32", "u64", "s64", "f32", "f64", "char", "string"]
KEYS = ["bool", "u8", "s8", "u16", "s16", "u32", "s32", "u64", "s64", "char", "string"]
WORDS = ["a", "b", "foo", "bar", "baz", "my-thing", "x1", "item", "kind", "value", "the-name", "id", "data",
         "left", "right", "node", "err", "ok-val", "big-one", "t", "e", "r0", "ptr", "len", "ret", "base", "result"]
ADVERSARIAL = ["type", "self", "match", "fn", "ptr0", "len0", "result0", "ret", "base", "e", "t", "async", "await",
               "int", "float", "char-x", "class", "namespace", "new", "drop", "move", "ref", "box", "static-x", "final",
               "import-x", "export-x", "abstract", "bool-x", "string-x", "option-x", "list-x", "some", "none", "ok", "error"]
DOC_BITS = ["plain text", "a { brace", "} closing brace first", "// double slash", "`code` and *emph*", "<b>html</b> & stuff",
            "[link](http://example.com/x)", "trailing backslash \\", "{ balanced }", "}{", "  indented", "# heading", "<a href=\"#x\">x</a>",
            "line with \"quotes\"", "tab\there", "-- dash", "[brackets]", "1. list", "* bullet", "/* c comment */"]


WIT_KEYWORDS = {"use", "type", "func", "u8", "u16", "u32", "u64", "s8", "s16", "s32", "s64", "f32", "f64", "float32", "float64",
                "char", "resource", "own", "borrow", "record", "flags", "variant", "enum", "bool", "string", "option", "result",
                "future", "stream", "error-context", "list", "map", "underscore", "as", "from", "static", "interface", "tuple",
                "import", "export", "world", "package", "constructor", "async", "include", "with"}


def esc(n):
    return "%" + n if n in WIT_KEYWORDS else n


class Opts:
    def __init__(self, features=(), n_ifaces=(1, 3), n_types=(0, 6), n_funcs=(1, 4), max_depth=3, docs=False,
                 adversarial=False, world_funcs=True, world_types=True, max_params=5, big_sigs=False, uses=True,
                 package="t:p", version=None, inline_ifaces=False):
        self.features = set(features)
        self.n_ifaces, self.n_types, self.n_funcs = n_ifaces, n_types, n_funcs
        self.max_depth, self.docs, self.adversarial = max_depth, docs, adversarial
        self.world_funcs, self.world_types, self.max_params, self.big_sigs = world_funcs, world_types, max_params, big_sigs
        self.uses, self.package, self.version, self.inline_ifaces = uses, package, version, inline_ifaces


ALL_FEATURES = ["resources", "futures", "streams", "async", "fixed", "maps", "errctx"]


class World:
    def __init__(self):
        self.text, self.world, self.meta = "", "", {}


class _Scope:
    """Names visible inside one interface (or the world): named types with their capabilities."""

    def __init__(self):
        self.types = []       # (name, caps) caps: set of {"borrow" (contains a borrow), "res" (is a resource), "handle"}
        self.names = set()


class _Gen:
    def __init__(self, rng, o):
        self.r, self.o = rng, o
        self.hist = {}
        self.ntypes = 0

    def h(self, k):
        self.hist[k] = self.hist.get(k, 0) + 1

    def fresh(self, scope, prefix=None):
        r = self.r
        for _ in range(200):
            if self.o.adversarial and r.chance(1, 2):
                n = r.choice(ADVERSARIAL)
            else:
                n = r.choice(WORDS)
            if prefix:
                n = prefix + "-" + n
            if r.chance(1, 3):
                n = n + "-" + r.choice(WORDS)
            if r.chance(1, 4):
                n = n + str(r.below(10))
            if n not in scope.names and n not in ("", ):
                scope.names.add(n)
                return esc(n)
        i = 0
        while True:
            n = "n%d" % i
            if n not in scope.names:
                scope.names.add(n)
                return n
            i += 1

    def doc(self, indent):
        if not self.o.docs or self.r.chance(1, 3):
            return ""
        n = self.r.range(1, 3)
        lines = []
        for _ in range(n):
            k = self.r.range(1, 3)
            lines.append(" ".join(self.r.choice(DOC_BITS) for _ in range(k)))
        return "".join("%s/// %s\n" % (indent, l) for l in lines)

    # ---- type expressions ---------------------------------------------------------------
    def ty(self, scope, depth, allow_borrow, in_payload=False):
        """Returns a WIT type expression.  allow_borrow: borrows legal here (parameters only)."""
        r, f = self.r, self.o.features
        choices = [("prim", 10)]
        named = [t for t in scope.types if (allow_borrow or "borrow" not in t[1])]
        if named:
            choices.append(("named", 8))
        if depth > 0:
            choices += [("list", 3), ("option", 3), ("result", 3), ("tuple", 3)]
            if "fixed" in f:
                choices.append(("fixed", 2))
            if "maps" in f:
                choices.append(("map", 2))
            if "futures" in f:
                choices.append(("future", 1))
            if "streams" in f:
                choices.append(("stream", 1))
        if "errctx" in f:
            choices.append(("errctx", 1))
        k = r.weighted(choices)
        self.h(k)
        if k == "prim":
            return r.choice(PRIMS)
        if k == "named":
            t = r.choice(named)
            if "res" in t[1]:
                if allow_borrow and r.chance(1, 2):
                    return "borrow<%s>" % t[0]
                return r.choice([t[0], "own<%s>" % t[0]])
            return t[0]
        if k == "list":
            return "list<%s>" % self.ty(scope, depth - 1, allow_borrow)
        if k == "fixed":
            return "list<%s, %d>" % (self.ty(scope, depth - 1, allow_borrow), r.choice([1, 2, 3, 4, 7, 16]))
        if k == "map":
            return "map<%s, %s>" % (r.choice(KEYS), self.ty(scope, depth - 1, allow_borrow))
        if k == "option":
            return "option<%s>" % self.ty(scope, depth - 1, allow_borrow)
        if k == "tuple":
            return "tuple<%s>" % ", ".join(self.ty(scope, depth - 1, allow_borrow) for _ in range(r.range(1, 4)))
        if k == "result":
            a = self.ty(scope, depth - 1, allow_borrow) if r.chance(2, 3) else None
            b = self.ty(scope, depth - 1, allow_borrow) if r.chance(2, 3) else None
            if a is None and b is None:
                return "result"
            if b is None:
                return "result<%s>" % a
            return "result<%s, %s>" % (a or "_", b)
        if k == "future":
            if r.chance(1, 5):
                return "future"
            return "future<%s>" % self.ty(scope, depth - 1, False)
        if k == "stream":
            if r.chance(1, 5):
                return "stream"
            return "stream<%s>" % self.ty(scope, depth - 1, False)
        if k == "errctx":
            return "error-context"
        raise AssertionError(k)

    # ---- type definitions ---------------------------------------------------------------
    def typedef(self, scope, indent, allow_resource=True):
        r, f = self.r, self.o.features
        kinds = [("record", 4), ("variant", 4), ("enum", 2), ("flags", 2), ("alias", 3)]
        if "resources" in f and allow_resource:
            kinds.append(("resource", 3))
        k = r.weighted(kinds)
        self.h("def-" + k)
        name = self.fresh(scope)
        d = self.doc(indent)
        sub = _Scope()
        caps = set()
        self.ntypes += 1

        def field_ty():
            # record fields / variant payloads may contain borrows (legal in WIT; then the type is param-only)
            allow_b = "resources" in f and r.chance(1, 6)
            t = self.ty(scope, self.o.max_depth - 1, allow_b)
            if "borrow<" in t or any(("borrow" in c) and _mentions(t, n) for n, c in scope.types):
                caps.add("borrow")
            return t
        if k == "record":
            n = r.range(1, 6)
            body = "".join("%s  %s%s: %s,\n" % (indent, "", self.fresh(sub), field_ty()) for _ in range(n))
            txt = "%s%srecord %s {\n%s%s}\n" % (d, indent, name, body, indent)
        elif k == "variant":
            n = r.choice([1, 2, 3, 4, 5, 9]) if not r.chance(1, 40) else r.choice([255, 256, 257, 300])
            cases = []
            for _ in range(n):
                cn = self.fresh(sub)
                if r.chance(1, 2):
                    cases.append("%s  %s(%s),\n" % (indent, cn, field_ty()))
                else:
                    cases.append("%s  %s,\n" % (indent, cn))
            txt = "%s%svariant %s {\n%s%s}\n" % (d, indent, name, "".join(cases), indent)
        elif k == "enum":
            n = r.choice([1, 2, 3, 7]) if not r.chance(1, 40) else r.choice([256, 257])
            txt = "%s%senum %s {\n%s%s}\n" % (d, indent, name, "".join("%s  %s,\n" % (indent, self.fresh(sub)) for _ in range(n)), indent)
        elif k == "flags":
            n = r.choice([1, 2, 3, 8, 9, 16, 17, 31, 32]) if not r.chance(1, 20) else r.choice([33, 40, 64, 65])
            txt = "%s%sflags %s {\n%s%s}\n" % (d, indent, name, "".join("%s  %s,\n" % (indent, self.fresh(sub)) for _ in range(n)), indent)
        elif k == "alias":
            t = self.ty(scope, self.o.max_depth, False)
            txt = "%s%stype %s = %s;\n" % (d, indent, name, t)
            for n2, c in scope.types:
                if t == n2 and "res" in c:
                    caps |= c
        else:  # resource
            caps.add("res")
            items = []
            scope.types.append((name, caps))
            if r.chance(2, 3):
                ps = self.params(scope, sub, r.range(0, 2))
                if r.chance(1, 5):
                    items.append("%s  constructor(%s) -> result<%s, %s>;\n" % (indent, ps, name, r.choice(["string", "u32"])))
                else:
                    items.append("%s  constructor(%s);\n" % (indent, ps))
            for _ in range(r.range(0, 3)):
                fn = self.fresh(sub)
                items.append(self.doc(indent + "  "))
                st = "static " if r.chance(1, 4) else ""
                asy = "async " if ("async" in f and r.chance(1, 3)) else ""
                items.append("%s  %s: %s%s%s;\n" % (indent, fn, st, asy, self.sig(scope)))
            scope.types.pop()
            if items:
                txt = "%s%sresource %s {\n%s%s}\n" % (d, indent, name, "".join(items), indent)
            else:
                txt = "%s%sresource %s;\n" % (d, indent, name)
        scope.types.append((name, caps))
        return txt

    def params(self, scope, names, n):
        ps = []
        for _ in range(n):
            ps.append("%s: %s" % (self.fresh(names), self.ty(scope, self.o.max_depth, "resources" in self.o.features)))
        return ", ".join(ps)

    def sig(self, scope):
        r = self.r
        if self.o.big_sigs and r.chance(1, 4):
            n = r.choice([4, 5, 15, 16, 17, 18, 20])
        else:
            n = r.range(0, self.o.max_params)
        names = _Scope()
        names.names.add("self")  # implicit first parameter of resource methods
        ps = self.params(scope, names, n)
        if r.chance(1, 4):
            return "func(%s)" % ps
        return "func(%s) -> %s" % (ps, self.ty(scope, self.o.max_depth, False))

    def func(self, scope, indent, prefix=""):
        name = self.fresh(scope)
        asy = "async " if ("async" in self.o.features and self.r.chance(1, 3)) else ""
        return name, bool(asy), "%s%s%s%s: %s%s;\n" % (self.doc(indent), indent, prefix, name, asy, self.sig(scope))

    # ---- world ----------------------------------------------------------------------------
    def world(self):
        r, o = self.r, self.o
        out = ["package %s%s;\n\n" % (o.package, ("@" + o.version) if o.version else "")]
        top = _Scope()
        ifaces = []
        funcs = []
        nif = r.range(*o.n_ifaces)
        for i in range(nif):
            iname = self.fresh(top, "i")
            sc = _Scope()
            body = []
            if o.uses and ifaces and r.chance(1, 2):
                src = r.choice(ifaces)
                cand = [t for t in src["types"]]
                if cand:
                    picks = []
                    for t in cand:
                        if r.chance(1, 2) and t[0].lstrip("%") not in sc.names:
                            if r.chance(1, 4):
                                alias = self.fresh(sc)
                                picks.append("%s as %s" % (t[0], alias))
                                sc.types.append((alias, t[1]))
                            else:
                                sc.names.add(t[0].lstrip("%"))
                                picks.append(t[0])
                                sc.types.append(t)
                    if picks:
                        body.append("  use %s.{%s};\n" % (src["name"], ", ".join(picks)))
            for _ in range(r.range(*o.n_types)):
                body.append(self.typedef(sc, "  "))
            fl = []
            for _ in range(r.range(*o.n_funcs)):
                fn, asy, txt = self.func(sc, "  ")
                body.append(txt)
                fl.append((fn, asy))
            out.append("%sinterface %s {\n%s}\n\n" % (self.doc(""), iname, "".join(body)))
            ifaces.append({"name": iname, "types": list(sc.types), "funcs": fl})
        wname = self.fresh(top, "w")
        wb = []
        wsc = _Scope()
        wsc.names |= top.names
        for it in ifaces:
            # same interface may be both imported and exported
            mode = r.weighted([("import", 3), ("export", 3), ("both", 2)])
            if mode in ("import", "both"):
                wb.append("  import %s;\n" % it["name"])
                funcs += [(it["name"], fn, "import", asy) for fn, asy in it["funcs"]]
            if mode in ("export", "both"):
                wb.append("  export %s;\n" % it["name"])
                funcs += [(it["name"], fn, "export", asy) for fn, asy in it["funcs"]]
        if o.world_types and r.chance(1, 2):
            for _ in range(r.range(1, 3)):
                wb.append(self.typedef(wsc, "  ", allow_resource=False))
        if o.world_funcs:
            for _ in range(r.range(0, 3)):
                d = r.choice(["import", "export"])
                fn, asy, txt = self.func(wsc, "  ", prefix=d + " ")
                wb.append(txt)
                funcs.append((None, fn, d, asy))
        if o.inline_ifaces and r.chance(1, 2):
            d = r.choice(["import", "export"])
            iname = self.fresh(wsc, "inl")
            sc = _Scope()
            body = [self.typedef(sc, "    ") for _ in range(r.range(0, 2))]
            fl = []
            for _ in range(r.range(1, 2)):
                fn, asy, txt = self.func(sc, "    ")
                body.append(txt)
                funcs.append((iname, fn, d, asy))
            wb.append("  %s %s: interface {\n%s  }\n" % (d, iname, "".join(body)))
        out.append("%sworld %s {\n%s}\n" % (self.doc(""), wname, "".join(wb)))
        w = World()
        w.text = "".join(out)
        w.world = wname
        funcs = [((a.lstrip("%") if a else a), b.lstrip("%"), c, d) for a, b, c, d in funcs]
        w.world = wname.lstrip("%")
        w.meta = {"interfaces": [i["name"].lstrip("%") for i in ifaces], "funcs": funcs, "types": self.ntypes, "hist": dict(self.hist)}
        return w


def _mentions(texpr, name):
    import re
    return re.search(r"(?<![a-z0-9-])%s(?![a-z0-9-])" % re.escape(name), texpr) is not None


def gen_world(rng, opts=None):
    return _Gen(rng, opts or Opts()).world()


def gen_valid_worlds(rng, n, mkopts, exe=None, max_tries=None):
    """n worlds accepted by the real wit-parser.  mkopts(rng, i) -> Opts.  Returns (worlds, n_rejected)."""
    import vf
    if exe is None:
        ok, exe, log = vf.cargo_build("corelib")
        assert ok, log
    out, rej, i = [], 0, 0
    while len(out) < n and i < (max_tries or 4 * n + 16):
        batch = []
        for _ in range(max(8, n - len(out))):
            batch.append(gen_world(rng.fork(i), mkopts(rng, i)))
            i += 1
        res = vf.run_filter([exe, "parse"], [encode_line(w.text) for w in batch])
        for w, r_ in zip(batch, res):
            if r_.startswith("ok"):
                if len(out) < n:
                    out.append(w)
            else:
                rej += 1
    return out, rej


def encode_line(text):
    """Multi-line WIT text → one protocol line (newlines as \\x1f)."""
    return text.replace("\n", "\x1f")


def selftest(n=300, seed=1):
    """Generates n worlds with every feature on and asks the real wit-parser (corelib parse) to accept them."""
    import vf
    ok, exe, log = vf.cargo_build("corelib")
    assert ok, log
    rng = vf.Rng(seed)
    worlds = []
    for i in range(n):
        feats = [f for f in ALL_FEATURES if rng.chance(1, 2)]
        worlds.append(gen_world(rng.fork(i), Opts(features=feats, docs=rng.chance(1, 2), adversarial=rng.chance(1, 2),
                                                   big_sigs=rng.chance(1, 3), inline_ifaces=True)))
    res = vf.run_filter([exe, "parse"], [encode_line(w.text) for w in worlds])
    bad = [(w, r) for w, r in zip(worlds, res) if not r.startswith("ok")]
    return len(worlds), bad


if __name__ == "__main__":
    import sys, os
    sys.path.insert(0, os.path.dirname(os.path.abspath(__file__)))
    n, bad = selftest(int(sys.argv[1]) if len(sys.argv) > 1 else 300, int(sys.argv[2]) if len(sys.argv) > 2 else 1)
    print("%d worlds, %d rejected" % (n, len(bad)))
    for w, r in bad[:5]:
        print("-----", r)
        print(w.text)
