"""Python side of harness/crates/genlib: run any wit-bindgen generator (as a library, against /repo's
working tree) on WIT text.   res = generate_many([(lang, "opt words", world_or_None, wit_text), ...])
Each result: ("ok", {filename: content}) | ("err", msg) | ("panic", msg)."""
import vf

LANGS = ["rust", "c", "cpp", "markdown", "moonbit", "csharp", "go", "d"]


def build():
    return vf.cargo_build("genlib")


def encode(lang, opts, world, wit):
    return "\x1e".join([lang, opts, world or "", wit.replace("\n", "\x1f")])


def decode(line):
    if line.startswith("ok"):
        files = {}
        for part in line.split("\x1e")[1:]:
            name, content = part.split("\x1d", 1)
            if content.startswith("\x02HEX"):
                files[name] = bytes.fromhex(content[4:])
            else:
                files[name] = content.replace("\x1f", "\n").replace("\x1c", "\r")
        return ("ok", files)
    if line.startswith("err "):
        return ("err", line[4:])
    if line.startswith("panic "):
        return ("panic", line[6:])
    return ("err", "unparseable: " + line[:200])


def generate_many(cases, exe=None, shards=None, timeout=1200):
    if exe is None:
        ok, exe, log = build()
        if not ok:
            raise RuntimeError("genlib build failed:\n" + log[-3000:])
    lines = [encode(*c) for c in cases]
    return [decode(l) for l in vf.run_filter([exe], lines, shards=shards, timeout=timeout)]
