"""C29 input generators (seeded).
world(rng)        a witgen world with doc comments (braces, `//`, `}` at line starts, markdown/HTML metacharacters;
                  witgen's small name pool makes names shared between interfaces the norm) whose doc comments are
                  then EXTENDED with lines that mention the world's own item names in code spans, markdown links,
                  brace/comment contexts and raw HTML.
markdown(rng)     synthetic markdown text + hrefs map for the differential run of the finish loop."""
import re
import witgen

FEATS = ["resources", "futures", "streams", "async", "maps", "errctx"]

EXTRA = [
    "`{n}`", "see `{n}` and `{m}`", "see [`{n}`](#{n})", "[`{n}`](http://example.com/{n})", "[text `{n}` text](#{m})",
    "{{ `{n}` }}", "}} `{n}` {{", "}}", "{{", "// `{n}`", "}} // {{ `{n}`", "<b>`{n}`</b>", "*`{n}`* and **{m}**",
    "a | b & c < d > e", "&amp; &lt; `{n}` &gt;", "x<y>z", "`unbalanced {n}", "``double `{n}` code``", "\\`{n}\\`",
    "", "![`{n}`](http://example.com/i.png)", "<http://example.com/{n}>", "    four spaces `{n}`", "> quote `{n}`",
    "- item `{n}`", "1) `{n}`", "`{n}::{m}`", "{n}", "[{n}]", "[`{n}`]", "text }} {{ text", "/* `{n}` */",
]
RAW_ANCHOR = "<a href=\"#{m}\">`{n}`</a>"      # a code span naming an item inside a doc-authored raw HTML anchor
# reference-style links (full, collapsed, shortcut) whose text is a code span naming an item; the definition follows
# after a blank doc line (a definition cannot interrupt a paragraph)
REF_LINKS = [["see [`{n}`][spec-{m}] end", "", "[spec-{m}]: http://example.com/spec/{m}"],
             ["[`{n}`][] is collapsed", "", "[`{n}`]: http://example.com/collapsed/{n}"],
             ["shortcut [`{n}`] and `{m}`", "", "[`{n}`]: http://example.com/shortcut/{n}"],
             ["[text `{n}` text][Spec {m}]", "", "[spec {m}]: <http://example.com/sp/{m}> \"title\""]]
AUTOLINK_IN_LINK = "[`{n}` <http://example.com/{m}> `{m}`](#{n})"   # pulldown nests the autolink inside the inline link


def names_of(wit):
    ns = set(re.findall(r"(?:record|variant|enum|flags|resource|type|interface)\s+%?([a-z][a-z0-9-]*)", wit))
    ns |= set(re.findall(r"%?([a-z][a-z0-9-]*)\s*:\s*(?:static\s+)?(?:async\s+)?func\b", wit))
    return sorted(ns)


def member_pairs(wit):
    """`type::member` for record fields, variant/enum cases and flags (keys of the generator's hrefs map)"""
    out, cur = [], None
    for line in wit.split("\n"):
        s = line.strip()
        m = re.match(r"(?:record|variant|enum|flags)\s+%?([a-z][a-z0-9-]*)\s*\{", s)
        if m:
            cur = m.group(1)
            continue
        if s.startswith("}"):
            cur = None
        elif cur and not s.startswith("///"):
            m = re.match(r"%?([a-z][a-z0-9-]*)\s*[:(,]", s)
            if m:
                out.append("%s::%s" % (cur, m.group(1)))
    return out


def extend_docs(rng, wit, raw_anchor_prob=(1, 25)):
    names = names_of(wit) or ["x"]
    pairs = member_pairs(wit)
    names = names + [rng.choice(pairs) for _ in range(min(len(pairs), max(2, len(names) // 3)))]
    out = []
    for line in wit.split("\n"):
        out.append(line)
        m = re.match(r"^(\s*)///", line)
        if m and rng.chance(1, 2):
            for _ in range(rng.range(1, 2)):
                n_, m_ = rng.choice(names), rng.choice(names)
                if rng.chance(1, 12):
                    tpls = rng.choice(REF_LINKS)
                elif rng.chance(*raw_anchor_prob):
                    tpls = [rng.choice([RAW_ANCHOR, AUTOLINK_IN_LINK])]
                else:
                    tpls = [rng.choice(EXTRA)]
                for tpl in tpls:
                    t = tpl.format(n=n_, m=m_)
                    out.append("%s///%s" % (m.group(1), (" " + t) if t else ""))
    return "\n".join(out)


def world(rng, raw_anchor_prob=(1, 25)):
    feats = [f for f in FEATS if rng.chance(1, 2)]
    w = witgen.gen_world(rng, witgen.Opts(features=feats, docs=True, adversarial=rng.chance(1, 4), inline_ifaces=True,
                                           n_ifaces=(1, 4), package=rng.choice(["t:p", "my-ns:my-pkg"]),
                                           version=rng.choice([None, None, "1.2.0"])))
    w.text = extend_docs(rng, w.text, raw_anchor_prob)
    return w


# --------------------------------------------------------------------------------------- synthetic markdown
GEN_PREFIX = "#G_"
RAW_HREF = "#q"
KEYS = ["t", "foo", "a-b", "t::x", "w", "a:b/i", "f", "my-thing"]
FRAG = [
    "`{k}`", "text", "[`{k}`](#{k})", "[a `{k}` b](http://x/{k})", "[a [`{k}`](#in) b](#out)", "![`{k}`](img.png)",
    "<http://x/{k}>", "[`{k}`][ref]", "[ref]", "*`{k}`*", "**`{k}` b**", "<b>`{k}`</b>", "<a href=\"#q\">`{k}`</a>",
    "<a id=\"{k}\"></a>`{k}`", "``{k}``", "`` `{k}` ``", "`{k} `", "\\`{k}\\`", "[`{k}`](<#a b>)", "[`{k}`](#x \"title `{k}`\")",
    "`{k}", "]", "[", "(#x)", "&amp;", "<", ">", "{{", "}}", "//", "[x](#y) `{k}` [z](#w)", "[![`{k}`](i.png)](#l)",
    "[`{k}`][]", "[`{k}`]", "[a `{k}`][Ref]", "[`{k}`][nodef]", "[`{k}` <http://x/{k}> `{k}`][ref]",
    "[`{k}`", "`{k}`](#x)", "<span>`{k}`", "</a>`{k}`", "[^1]", "~~`{k}`~~", "| `{k}` | b |", "http://x/`{k}`",
]
LINE_PREFIX = ["", "", "", "# ", "#### ", "- ", "    - ", "1. ", "> ", "    ", "<p>", "- <a id=\"r.f\"></a>", "[ref]: ", "[ref]: http://r/ "]
REFDEFS = ["[ref]: http://r/", "[`t`]: http://r/t", "[`foo`]: http://r/foo", "[`a-b`]: <http://r/a b>", "[`f`]: http://r/f 'title'"]


def markdown(rng):
    hk = [k for k in KEYS if rng.chance(1, 2)] or ["t"]
    if rng.chance(1, 8):
        hk.append("t ")
    # targets of GENERATED links live in their own namespace (#G_...) so that the search leg can tell a generated
    # <a href> from an authored one in the real HTML; raw HTML anchors of the fragments use #q exclusively
    hrefs = [(k, GEN_PREFIX + re.sub(r"[^a-z0-9]+", "_", k)) for k in dict.fromkeys(hk)]
    lines = []
    for _ in range(rng.range(1, 8)):
        if rng.chance(1, 6):
            lines.append(rng.choice(["", "----", "```", "<!-- c", "-->", "<div>", "</div>"]))
            continue
        n = rng.range(1, 5)
        body = " ".join(rng.choice(FRAG).format(k=rng.choice(KEYS)) for _ in range(n))
        lines.append(rng.choice(LINE_PREFIX) + body)
        if rng.chance(1, 3):
            lines.append("")
    if rng.chance(1, 2):
        lines.append("")
        for _ in range(rng.range(1, 3)):
            lines.append(rng.choice(REFDEFS))
    return hrefs, "\n".join(lines) + "\n"
