"""C13 scraper for the d backend (placeholder, filled in below)."""
def scrape(files):
    return []
