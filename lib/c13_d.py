"""C13 scraper for the D backend:  @wasmImport!("m", "n") / @wasmExport!("n"), then pragma(mangle, ..), then
   [static] [private] extern(C) <ret> <name>(<params>) [attrs] ; | {"""
import re
from c13_common import mk, line_of, word_counts, text_files, split_params, mark_referenced

DECL = re.compile(r'@wasm(?P<k>Import|Export)!\((?P<args>[^\n]*)\)[ \t]*\n(?:[ \t]*pragma\([^\n]*\)[ \t]*\n)?[ \t]*(?P<quals>(?:(?:static|private|public|package|export)\s+)*)(?:extern\s*\(C\)\s+)?(?P<ret>[^\n(]*?)\s*(?P<f>[A-Za-z_][A-Za-z0-9_]*)\s*\((?P<p>[^)]*)\)', re.M)
TY = {"uint": "i", "int": "i", "size_t": "i", "ptrdiff_t": "i", "bool": "i", "ubyte": "i", "byte": "i", "ushort": "i", "short": "i",
      "char": "i", "dchar": "i", "ulong": "I", "long": "I", "float": "f", "double": "F"}


def core_ty(t):
    t = re.sub(r"\b(const|in|scope|ref|immutable)\b", "", t).strip()
    if t.endswith("*"):
        return "i"
    return TY.get(t.split()[0] if t.split() else t, "?")


def sig_of(params, ret):
    ps = ""
    for p in split_params(params):
        if p.strip().endswith("*") or re.search(r"\*\s*[A-Za-z_][A-Za-z0-9_]*$", p.strip()):
            ps += "i"
            continue
        toks = re.sub(r"\b(const|in|scope|ref|immutable)\b", "", p).split()
        ps += TY.get(toks[0], "?") if toks else "?"
    ret = ret.strip()
    rs = "" if ret == "void" else core_ty(ret)
    s = ps + ">" + rs
    return "?" if "?" in s else s


def scrape(files):
    out = []
    wcs = {}
    ds = text_files(files, [".d"])
    for fn, t in ds.items():
        n_attr = len(re.findall(r"^\s*@wasm(?:Import|Export)!\(", t, flags=re.M))
        got = 0
        wc = wcs[fn] = word_counts([t])
        for m in DECL.finditer(t):
            got += 1
            strs = re.findall(r'"([^"]*)"', m.group("args"))
            sig = sig_of(m.group("p"), m.group("ret"))
            ln = line_of(t, m.start())
            if m.group("k") == "Import":
                if len(strs) != 2:
                    out.append(mk("I", "?", m.group("args"), "?", m.group("f"), fn, ln))
                    continue
                out.append(mk("I", strs[0], strs[1], sig, m.group("f"), fn, ln))
                out[-1]["_scope"] = fn
            else:
                out.append(mk("E", "", strs[0] if strs else m.group("args"), sig, m.group("f"), fn, ln))
        if got != n_attr:
            out.append(mk("I", "?", "<%d @wasmImport/@wasmExport attributes not parsed in %s>" % (n_attr - got, fn), "?", "?", fn, 0))
    return mark_referenced(out, wcs)
