"""C23's own statement, evaluated on the REAL log of a scenario run with the inter-task-wakeup feature.

Observables (log of harness/crates/rtmock/src/bin/wakeups.rs = tasks.rs):
  the unit stream of task T = the `snew=W,R` issued inside one of T's callbacks that is not preceded by an
  `op:K` marker (those are the streams of body operations);  `sread:R:1=C` `join:R:S` `join:R:0`
  `scancelr:R=C` `swrite:W:1=C` `sdropr:R` `sdropw:W`;  waits `fwait:J:B`, wakes `wflag:J` (from a body
  that is being polled) `xwake:J` (outside every task) `kwake:J` (inside a C-ABI callback).
A task is SLEEPING from the moment it starts its unit read (the runtime stores SLEEPING just before) until
a unit is written to it or its next callback (other than EVENT_CANCEL, which leaves the state alone) starts.
Rules:
  1. a wake of a waiter whose task is SLEEPING is followed by exactly one `swrite:W:1`, answered
     COMPLETED(1) = 16, whichever context the wake comes from;
  2. a wake of a waiter whose task is polling / already woken writes nothing (coalescing), and so does a
     wake through a waker that outlived its task;
  3. no other write ever happens on a unit stream; at most one write per read;
  4. reads: at most one outstanding, answered BLOCKED, immediately followed by `join:R:<set>`;
  5. a pending read ends either by the delivery of its event or by `join:R:0` immediately followed by
     `scancelr:R`; a callback that starts with a read pending (and was not handed that event) cancels it
     before any body is polled; `sdropr:R` never happens with a read pending; a task never exits with one;
  6. the reader / writer are dropped at most once."""
import re

KEY_STALE = "itw:wake-after-cancel-while-sleeping"
BODY_TOK = re.compile(r"(fwait|ystep|op|opdone|bfin|wflag|spawn|call|lift|treturn):")


class Unit:
    def __init__(self, t, w, r):
        self.t, self.w, self.r = t, w, r
        self.reading = False
        self.writes_this_read = 0
        self.rdrop = 0
        self.wdrop = 0


def check_real(sc, toks, start_mode=True):
    bad = []

    def viol(key, why):
        bad.append((key, why))

    spawn_build = sc.feat in ("s", "a")
    units, by_r, by_w = {}, {}, {}
    all_units = []
    exited = set()
    sleeping = {}
    running = None
    cancel_cb = False
    cb_started_with_read = False
    body_task = {}
    waiters = {}
    panic = None
    pending_wake = None   # [index of the wake token, expected writers, writers seen, stale?]
    n = len(toks)

    def event_of_callback(i, t):
        """e0 of the callback of task t that starts at token i (its `cb`/`start` token is printed at the end)."""
        for j in range(i, n):
            m = re.match(r"cb:(\d+):(\d+),", toks[j])
            if m and int(m.group(1)) == t:
                return int(m.group(2))
            m = re.match(r"start:(\d+)=", toks[j])
            if m and int(m.group(1)) == t:
                return 0
            if toks[j].startswith(">start:"):
                return None
        return None

    def finish_wake():
        nonlocal pending_wake
        if pending_wake is None:
            return
        idx, expect, got, stale = pending_wake
        pending_wake = None
        if got == expect:
            return
        stale_writes = [w for w in got if any(u.w == w and u.t in exited for u in all_units)]
        if stale_writes:
            viol(KEY_STALE, "%s reached a waker that outlived its task: it wrote to the unit stream of the dead task (writers %s), a wake after exit must write nothing" % (toks[idx], stale_writes))
        elif stale and len(got) > len(expect):
            viol(KEY_STALE, "%s reached a waker that outlived its task: it wrote to the unit stream (writers %s), a wake after exit must write nothing" % (toks[idx], got))
        elif len(got) < len(expect):
            viol("lost-wakeup", "%s: a sleeping task must get exactly one unit (writers %s), log shows %s" % (toks[idx], expect, got))
        else:
            viol("duplicated-wakeup", "%s: expected writes on %s, log shows %s" % (toks[idx], expect, got))

    def callback_starts(t, e0):
        nonlocal running, cancel_cb, cb_started_with_read
        running = t
        cancel_cb = (e0 == 6)
        u = units.get(t)
        cb_started_with_read = bool(u and u.reading)
        if not cancel_cb:
            sleeping[t] = False

    if not start_mode:
        running = 0
        body_task[sc.roots[0] if sc.roots else 0] = 0
    i = 0
    while i < n:
        tok = toks[i]
        i += 1
        if tok.startswith("PANIC:") or tok.startswith("ABORT"):
            panic = tok
            break
        m = re.match(r"swrite:(\d+):(\d+)=(\d+)$", tok)
        if m and int(m.group(1)) in by_w:
            u = by_w[int(m.group(1))]
            rc = int(m.group(3))
            if pending_wake is None:
                viol("spurious-write", "write on the unit stream of task %d outside any wake (%s)" % (u.t, tok))
            else:
                pending_wake[2].append(u.w)
            stale_now = bool(pending_wake and pending_wake[3])
            if rc != 16 and not stale_now:
                viol("write-not-completed", "%s answered %d, the runtime asserts COMPLETED(1)" % (tok, rc))
            if rc == 16 and not u.reading:
                viol("write-without-read", "%s completed although no read is pending" % tok)
            u.writes_this_read += 1
            if u.writes_this_read > 1 and not stale_now:
                viol("two-writes-per-sleep", "second unit written for the same read of task %d" % u.t)
            sleeping[u.t] = False
            continue
        if pending_wake is not None and not re.match(r"(sdropw|wsdrop):", tok):
            finish_wake()
        m = re.match(r">start:(\d+)$", tok)
        if m:
            t = int(m.group(1))
            body_task[sc.roots[t] if t < len(sc.roots) else 0] = t
            callback_starts(t, 0)
            continue
        m = re.match(r"cset:(\d+)=null$", tok)
        if m and start_mode:
            t = int(m.group(1))
            if running != t or not toks[i - 2].startswith("cget:"):
                pass
            callback_starts(t, event_of_callback(i, t))
            continue
        m = re.match(r"(wspoll|wswait):(\d+)=(\d+),(\d+),(\d+)$", tok)
        if m:
            e0, wt = int(m.group(3)), int(m.group(4))
            if e0 == 2 and wt in by_r:
                by_r[wt].reading = False        # the wakeup item is handed to the task
            if not start_mode:
                callback_starts(0, e0)
            continue
        m = re.match(r"(start):(\d+)=(\d+)$", tok) or re.match(r"(cb):(\d+):\d+,\d+,\d+=(\d+)$", tok)
        if m:
            t, code = int(m.group(2)), int(m.group(3))
            u = units.get(t)
            if code == 0:
                exited.add(t)
                if u and u.reading:
                    viol("exit-with-read-pending", "task %d exits with its unit read pending" % t)
            elif u and u.reading and (code & 0xf) != 2:
                viol("read-pending-without-wait", "task %d answers %d with its unit read pending" % (t, code))
            running = None
            continue
        if tok.startswith("bon:"):
            exited.add(0)
            u = units.get(0)
            if u and u.reading:
                viol("exit-with-read-pending", "block_on returns with the unit read pending")
            running = None
            continue
        m = re.match(r"snew=(\d+),(\d+)$", tok)
        if m:
            prev = toks[i - 2] if i >= 2 else ""
            if not prev.startswith("op:") and running is not None:
                u = Unit(running, int(m.group(1)), int(m.group(2)))
                if running in units:
                    viol("second-unit-stream", "task %d creates a second inter-task stream" % running)
                units[running] = u
                all_units.append(u)
                by_r[u.r], by_w[u.w] = u, u
            else:
                # a body operation's stream: its handles may be recycled ones
                by_w.pop(int(m.group(1)), None)
                by_r.pop(int(m.group(2)), None)
            continue
        m = re.match(r"sread:(\d+):(\d+)=(\d+)$", tok)
        if m and int(m.group(1)) in by_r:
            u = by_r[int(m.group(1))]
            if u.reading:
                viol("second-read", "task %d starts a unit read while one is pending" % u.t)
            if int(m.group(3)) != 4294967295:
                viol("read-not-blocked", "%s: the runtime asserts BLOCKED" % tok)
            if running != u.t:
                viol("read-outside-own-callback", tok)
            u.reading = True
            u.writes_this_read = 0
            sleeping[u.t] = True
            nxt = toks[i] if i < n else ""
            if nxt.startswith("wsnew="):
                nxt = toks[i + 1] if i + 1 < n else ""
            mj = re.match(r"join:(\d+):(\d+)$", nxt)
            if not (mj and int(mj.group(1)) == u.r and int(mj.group(2)) != 0):
                viol("read-not-joined", "unit read of task %d is not followed by join:%d:<set> (%s)" % (u.t, u.r, nxt))
            continue
        m = re.match(r"scancelr:(\d+)=(\d+)$", tok)
        if m and int(m.group(1)) in by_r:
            u = by_r[int(m.group(1))]
            prev = toks[i - 2] if i >= 2 else ""
            if prev != "join:%d:0" % u.r:
                viol("cancel-while-in-set", "%s is not immediately preceded by join:%d:0 (%s)" % (tok, u.r, prev))
            if not u.reading:
                viol("cancel-without-read", tok)
            u.reading = False
            cb_started_with_read = False
            continue
        m = re.match(r"sdropr:(\d+)$", tok)
        if m and int(m.group(1)) in by_r:
            u = by_r[int(m.group(1))]
            u.rdrop += 1
            if u.rdrop > 1:
                viol("reader-dropped-twice", tok)
            if u.reading:
                viol("reader-dropped-with-read-pending", tok)
            by_r.pop(u.r, None)
            continue
        m = re.match(r"sdropw:(\d+)$", tok)
        if m and int(m.group(1)) in by_w:
            u = by_w[int(m.group(1))]
            u.wdrop += 1
            if u.wdrop > 1:
                viol("writer-dropped-twice", tok)
            by_w.pop(u.w, None)
            continue
        m = re.match(r"spawn:(\d+)$", tok)
        if m and running is not None:
            body_task[int(m.group(1))] = running
        m = re.match(r"fwait:(\d+):(\d+)$", tok)
        if m:
            j, b = int(m.group(1)), int(m.group(2))
            l = waiters.setdefault(j, [])
            if b in l:
                l.remove(b)
            l.append(b)
        if BODY_TOK.match(tok) and running is not None and not cancel_cb:
            u = units.get(running)
            if u and u.reading and cb_started_with_read:
                viol("polled-with-read-pending", "task %d: body activity (%s) while the unit read of the previous sleep is still pending" % (running, tok))
        m = re.match(r"(wflag|xwake|kwake):(\d+)$", tok)
        if m:
            j = int(m.group(2))
            expect, stale, seen = [], False, set()
            for b in waiters.get(j, []):
                t = body_task.get(b)
                if t is None:
                    continue
                if t in exited:
                    stale = stale or not spawn_build
                    continue
                if sleeping.get(t) and t not in seen and t in units:
                    expect.append(units[t].w)
                    seen.add(t)
            waiters[j] = []
            pending_wake = [i - 1, expect, [], stale]
            continue
    finish_wake()
    return bad, panic
