"""C13 scraper for the Go backend: `//go:wasmimport module field` / `//go:wasmexport field` + the func line."""
import re
from c13_common import mk, line_of, word_counts, text_files, split_params, mark_referenced

DIRECTIVE = re.compile(r'^//go:(?P<k>wasmimport|wasmexport)\s+(?P<rest>[^\n]*)\n\s*func\s+(?P<f>[A-Za-z_][A-Za-z0-9_]*)\s*\((?P<p>[^)]*)\)[ \t]*(?P<r>[^\n{]*)', re.M)
TY = {"int32": "i", "uint32": "i", "uintptr": "i", "unsafe.Pointer": "i", "int64": "I", "uint64": "I",
      "float32": "f", "float64": "F", "bool": "i", "uint8": "i", "int8": "i", "uint16": "i", "int16": "i"}


def core_ty(t):
    t = t.strip()
    if t.startswith("*"):
        return "i"
    return TY.get(t, "?")


def sig_of(params, ret):
    ps = ""
    for p in split_params(params):
        toks = p.split()
        if len(toks) < 2:
            return "?"
        ps += core_ty(toks[-1])
    ret = ret.strip()
    rs = "" if ret == "" else core_ty(ret)
    s = ps + ">" + rs
    return "?" if "?" in s else s


def scrape(files):
    out = []
    wcs = {}
    gos = text_files(files, [".go"])
    for fn, t in gos.items():
        n_dir = len(re.findall(r"^//go:wasm(?:import|export)\b", t, flags=re.M))
        got = 0
        wc = wcs[fn] = word_counts([t])
        for m in DIRECTIVE.finditer(t):
            got += 1
            rest = m.group("rest").strip()
            sig = sig_of(m.group("p"), m.group("r"))
            ln = line_of(t, m.start())
            if m.group("k") == "wasmimport":
                parts = rest.split(" ", 1)
                if len(parts) != 2:
                    out.append(mk("I", "?", rest, "?", m.group("f"), fn, ln))
                    continue
                out.append(mk("I", parts[0], parts[1].strip(), sig, m.group("f"), fn, ln))
                out[-1]["_scope"] = fn
            else:
                out.append(mk("E", "", rest, sig, m.group("f"), fn, ln))
        if got != n_dir:
            out.append(mk("I", "?", "<%d go:wasm directives not parsed in %s>" % (n_dir - got, fn), "?", "?", fn, 0))
    return mark_referenced(out, wcs)
