"""C07 tie: host-chosen sequences of resource operations, run (a) on the extracted model Core/ResourceOwn.v
(ocaml/resown_driver.ml) and (b) natively on the generated Rust bindings of harness/genrun_rust/c07/res.wit with the guest
interpreter harness/genrun_rust/c07/guest.rs against the mock host handle table of harness/genrun_rust/rt.rs.
After every activation (= one export call, or one host-side drop) the host's table, the outstanding-borrow counter, the
free-index stack, the set of live boxes and the multiset of events (handle creations, [resource-drop] calls, transfers,
lends, destructor runs, value destructions, into_inner hand-overs, traps) are compared."""
import os, re
import vf
import genrun_rust as G

C7 = os.path.join(G.TEMPL, "c07")


def optsets():
    return [G.OptSet("owning"), G.OptSet("borrowing"), G.OptSet("owning", True, True, True, True), G.OptSet("borrowing", False, True, False, False)]


def make_module(tools, opt, modname):
    """-> rust source of the module for option set `opt`, or raises RuntimeError"""
    import genlib
    wit = open(os.path.join(C7, "res.wit")).read()
    prefix = modname + "_"
    r = genlib.generate_many([("rust", opt.words(prefix), "w", wit)], exe=tools.genlib)[0]
    if r[0] != "ok":
        raise RuntimeError("generator %s: %s" % (r[0], r[1][:300]))
    gsrc = [v for k, v in r[1].items() if k.endswith(".rs")][0]
    src, shims = G.rewrite_shims(gsrc)
    guest = open(os.path.join(C7, "guest.rs")).read().replace("@PREFIX@", prefix)
    for fn, ph in (("peek_x", "@VIEW_PARAM@"), ("inspect_x", "@AUDIT_PARAM@")):
        m = re.search(r"fn %s\(a: ([^,]+),\)" % fn, gsrc)
        if not m:
            raise RuntimeError("trait method %s not found in the generated code" % fn)
        ty = m.group(1).strip()
        guest = guest.replace(ph, "XBorrow<'_>" if "Borrow" in ty else "&X")
    return "// genrun C07 module %s: options %s\n#![allow(warnings)]\npub mod bindings {\n%s\n}\n%s" % (modname, opt.tag(), src, guest)


# ------------------------------------------------------------------------------------------ operation sequences
# A sequence is SYMBOLIC: Rust values are named (r<n> = wrapper of the imported resource, x<n> = wrapper of the exported
# resource, b<n> = a box of the exported resource); `concretize` assigns model wrapper ids / guest slots / box numbers by
# replaying creation order and silently drops operations whose operands no longer exist — so any sub-list of a valid
# sequence is again a valid sequence (that is what makes shrinking possible).
#
# activation = {"kind": …, …}; user operations inside a script activation = (op, operands…)
USER_OPS = ("make", "ctor", "newx", "drop_r", "consume", "peek", "method", "many", "peekopt", "getx", "into", "drop_x")


class SymGen:
    def __init__(self, rng):
        self.r = rng
        self.n = 0
        self.live_r, self.live_x, self.host_b = [], [], []   # names
        self.box_of = {}                                     # x-name -> b-name

    def fresh(self, p):
        self.n += 1
        return "%s%d" % (p, self.n)

    def user_op(self):
        r = self.r
        ch = [("make", 3), ("ctor", 2), ("newx", 3)]
        if self.live_r:
            ch += [("drop_r", 3), ("consume", 3), ("peek", 3), ("method", 2), ("many", 1), ("peekopt", 1)]
        if self.live_x:
            ch += [("getx", 3), ("into", 2), ("drop_x", 2)]
        k = r.weighted(ch)
        if k in ("make", "ctor"):
            n = self.fresh("r")
            self.live_r.append(n)
            return (k, n, r.range(1, 4000))
        if k == "newx":
            n, b = self.fresh("x"), self.fresh("b")
            self.live_x.append(n)
            self.box_of[n] = b
            return (k, n, b, r.range(1, 100000))
        if k in ("drop_r", "consume"):
            n = r.choice(self.live_r)
            self.live_r.remove(n)
            return (k, n)
        if k in ("peek", "method"):
            return (k, r.choice(self.live_r))
        if k == "many":
            pick = []
            for _ in range(r.range(0, min(3, len(self.live_r)))):
                pick.append(r.choice([x for x in self.live_r if x not in pick]))
            for n in pick:
                self.live_r.remove(n)
            return (k,) + tuple(pick)
        if k == "peekopt":
            b = r.choice(self.live_r)
            a = None if r.chance(1, 3) else r.choice(self.live_r)
            return (k, a, b)
        if k == "getx":
            return (k, r.choice(self.live_x))
        n = r.choice(self.live_x)        # into / drop_x
        self.live_x.remove(n)
        return (k, n)

    def activation(self):
        r = self.r
        ch = [("script", 6), ("take", 3), ("look", 3), ("mk", 3), ("ctorx", 1)]
        if self.live_r:
            ch += [("give", 2), ("givesome", 1)]
        if self.live_x:
            ch += [("givex", 2)]
        if self.host_b:
            ch += [("takex", 3), ("lookx", 3), ("methodget", 1), ("peekx", 2), ("inspectx", 2), ("hostdrop", 2)]
        if len(self.host_b) >= 2:
            ch += [("merge", 1)]
        k = r.weighted(ch)
        if k == "script":
            return {"kind": k, "ops": [self.user_op() for _ in range(r.range(1, 6))]}
        if k == "take":
            n = self.fresh("r")
            self.live_r.append(n)
            return {"kind": k, "new": n, "rep": r.range(1, 4000)}
        if k == "look":
            return {"kind": k, "rep": r.range(1, 4000), "pass_on": r.chance(1, 2)}
        if k == "give":
            n = r.choice(self.live_r)
            self.live_r.remove(n)
            return {"kind": k, "w": n}
        if k == "givesome":
            pick = []
            for _ in range(r.range(0, min(3, len(self.live_r)))):
                pick.append(r.choice([x for x in self.live_r if x not in pick]))
            for n in pick:
                self.live_r.remove(n)
            return {"kind": k, "ws": pick}
        if k in ("mk", "ctorx"):
            b = self.fresh("b")
            self.host_b.append(b)
            return {"kind": k, "box": b, "v": r.range(1, 100000)}
        if k == "takex":
            b = r.choice(self.host_b)
            self.host_b.remove(b)
            n = self.fresh("x")
            self.live_x.append(n)
            self.box_of[n] = b
            return {"kind": k, "box": b, "new": n}
        if k in ("lookx", "methodget", "peekx", "inspectx"):
            return {"kind": k, "box": r.choice(self.host_b)}
        if k == "givex":
            n = r.choice(self.live_x)
            self.live_x.remove(n)
            self.host_b.append(self.box_of[n])
            return {"kind": k, "w": n}
        if k == "merge":
            b1 = r.choice(self.host_b)
            b2 = r.choice([b for b in self.host_b if b != b1])
            return {"kind": k, "box": b1, "box2": b2}
        b = r.choice(self.host_b)
        self.host_b.remove(b)
        return {"kind": "hostdrop", "box": b}


def gen_symbolic(rng, n):
    g = SymGen(rng)
    return [g.activation() for _ in range(n)]


def concretize(seq):
    """symbolic sequence -> list of concrete activations: {"kind", "model": [ops], native parameters…}; operations and
    activations whose operands do not exist (any more) are dropped"""
    nextw = [0]
    rslot, xslot = {}, {}       # name -> (wid, slot) for live wrappers
    nr = nx = 0
    boxnum = {}                 # b-name -> k
    xbox = {}                   # x-name -> b-name
    host = set()                # b-names held outside
    nbox = [0]
    out = []

    def new_w():
        nextw[0] += 1
        return nextw[0] - 1
    for a in seq:
        k = a["kind"]
        c = {"kind": k}
        if k == "script":
            mops, words = [], []
            for op in a["ops"]:
                o = op[0]
                if o in ("make", "ctor"):
                    rslot[op[1]] = (new_w(), nr)
                    nr += 1
                    mops.append("gi:%d" % op[2])
                    words += [4 if o == "make" else 5, op[2]]
                elif o == "newx":
                    xslot[op[1]] = (new_w(), nx)
                    nx += 1
                    boxnum[op[2]] = nbox[0]
                    nbox[0] += 1
                    xbox[op[1]] = op[2]
                    mops.append("un:%d" % op[3])
                    words += [10, op[3]]
                elif o in ("drop_r", "consume"):
                    if op[1] not in rslot:
                        continue
                    w, sl = rslot.pop(op[1])
                    mops.append(("ud:%d" if o == "drop_r" else "po:%d") % w)
                    words += [1 if o == "drop_r" else 2, sl]
                elif o in ("peek", "method"):
                    if op[1] not in rslot:
                        continue
                    w, sl = rslot[op[1]]
                    mops.append("pb:%d" % w)
                    words += [3 if o == "peek" else 6, sl]
                elif o == "many":
                    pick = [n for n in op[1:] if n in rslot]
                    words += [7, len(pick)] + [rslot[n][1] for n in pick]
                    for n in pick:
                        mops.append("po:%d" % rslot.pop(n)[0])
                elif o == "peekopt":
                    if op[2] not in rslot:
                        continue
                    if op[1] is None or op[1] not in rslot:
                        words += [8, 0xFFFFFFFF, rslot[op[2]][1]]
                        mops.append("pb:%d" % rslot[op[2]][0])
                    else:
                        words += [8, rslot[op[1]][1], rslot[op[2]][1]]
                        mops += ["pb:%d" % rslot[op[1]][0], "pb:%d" % rslot[op[2]][0]]
                elif o == "getx":
                    if op[1] not in xslot:
                        continue
                    mops.append("ug:%d" % xslot[op[1]][0])
                    words += [11, xslot[op[1]][1]]
                elif o in ("into", "drop_x"):
                    if op[1] not in xslot:
                        continue
                    w, sl = xslot.pop(op[1])
                    mops.append(("ui:%d" if o == "into" else "ud:%d") % w)
                    words += [12 if o == "into" else 13, sl]
            if not mops:
                continue
            c.update(model=["eb"] + mops + ["ee"], script=words)
        elif k == "take":
            rslot[a["new"]] = (new_w(), nr)
            nr += 1
            c.update(model=["eb", "gi:%d" % a["rep"], "ee"], rep=a["rep"])
        elif k == "look":
            w = new_w()
            c.update(model=["eb", "lb:%d" % a["rep"]] + (["pb:%d" % w] if a["pass_on"] else []) + ["ee"], rep=a["rep"], pass_on=a["pass_on"])
        elif k == "give":
            if a["w"] not in rslot:
                continue
            w, sl = rslot.pop(a["w"])
            c.update(model=["eb", "po:%d" % w, "ee"], slot=sl)
        elif k == "givesome":
            pick = [n for n in a["ws"] if n in rslot]
            c.update(model=["eb"] + ["po:%d" % rslot[n][0] for n in pick] + ["ee"], slots=[rslot[n][1] for n in pick])
            for n in pick:
                rslot.pop(n)
        elif k in ("mk", "ctorx"):
            w = new_w()
            boxnum[a["box"]] = nbox[0]
            nbox[0] += 1
            host.add(a["box"])
            c.update(model=["eb", "un:%d" % a["v"], "po:%d" % w, "ee"], v=a["v"])
        elif k == "takex":
            if a["box"] not in host:
                continue
            host.discard(a["box"])
            xslot[a["new"]] = (new_w(), nx)
            nx += 1
            xbox[a["new"]] = a["box"]
            c.update(model=["eb", "ge:%d" % boxnum[a["box"]], "ee"], box=boxnum[a["box"]])
        elif k in ("lookx", "methodget", "peekx", "inspectx"):
            if a["box"] not in host:
                continue
            c.update(model=["eb", "bg:%d" % boxnum[a["box"]], "ee"], box=boxnum[a["box"]])
        elif k == "givex":
            if a["w"] not in xslot:
                continue
            w, sl = xslot.pop(a["w"])
            host.add(xbox[a["w"]])
            c.update(model=["eb", "po:%d" % w, "ee"], slot=sl)
        elif k == "merge":
            if a["box"] not in host or a["box2"] not in host or a["box"] == a["box2"]:
                continue
            w = new_w()
            c.update(model=["eb", "ge:%d" % boxnum[a["box"]], "bg:%d" % boxnum[a["box2"]], "po:%d" % w, "ee"], box=boxnum[a["box"]], box2=boxnum[a["box2"]])
        elif k == "hostdrop":
            if a["box"] not in host:
                continue
            host.discard(a["box"])
            c.update(model=["hd:%d" % boxnum[a["box"]]], box=boxnum[a["box"]])
        out.append(c)
    return out


# ------------------------------------------------------------------------------------------ the two runs
def model_run(exe, acts):
    """-> per activation: (summary fields dict of the state after it, sorted event list)"""
    line = " ".join(" ".join(a["model"]) for a in acts)
    out = vf.run_filter([exe], [line], shards=1)[0]
    steps = out.split(" | ")
    res, i = [], 0
    for a in acts:
        n = len(a["model"])
        chunk = steps[i:i + n]
        i += n
        evs = []
        for c in chunk:
            e = c.split(" ev=")[1]
            evs += [x for x in e.split(",") if x]
        last = chunk[-1].split(" ev=")[0]
        f = dict(t.split("=", 1) for t in last.split(" "))
        res.append((f, sorted(evs)))
    return res


class Native:
    def __init__(self, guest, mod):
        self.g, self.mod = guest, mod

    def ask(self, line):
        r = self.g.ask(line)
        if r is None:
            raise G.GuestDied(self.g.proc.last_err)
        if not r.startswith("OK"):
            raise RuntimeError("guest: " + r)
        return r

    def export(self, k, args, segs=""):
        r = self.ask("EXPORT %s %d 0 %s  %s" % (self.mod, k, ",".join(map(str, args)), segs))
        return G.Guest.fields(r)

    def list_u32(self, xs):
        """host buffer holding a list<u32> (the guest takes it over) -> (ptr, len, segs)"""
        if not xs:
            return 4, 0, ""
        p = self.g.alloc([(4 * len(xs), 4)])[0]
        return p, len(xs), "%d:%s" % (p, b"".join(int(x).to_bytes(4, "little") for x in xs).hex())

    def run(self, a, boxmap):
        """performs activation `a`; -> (summary fields, sorted events, extra notes)"""
        k = a["kind"]
        notes = ""
        if k == "script":
            p, n, segs = self.list_u32(a["script"])
            f = self.export(8, [p, n], segs)
        elif k == "take":
            h = int(self.ask("HT ADD 0 1 %d" % a["rep"]).split()[1])
            f = self.export(0, [h])
        elif k == "look":
            h = int(self.ask("HT ADD 0 0 %d" % a["rep"]).split()[1])
            f = self.export(1, [h, 1 if a["pass_on"] else 0])
        elif k == "give":
            f = self.export(2, [a["slot"]])
            self.ask("HT LIFTOWN %s" % f["ret"])
        elif k == "givesome":
            p, n, segs = self.list_u32(a["slots"])
            r = self.ask("EXPORT %s %d 16 %s  %s" % (self.mod, 3, "%d,%d" % (p, n), segs))
            f = G.Guest.fields(r)
            ret = int(f["ret"])
            mem = {}
            for seg in f.get("segs", "").split(";"):
                if seg:
                    ad, hx = seg.split(":")
                    mem[int(ad)] = bytes.fromhex(hx)

            def rd(addr, n_):
                for base, bs in mem.items():
                    if base <= addr and addr + n_ <= base + len(bs):
                        return bs[addr - base:addr - base + n_]
                return b"\0" * n_
            lp = int.from_bytes(rd(ret, 8), "little")
            ln = int.from_bytes(rd(ret + 8, 8), "little")
            for i in range(ln):
                self.ask("HT LIFTOWN %d" % int.from_bytes(rd(lp + 4 * i, 4), "little"))
            self.ask("POST %s 3 %d" % (self.mod, ret))
        elif k in ("mk", "ctorx"):
            f = self.export(4 if k == "mk" else 9, [a["v"]])
            self.ask("HT LIFTOWN %s" % f["ret"])
        elif k == "takex":
            h = int(self.ask("HT ADD 1 1 #%d" % a["box"]).split()[1])
            f = self.export(5, [h])
        elif k in ("lookx", "methodget", "peekx", "inspectx"):
            ptr = int(self.ask("HT BOXPTR #%d" % a["box"]).split()[1])
            if ptr >> 32:
                raise RuntimeError("box pointer above 2^32: low-memory arena not active")
            f = self.export({"lookx": 6, "methodget": 10, "peekx": 12, "inspectx": 13}[k], [ptr])
        elif k == "givex":
            f = self.export(7, [a["slot"]])
            self.ask("HT LIFTOWN %s" % f["ret"])
        elif k == "merge":
            h = int(self.ask("HT ADD 1 1 #%d" % a["box"]).split()[1])
            ptr = int(self.ask("HT BOXPTR #%d" % a["box2"]).split()[1])
            f = self.export(11, [h, ptr])
            self.ask("HT LIFTOWN %s" % f["ret"])
        elif k == "hostdrop":
            r = self.ask("HT DTOR #%d" % a["box"])
            f = G.Guest.fields(r)
        if k != "hostdrop":
            self.ask("HT ENDCALL")
            notes = f.get("notes", "")
        d = G.Guest.fields(self.ask("HT DUMP"))
        evs = sorted(x for x in d.get("hev", "").split(",") if x)
        mem_errs = [e for e in G.parse_events(f.get("ev", "")) if e[0] == "E"]
        return d, evs, notes, mem_errs


def compare(model, native_fields, native_evs):
    """-> None or a description of the first difference"""
    mf, mev = model
    if mf.get("err") != "0":
        return "the model reports error class %s for a sequence the generator considers valid (generator/model disagree)" % mf.get("err")
    for key in ("tbl", "need", "free"):
        if mf.get(key, "") != native_fields.get(key, ""):
            return "%s: model %r, real %r" % (key, mf.get(key, ""), native_fields.get(key, ""))
    if mf.get("boxes", "") != native_fields.get("boxes", ""):
        return "live boxes: model %r, real %r" % (mf.get("boxes", ""), native_fields.get("boxes", ""))
    if mev != native_evs:
        return "events: model %s, real %s" % (mev, native_evs)
    return None


def statement(native_evs_all, final_fields):
    """C07's own statement on the REAL event stream of a whole (quiescent-ended) run: returns list of violations"""
    bad = []
    created_own = [e for e in native_evs_all if e.startswith("newh:") and e.endswith(":1")]
    drops_own = [e for e in native_evs_all if e.startswith("drop:") and e.endswith(":1")]
    took = [e for e in native_evs_all if e.startswith("took:")]
    created_b = [e for e in native_evs_all if e.startswith("newh:") and e.endswith(":0")]
    drops_b = [e for e in native_evs_all if e.startswith("drop:") and e.endswith(":0")]
    traps = [e for e in native_evs_all if e.startswith("trap:")]
    if traps:
        bad.append("host traps: %s" % traps[:3])
    own_left = len([x for x in final_fields.get("tbl", "").split(",") if x and x.split(":")[2] == "1"])
    bor_left = len([x for x in final_fields.get("tbl", "").split(",") if x and x.split(":")[2] == "0"])
    if len(created_own) != len(drops_own) + len(took) + own_left:
        bad.append("own handles: %d created, %d dropped + %d transferred + %d still held" % (len(created_own), len(drops_own), len(took), own_left))
    if len(created_b) != len(drops_b) + bor_left or bor_left:
        bad.append("borrow handles: %d lent, %d dropped, %d still in the table between calls" % (len(created_b), len(drops_b), bor_left))
    dt = [e for e in native_evs_all if e.startswith("dtor:")]
    if len(dt) != len(set(dt)):
        bad.append("a box was destroyed twice: %s" % sorted(x for x in dt if dt.count(x) > 1)[:3])
    newv = [e.split(":")[1] for e in native_evs_all if e.startswith("newbox-v:")]
    gone = [e.split(":")[1] for e in native_evs_all if e.startswith("destroyed:") or e.startswith("touser:")]
    for v in set(gone):
        if gone.count(v) > newv.count(v):
            bad.append("value %s destroyed/handed over %d times but created %d times" % (v, gone.count(v), newv.count(v)))
    return bad


# ------------------------------------------------------------------------------------------ leg B: handles inside aggregates
# Random worlds (lib/witgen.py) in which some `u32` leaves of function signatures and type definitions are turned into
# own<r> / borrow<r> of an imported resource: the generated HandleLift/HandleLower code is exercised in nested positions
# (lists, options, records, variants, tuples, results) under many generator option sets, with the CM handle table of rt.rs
# as the host and the exactly-once accounting of C07's statement as the judge.
def inject_handles(rng, wit):
    """-> WIT text with a new imported interface `hres { resource r; }`, `use hres.{r}` in every interface and the world,
    and a seeded subset of `u32` tokens replaced by `r` (everywhere) or `borrow<r>` (function parameters only)"""
    out = []
    in_iface = False
    for line in wit.split("\n"):
        st = line.strip()
        if st.startswith("interface ") and st.endswith("{"):
            in_iface = True
            out.append(line)
            out.append("  use hres.{r};")
            continue
        if st.startswith("world ") and st.endswith("{"):
            out.append(line)
            out.append("  import hres;")
            out.append("  use hres.{r};")
            continue
        m = re.match(r"^(\s*(?:import |export )?[%a-z0-9-]+: func\()(.*)(\)(?: -> .*)?;)\s*$", line)
        if m:
            params, tail = m.group(2), m.group(3)
            params = re.sub(r"\b[us]32\b", lambda m_: rng.weighted([(m_.group(0), 2), ("r", 2), ("borrow<r>", 2)]), params)
            tail = re.sub(r"\b[us]32\b", lambda m_: rng.weighted([(m_.group(0), 1), ("r", 2)]), tail)
            out.append(m.group(1) + params + tail)
            continue
        if re.search(r"\b[us]32\b", line) and not st.startswith(("package", "use ")):
            line = re.sub(r"(?<!map<)\b[us]32\b", lambda m_: rng.weighted([(m_.group(0), 2), ("r", 1)]), line)
        out.append(line)
    text = "\n".join(out)
    pkg_end = text.index(";") + 1
    return text[:pkg_end] + "\n\ninterface hres {\n  resource r;\n}\n" + text[pkg_end:]


def handle_leaves(t, v, acc, inside_param):
    """collect (kind, value) of every own/borrow leaf of v : t in order"""
    k = t["k"]
    if k in ("own", "borrow"):
        acc.append((k, v[1]))
    elif k in ("list", "fixed"):
        for x in v[1]:
            handle_leaves(t["t"], x, acc, inside_param)
    elif k == "map":
        for e in v[1]:
            handle_leaves(t["key"], e[1][0], acc, inside_param)
            handle_leaves(t["val"], e[1][1], acc, inside_param)
    elif k == "tuple":
        for tt, x in zip(t["ts"], v[1]):
            handle_leaves(tt, x, acc, inside_param)
    elif k == "record":
        for f, x in zip(t["fields"], v[1]):
            handle_leaves(f["t"], x, acc, inside_param)
    elif k == "option":
        if v[1] == 1:
            handle_leaves(t["t"], v[2], acc, inside_param)
    elif k == "result":
        pt = t["ok"] if v[1] == 0 else t["err"]
        if pt:
            handle_leaves(pt, v[2], acc, inside_param)
    elif k == "variant":
        pt = t["cases"][v[1]]["t"]
        if pt:
            handle_leaves(pt, v[2], acc, inside_param)
    return acc


def subst_handles(t, v, fresh):
    """rebuild v with every own/borrow leaf replaced by fresh(kind)"""
    k = t["k"]
    if k in ("own", "borrow"):
        return ("n", fresh(k))
    if k in ("list", "fixed"):
        return ("l", [subst_handles(t["t"], x, fresh) for x in v[1]])
    if k == "map":
        return ("l", [("r", [subst_handles(t["key"], e[1][0], fresh), subst_handles(t["val"], e[1][1], fresh)]) for e in v[1]])
    if k == "tuple":
        return ("r", [subst_handles(tt, x, fresh) for tt, x in zip(t["ts"], v[1])])
    if k == "record":
        return ("r", [subst_handles(f["t"], x, fresh) for f, x in zip(t["fields"], v[1])])
    if k == "option":
        return ("v", v[1], subst_handles(t["t"], v[2], fresh) if v[1] == 1 else None)
    if k == "result":
        pt = t["ok"] if v[1] == 0 else t["err"]
        return ("v", v[1], subst_handles(pt, v[2], fresh) if pt else None)
    if k == "variant":
        pt = t["cases"][v[1]]["t"]
        return ("v", v[1], subst_handles(pt, v[2], fresh) if pt else None)
    return v


def handle_call(R, guest, mod, fm, args, ret):
    """one call of a function whose values carry handles: allocates the table entries the call needs, performs the call
    through the ordinary value engine (R = genrun_rust.Runner), does the host-side lifts, and returns
    (findings of the value/memory engine, expected event multiset, actual events, table dump fields)"""
    def ask(line):
        r = guest.ask(line)
        if r is None or not r.startswith("OK"):
            raise G.GuestDied(guest.proc.last_err if r is None else r)
        return r
    expected = []
    rep = [1000]

    def adder(own):
        def fresh(kind):
            rep[0] += 1
            o = own if own is not None else (kind == "own")
            h = int(ask("HT ADD 0 %d %d" % (1 if o else 0, rep[0])).split()[1])
            expected.append("newh:%d:%d" % (h, 1 if o else 0))
            return h
        return fresh
    if fm.dir == "export":
        # parameters: the host lowers own handles (own entries) and lends borrows (borrow entries)
        args = [subst_handles(t, v, adder(None)) for t, v in zip(fm.params, args)]
        for t, v in zip(fm.params, args):
            for kind, h in handle_leaves(t, v, [], True):
                expected.append("drop:%d:%d" % (h, 1 if kind == "own" else 0))      # the implementation drops what it received; the glue drops the borrows
        # result: handles the guest is assumed to own already; lowering transfers them
        if fm.result:
            ret = subst_handles(fm.result, ret, adder(True))
            for kind, h in handle_leaves(fm.result, ret, [], False):
                expected.append("took:%d:%d" % (h, 0))
        F, obs = R.export_call(mod, fm, args, ret)
        if fm.result:
            for kind, h in handle_leaves(fm.result, ret, [], False):
                ask("HT LIFTOWN %d" % h)
        ask("HT ENDCALL")
    else:
        args = [subst_handles(t, v, adder(True)) for t, v in zip(fm.params, args)]     # the guest owns what it passes or lends
        for t, v in zip(fm.params, args):
            for kind, h in handle_leaves(t, v, [], True):
                expected.append(("took:%d:0" % h) if kind == "own" else ("drop:%d:1" % h))   # lent wrappers are dropped by their owner afterwards
        if fm.result:
            ret = subst_handles(fm.result, ret, adder(True))
            for kind, h in handle_leaves(fm.result, ret, [], False):
                expected.append("drop:%d:1" % h)                                          # the caller drops the result it received
        F, obs = R.import_call(mod, fm, args, ret)
        for t, v in zip(fm.params, args):
            for kind, h in handle_leaves(t, v, [], True):
                if kind == "own":
                    ask("HT LIFTOWN %d" % h)
    d = G.Guest.fields(ask("HT DUMP"))
    evs = [re.sub(r"^(took:\d+):.*$", r"\1:0", x) for x in d.get("hev", "").split(",") if x]
    return F, sorted(expected), sorted(evs), d, args, ret
