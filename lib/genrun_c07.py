"""C07 tie: host-chosen sequences of resource operations, run (a) on the extracted model Core/ResourceOwn.v
(ocaml/resown_driver.ml) and (b) natively on the generated Rust bindings of harness/genrun_rust/c07/res.wit with the guest
interpreter harness/genrun_rust/c07/guest.rs against the mock host handle table of harness/genrun_rust/rt.rs.
After every activation (= one export call, or one host-side drop) the host's table, the outstanding-borrow counter, the
free-index stack, the set of live boxes and the multiset of events (handle creations, [resource-drop] calls, transfers,
lends, destructor runs, value destructions, into_inner hand-overs, traps) are compared."""
import os, re
import vf
import genrun_rust as G

C7 = os.path.join(G.TEMPL, "c07")


def optsets():
    return [G.OptSet("owning"), G.OptSet("borrowing"), G.OptSet("owning", True, True, True, True), G.OptSet("borrowing", False, True, False, False)]


def make_module(tools, opt, modname):
    """-> rust source of the module for option set `opt`, or raises RuntimeError"""
    import genlib
    wit = open(os.path.join(C7, "res.wit")).read()
    prefix = modname + "_"
    r = genlib.generate_many([("rust", opt.words(prefix), "w", wit)], exe=tools.genlib)[0]
    if r[0] != "ok":
        raise RuntimeError("generator %s: %s" % (r[0], r[1][:300]))
    gsrc = [v for k, v in r[1].items() if k.endswith(".rs")][0]
    src, shims = G.rewrite_shims(gsrc)
    guest = open(os.path.join(C7, "guest.rs")).read().replace("@PREFIX@", prefix)
    return "// genrun C07 module %s: options %s\n#![allow(warnings)]\npub mod bindings {\n%s\n}\n%s" % (modname, opt.tag(), src, guest)


# ------------------------------------------------------------------------------------------ operation sequences
class Gen:
    """generates activations that respect the Rust ownership discipline and the CM host protocol (what the model calls
    non-EApi), tracking just enough state: live user wrappers, their slots, boxes held outside"""

    def __init__(self, rng):
        self.r = rng
        self.nextw = 0
        self.rs = []      # slot -> wid or None (moved)
        self.xs = []
        self.hostown = []  # box numbers whose own handle is outside
        self.nbox = 0
        self.acts = []

    def live_r(self):
        return [i for i, w in enumerate(self.rs) if w is not None]

    def live_x(self):
        return [i for i, w in enumerate(self.xs) if w is not None]

    def new_w(self):
        self.nextw += 1
        return self.nextw - 1

    def user_ops(self, n):
        """-> (model ops, script words)"""
        r = self.r
        mops, words = [], []
        for _ in range(n):
            ch = [("make", 3), ("ctor", 2), ("newx", 3)]
            if self.live_r():
                ch += [("drop_r", 3), ("consume", 3), ("peek", 3), ("method", 2), ("many", 1), ("peekopt", 1)]
            if self.live_x():
                ch += [("getx", 3), ("into", 2), ("drop_x", 2)]
            k = r.weighted(ch)
            if k in ("make", "ctor"):
                v = r.range(1, 4000)
                w = self.new_w()
                self.rs.append(w)
                mops.append("gi:%d" % v)
                words += [4 if k == "make" else 5, v]
            elif k == "newx":
                v = r.range(1, 100000)
                w = self.new_w()
                self.xs.append((w, self.nbox))
                self.nbox += 1
                mops.append("un:%d" % v)
                words += [10, v]
            elif k in ("drop_r", "consume"):
                s = r.choice(self.live_r())
                mops.append(("ud:%d" if k == "drop_r" else "po:%d") % self.rs[s])
                self.rs[s] = None
                words += [1 if k == "drop_r" else 2, s]
            elif k in ("peek", "method"):
                s = r.choice(self.live_r())
                mops.append("pb:%d" % self.rs[s])
                words += [3 if k == "peek" else 6, s]
            elif k == "many":
                live = self.live_r()
                n_ = r.range(0, min(3, len(live)))
                pick = []
                for _ in range(n_):
                    s = r.choice([x for x in live if x not in pick])
                    pick.append(s)
                words += [7, len(pick)] + pick
                for s in pick:
                    mops.append("po:%d" % self.rs[s])
                    self.rs[s] = None
            elif k == "peekopt":
                live = self.live_r()
                b = r.choice(live)
                if r.chance(1, 3):
                    words += [8, 0xFFFFFFFF, b]
                    mops.append("pb:%d" % self.rs[b])
                else:
                    a = r.choice(live)
                    words += [8, a, b]
                    mops += ["pb:%d" % self.rs[a], "pb:%d" % self.rs[b]]
            elif k == "getx":
                s = r.choice(self.live_x())
                mops.append("ug:%d" % self.xs[s][0])
                words += [11, s]
            elif k in ("into", "drop_x"):
                s = r.choice(self.live_x())
                mops.append(("ui:%d" if k == "into" else "ud:%d") % self.xs[s][0])
                self.xs[s] = None
                words += [12 if k == "into" else 13, s]
        return mops, words

    def activation(self):
        r = self.r
        ch = [("script", 6), ("take", 3), ("look", 3), ("mk", 3), ("ctorx", 1)]
        if self.live_r():
            ch += [("give", 2), ("givesome", 1)]
        if self.live_x():
            ch += [("givex", 2)]
        if self.hostown:
            ch += [("takex", 3), ("lookx", 3), ("methodget", 1), ("hostdrop", 2)]
        if len(self.hostown) >= 2:
            ch += [("merge", 1)]
        k = r.weighted(ch)
        a = {"kind": k}
        if k == "script":
            m, w = self.user_ops(r.range(1, 6))
            a.update(model=["eb"] + m + ["ee"], script=w)
        elif k == "take":
            rep = r.range(1, 4000)
            self.rs.append(self.new_w())
            a.update(model=["eb", "gi:%d" % rep, "ee"], rep=rep)
        elif k == "look":
            rep = r.range(1, 4000)
            w = self.new_w()
            pass_on = r.chance(1, 2)
            a.update(model=["eb", "lb:%d" % rep] + (["pb:%d" % w] if pass_on else []) + ["ee"], rep=rep, pass_on=pass_on)
        elif k == "give":
            s = r.choice(self.live_r())
            a.update(model=["eb", "po:%d" % self.rs[s], "ee"], slot=s)
            self.rs[s] = None
        elif k == "givesome":
            live = self.live_r()
            pick = []
            for _ in range(r.range(0, min(3, len(live)))):
                pick.append(r.choice([x for x in live if x not in pick]))
            a.update(model=["eb"] + ["po:%d" % self.rs[s] for s in pick] + ["ee"], slots=pick)
            for s in pick:
                self.rs[s] = None
        elif k in ("mk", "ctorx"):
            v = r.range(1, 100000)
            w = self.new_w()
            box = self.nbox
            self.nbox += 1
            self.hostown.append(box)
            a.update(model=["eb", "un:%d" % v, "po:%d" % w, "ee"], v=v)
        elif k == "takex":
            b = r.choice(self.hostown)
            self.hostown.remove(b)
            self.xs.append((self.new_w(), b))
            a.update(model=["eb", "ge:%d" % b, "ee"], box=b)
        elif k in ("lookx", "methodget"):
            b = r.choice(self.hostown)
            a.update(model=["eb", "bg:%d" % b, "ee"], box=b)
        elif k == "givex":
            s = r.choice(self.live_x())
            # which box does that wrapper hold? the host learns it from the transfer; we track it through the model output
            a.update(model=["eb", "po:%d" % self.xs[s][0], "ee"], slot=s)
            self.hostown.append(self.xs[s][1])
            self.xs[s] = None
        elif k == "merge":
            b1 = r.choice(self.hostown)
            b2 = r.choice([b for b in self.hostown if b != b1])
            self.hostown.remove(b1)
            w = self.new_w()
            a.update(model=["eb", "ge:%d" % b1, "bg:%d" % b2, "po:%d" % w, "ee"], box=b1, box2=b2)
            self.hostown.append(b1)
        elif k == "hostdrop":
            b = r.choice(self.hostown)
            self.hostown.remove(b)
            a.update(model=["hd:%d" % b], box=b)
        self.acts.append(a)
        return a


def gen_sequence(rng, n):
    g = Gen(rng)
    return [g.activation() for _ in range(n)], g


# ------------------------------------------------------------------------------------------ the two runs
def model_run(exe, acts):
    """-> per activation: (summary fields dict of the state after it, sorted event list)"""
    line = " ".join(" ".join(a["model"]) for a in acts)
    out = vf.run_filter([exe], [line], shards=1)[0]
    steps = out.split(" | ")
    res, i = [], 0
    for a in acts:
        n = len(a["model"])
        chunk = steps[i:i + n]
        i += n
        evs = []
        for c in chunk:
            e = c.split(" ev=")[1]
            evs += [x for x in e.split(",") if x]
        last = chunk[-1].split(" ev=")[0]
        f = dict(t.split("=", 1) for t in last.split(" "))
        res.append((f, sorted(evs)))
    return res


class Native:
    def __init__(self, guest, mod):
        self.g, self.mod = guest, mod

    def ask(self, line):
        r = self.g.ask(line)
        if r is None:
            raise G.GuestDied(self.g.proc.last_err)
        if not r.startswith("OK"):
            raise RuntimeError("guest: " + r)
        return r

    def export(self, k, args, segs=""):
        r = self.ask("EXPORT %s %d 0 %s  %s" % (self.mod, k, ",".join(map(str, args)), segs))
        return G.Guest.fields(r)

    def list_u32(self, xs):
        """host buffer holding a list<u32> (the guest takes it over) -> (ptr, len, segs)"""
        if not xs:
            return 4, 0, ""
        p = self.g.alloc([(4 * len(xs), 4)])[0]
        return p, len(xs), "%d:%s" % (p, b"".join(int(x).to_bytes(4, "little") for x in xs).hex())

    def run(self, a, boxmap):
        """performs activation `a`; -> (summary fields, sorted events, extra notes)"""
        k = a["kind"]
        notes = ""
        if k == "script":
            p, n, segs = self.list_u32(a["script"])
            f = self.export(8, [p, n], segs)
        elif k == "take":
            h = int(self.ask("HT ADD 0 1 %d" % a["rep"]).split()[1])
            f = self.export(0, [h])
        elif k == "look":
            h = int(self.ask("HT ADD 0 0 %d" % a["rep"]).split()[1])
            f = self.export(1, [h, 1 if a["pass_on"] else 0])
        elif k == "give":
            f = self.export(2, [a["slot"]])
            self.ask("HT LIFTOWN %s" % f["ret"])
        elif k == "givesome":
            p, n, segs = self.list_u32(a["slots"])
            r = self.ask("EXPORT %s %d 16 %s  %s" % (self.mod, 3, "%d,%d" % (p, n), segs))
            f = G.Guest.fields(r)
            ret = int(f["ret"])
            mem = {}
            for seg in f.get("segs", "").split(";"):
                if seg:
                    ad, hx = seg.split(":")
                    mem[int(ad)] = bytes.fromhex(hx)

            def rd(addr, n_):
                for base, bs in mem.items():
                    if base <= addr and addr + n_ <= base + len(bs):
                        return bs[addr - base:addr - base + n_]
                return b"\0" * n_
            lp = int.from_bytes(rd(ret, 8), "little")
            ln = int.from_bytes(rd(ret + 8, 8), "little")
            for i in range(ln):
                self.ask("HT LIFTOWN %d" % int.from_bytes(rd(lp + 4 * i, 4), "little"))
            self.ask("POST %s 3 %d" % (self.mod, ret))
        elif k in ("mk", "ctorx"):
            f = self.export(4 if k == "mk" else 9, [a["v"]])
            self.ask("HT LIFTOWN %s" % f["ret"])
        elif k == "takex":
            h = int(self.ask("HT ADD 1 1 #%d" % a["box"]).split()[1])
            f = self.export(5, [h])
        elif k in ("lookx", "methodget"):
            ptr = int(self.ask("HT BOXPTR #%d" % a["box"]).split()[1])
            if ptr >> 32:
                raise RuntimeError("box pointer above 2^32: low-memory arena not active")
            f = self.export(6 if k == "lookx" else 10, [ptr])
        elif k == "givex":
            f = self.export(7, [a["slot"]])
            self.ask("HT LIFTOWN %s" % f["ret"])
        elif k == "merge":
            h = int(self.ask("HT ADD 1 1 #%d" % a["box"]).split()[1])
            ptr = int(self.ask("HT BOXPTR #%d" % a["box2"]).split()[1])
            f = self.export(11, [h, ptr])
            self.ask("HT LIFTOWN %s" % f["ret"])
        elif k == "hostdrop":
            r = self.ask("HT DTOR #%d" % a["box"])
            f = G.Guest.fields(r)
        if k != "hostdrop":
            self.ask("HT ENDCALL")
            notes = f.get("notes", "")
        d = G.Guest.fields(self.ask("HT DUMP"))
        evs = sorted(x for x in d.get("hev", "").split(",") if x)
        mem_errs = [e for e in G.parse_events(f.get("ev", "")) if e[0] == "E"]
        return d, evs, notes, mem_errs


def compare(model, native_fields, native_evs):
    """-> None or a description of the first difference"""
    mf, mev = model
    if mf.get("err") != "0":
        return "the model reports error class %s for a sequence the generator considers valid (generator/model disagree)" % mf.get("err")
    for key in ("tbl", "need", "free"):
        if mf.get(key, "") != native_fields.get(key, ""):
            return "%s: model %r, real %r" % (key, mf.get(key, ""), native_fields.get(key, ""))
    if mf.get("boxes", "") != native_fields.get("boxes", ""):
        return "live boxes: model %r, real %r" % (mf.get("boxes", ""), native_fields.get("boxes", ""))
    if mev != native_evs:
        return "events: model %s, real %s" % (mev, native_evs)
    return None


def statement(native_evs_all, final_fields):
    """C07's own statement on the REAL event stream of a whole (quiescent-ended) run: returns list of violations"""
    bad = []
    created_own = [e for e in native_evs_all if e.startswith("newh:") and e.endswith(":1")]
    drops_own = [e for e in native_evs_all if e.startswith("drop:") and e.endswith(":1")]
    took = [e for e in native_evs_all if e.startswith("took:")]
    created_b = [e for e in native_evs_all if e.startswith("newh:") and e.endswith(":0")]
    drops_b = [e for e in native_evs_all if e.startswith("drop:") and e.endswith(":0")]
    traps = [e for e in native_evs_all if e.startswith("trap:")]
    if traps:
        bad.append("host traps: %s" % traps[:3])
    own_left = len([x for x in final_fields.get("tbl", "").split(",") if x and x.split(":")[2] == "1"])
    bor_left = len([x for x in final_fields.get("tbl", "").split(",") if x and x.split(":")[2] == "0"])
    if len(created_own) != len(drops_own) + len(took) + own_left:
        bad.append("own handles: %d created, %d dropped + %d transferred + %d still held" % (len(created_own), len(drops_own), len(took), own_left))
    if len(created_b) != len(drops_b) + bor_left or bor_left:
        bad.append("borrow handles: %d lent, %d dropped, %d still in the table between calls" % (len(created_b), len(drops_b), bor_left))
    dt = [e for e in native_evs_all if e.startswith("dtor:")]
    if len(dt) != len(set(dt)):
        bad.append("a box was destroyed twice: %s" % sorted(x for x in dt if dt.count(x) > 1)[:3])
    newv = [e.split(":")[1] for e in native_evs_all if e.startswith("newbox-v:")]
    gone = [e.split(":")[1] for e in native_evs_all if e.startswith("destroyed:") or e.startswith("touser:")]
    for v in set(gone):
        if gone.count(v) > newv.count(v):
            bad.append("value %s destroyed/handed over %d times but created %d times" % (v, gone.count(v), newv.count(v)))
    return bad
