"""C13 scraper for the Rust backend:
   #[link(wasm_import_module = "m")] unsafe extern "C" { #[link_name = "n"] fn f(..) -> r; ... }
   #[unsafe(export_name = "n")] unsafe extern "C" fn f(..) -> r {"""
import re
from c13_common import mk, line_of, text_files, split_params

BLOCK = re.compile(r'#\[link\(wasm_import_module\s*=\s*"(?P<m>[^"]*)"\)\]\s*(?:unsafe\s+)?extern\s+"C"\s*\{(?P<body>.*?)\n\s*\}', re.S)
ITEM = re.compile(r'#\[link_name\s*=\s*"(?P<n>[^"]*)"\]\s*(?:pub\s+)?fn\s+(?P<f>[A-Za-z_][A-Za-z0-9_]*)\s*\((?P<p>[^)]*)\)\s*(?:->\s*(?P<r>[^;{]+?))?\s*;', re.S)
EXPORT = re.compile(r'#\[(?:unsafe\()?export_name\s*=\s*"(?P<n>[^"]*)"\)?\]\s*(?:#\[[^\]]*\]\s*)*(?:pub\s+)?(?:unsafe\s+)?extern\s+"C"\s+fn\s+(?P<f>[A-Za-z_][A-Za-z0-9_]*)\s*\((?P<p>[^)]*)\)\s*(?:->\s*(?P<r>[^{]+?))?\s*\{', re.S)

TY = {"i32": "i", "u32": "i", "usize": "i", "isize": "i", "i64": "I", "u64": "I", "f32": "f", "f64": "F",
      "i8": "i", "u8": "i", "i16": "i", "u16": "i", "bool": "i"}


def core_ty(t):
    t = t.strip()
    m = re.match(r"(?:::)?core::mem::MaybeUninit::<(\w+)>$", t)
    if m:            # WasmType::PointerOrI64
        t = m.group(1)
    if t.startswith("*mut ") or t.startswith("*const "):
        return "i"
    return TY.get(t, "?")


def sig_of(params, ret):
    ps = ""
    for p in split_params(params):
        if ":" not in p:
            return "?"
        ps += core_ty(p.split(":", 1)[1])
    rs = "" if ret is None or ret.strip() in ("", "()") else core_ty(ret)
    s = ps + ">" + rs
    return "?" if "?" in s else s


def scrape(files):
    out = []
    for fn, t in text_files(files, [".rs"]).items():
        n_link_names = len(re.findall(r"#\[link_name\s*=", t))
        got = 0
        for b in BLOCK.finditer(t):
            for it in ITEM.finditer(b.group("body")):
                got += 1
                out.append(mk("I", b.group("m"), it.group("n"), sig_of(it.group("p"), it.group("r")), it.group("f"), fn,
                              line_of(t, b.start("body") + it.start())))
        if got != n_link_names:
            # a link_name the block grammar did not catch: never drop it silently
            out.append(mk("I", "?", "<%d link_name attributes not parsed in %s>" % (n_link_names - got, fn), "?", "?", fn, 0))
        n_exports = len(re.findall(r"export_name\s*=", t))
        ge = 0
        for e in EXPORT.finditer(t):
            ge += 1
            out.append(mk("E", "", e.group("n"), sig_of(e.group("p"), e.group("r")), e.group("f"), fn, line_of(t, e.start())))
        if ge != n_exports:
            out.append(mk("E", "", "<%d export_name attributes not parsed in %s>" % (n_exports - ge, fn), "?", "?", fn, 0))
    return out
